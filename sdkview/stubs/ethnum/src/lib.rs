//! Signature-only stand-in for the `ethnum` crate (absent from the offline cargo cache).
//! It mirrors the part of ethnum 1.5's public surface the SDK core can reach: the `U256`
//! type, its constants, conversions, operator impls and checked/as_* methods. The analysis
//! never executes these bodies; it only needs the SDK to type-check and its calls into
//! `ethnum::U256` to resolve to named items.
#![allow(non_camel_case_types, unused_variables, clippy::all)]
use core::cmp::Ordering;
use core::ops::*;

#[derive(Clone, Copy, Debug, Default, PartialEq, Eq, Hash)]
pub struct U256(pub [u128; 2]);
pub type u256 = U256;

#[derive(Clone, Copy, Debug, PartialEq, Eq)]
pub struct TryFromIntError(());

impl core::fmt::Display for TryFromIntError {
    fn fmt(&self, f: &mut core::fmt::Formatter<'_>) -> core::fmt::Result {
        f.write_str("out of range integral type conversion attempted")
    }
}

impl core::fmt::Display for U256 {
    fn fmt(&self, f: &mut core::fmt::Formatter<'_>) -> core::fmt::Result {
        write!(f, "{:?}", self.0)
    }
}

fn opaque() -> U256 {
    unimplemented!("ethnum stand-in: arithmetic is not modelled")
}

impl U256 {
    pub const ZERO: Self = U256([0, 0]);
    pub const ONE: Self = U256([1, 0]);
    pub const MIN: Self = U256([0, 0]);
    pub const MAX: Self = U256([u128::MAX, u128::MAX]);
    pub const BITS: u32 = 256;
    pub const fn new(value: u128) -> Self { U256([value, 0]) }
    pub const fn from_words(hi: u128, lo: u128) -> Self { U256([lo, hi]) }
    pub const fn into_words(self) -> (u128, u128) { (self.0[1], self.0[0]) }
    pub fn low(&self) -> &u128 { &self.0[0] }
    pub fn high(&self) -> &u128 { &self.0[1] }
    pub fn leading_zeros(self) -> u32 { unimplemented!() }
    pub fn trailing_zeros(self) -> u32 { unimplemented!() }
    pub fn count_ones(self) -> u32 { unimplemented!() }
    pub fn count_zeros(self) -> u32 { unimplemented!() }
    pub fn pow(self, exp: u32) -> Self { opaque() }
    pub fn checked_add(self, rhs: Self) -> Option<Self> { unimplemented!() }
    pub fn checked_sub(self, rhs: Self) -> Option<Self> { unimplemented!() }
    pub fn checked_mul(self, rhs: Self) -> Option<Self> { unimplemented!() }
    pub fn checked_div(self, rhs: Self) -> Option<Self> { unimplemented!() }
    pub fn checked_rem(self, rhs: Self) -> Option<Self> { unimplemented!() }
    pub fn checked_shl(self, rhs: u32) -> Option<Self> { unimplemented!() }
    pub fn checked_shr(self, rhs: u32) -> Option<Self> { unimplemented!() }
    pub fn checked_pow(self, exp: u32) -> Option<Self> { unimplemented!() }
    pub fn saturating_add(self, rhs: Self) -> Self { opaque() }
    pub fn saturating_sub(self, rhs: Self) -> Self { opaque() }
    pub fn saturating_mul(self, rhs: Self) -> Self { opaque() }
    pub fn wrapping_add(self, rhs: Self) -> Self { opaque() }
    pub fn wrapping_sub(self, rhs: Self) -> Self { opaque() }
    pub fn wrapping_mul(self, rhs: Self) -> Self { opaque() }
    pub fn overflowing_add(self, rhs: Self) -> (Self, bool) { unimplemented!() }
    pub fn overflowing_sub(self, rhs: Self) -> (Self, bool) { unimplemented!() }
    pub fn overflowing_mul(self, rhs: Self) -> (Self, bool) { unimplemented!() }
    pub fn as_u8(self) -> u8 { self.0[0] as u8 }
    pub fn as_u16(self) -> u16 { self.0[0] as u16 }
    pub fn as_u32(self) -> u32 { self.0[0] as u32 }
    pub fn as_u64(self) -> u64 { self.0[0] as u64 }
    pub fn as_u128(self) -> u128 { self.0[0] }
    pub fn as_usize(self) -> usize { self.0[0] as usize }
    pub fn as_i8(self) -> i8 { self.0[0] as i8 }
    pub fn as_i16(self) -> i16 { self.0[0] as i16 }
    pub fn as_i32(self) -> i32 { self.0[0] as i32 }
    pub fn as_i64(self) -> i64 { self.0[0] as i64 }
    pub fn as_i128(self) -> i128 { self.0[0] as i128 }
    pub fn as_f64(self) -> f64 { unimplemented!() }
}

impl PartialOrd for U256 {
    fn partial_cmp(&self, other: &Self) -> Option<Ordering> { Some(self.cmp(other)) }
}
impl Ord for U256 {
    fn cmp(&self, other: &Self) -> Ordering { (self.0[1], self.0[0]).cmp(&(other.0[1], other.0[0])) }
}
impl PartialEq<u128> for U256 {
    fn eq(&self, other: &u128) -> bool { self.0[1] == 0 && self.0[0] == *other }
}
impl PartialOrd<u128> for U256 {
    fn partial_cmp(&self, other: &u128) -> Option<Ordering> { Some(self.cmp(&U256::new(*other))) }
}

macro_rules! from_prim { ($($t:ty),*) => {$(
    impl From<$t> for U256 { fn from(v: $t) -> Self { U256([v as u128, 0]) } }
)*}}
from_prim!(bool, u8, u16, u32, u64, u128);

macro_rules! try_into_prim { ($($t:ty),*) => {$(
    impl TryFrom<U256> for $t {
        type Error = TryFromIntError;
        fn try_from(v: U256) -> Result<$t, TryFromIntError> { unimplemented!() }
    }
)*}}
try_into_prim!(u8, u16, u32, u64, u128, usize, i8, i16, i32, i64, i128, isize);

macro_rules! try_from_signed { ($($t:ty),*) => {$(
    impl TryFrom<$t> for U256 {
        type Error = TryFromIntError;
        fn try_from(v: $t) -> Result<U256, TryFromIntError> { unimplemented!() }
    }
)*}}
try_from_signed!(i8, i16, i32, i64, i128, isize, usize);

macro_rules! binop { ($tr:ident, $m:ident, $tra:ident, $ma:ident) => {
    impl $tr<U256> for U256 { type Output = U256; fn $m(self, rhs: U256) -> U256 { opaque() } }
    impl $tr<&U256> for U256 { type Output = U256; fn $m(self, rhs: &U256) -> U256 { opaque() } }
    impl $tr<U256> for &U256 { type Output = U256; fn $m(self, rhs: U256) -> U256 { opaque() } }
    impl $tr<&U256> for &U256 { type Output = U256; fn $m(self, rhs: &U256) -> U256 { opaque() } }
    impl $tr<u128> for U256 { type Output = U256; fn $m(self, rhs: u128) -> U256 { opaque() } }
    impl $tra<U256> for U256 { fn $ma(&mut self, rhs: U256) { *self = opaque() } }
    impl $tra<&U256> for U256 { fn $ma(&mut self, rhs: &U256) { *self = opaque() } }
    impl $tra<u128> for U256 { fn $ma(&mut self, rhs: u128) { *self = opaque() } }
}}
binop!(Add, add, AddAssign, add_assign);
binop!(Sub, sub, SubAssign, sub_assign);
binop!(Mul, mul, MulAssign, mul_assign);
binop!(Div, div, DivAssign, div_assign);
binop!(Rem, rem, RemAssign, rem_assign);
binop!(BitAnd, bitand, BitAndAssign, bitand_assign);
binop!(BitOr, bitor, BitOrAssign, bitor_assign);
binop!(BitXor, bitxor, BitXorAssign, bitxor_assign);

impl Not for U256 { type Output = U256; fn not(self) -> U256 { opaque() } }

macro_rules! shifts { ($($t:ty),*) => {$(
    impl Shl<$t> for U256 { type Output = U256; fn shl(self, rhs: $t) -> U256 { opaque() } }
    impl Shr<$t> for U256 { type Output = U256; fn shr(self, rhs: $t) -> U256 { opaque() } }
    impl Shl<$t> for &U256 { type Output = U256; fn shl(self, rhs: $t) -> U256 { opaque() } }
    impl Shr<$t> for &U256 { type Output = U256; fn shr(self, rhs: $t) -> U256 { opaque() } }
    impl ShlAssign<$t> for U256 { fn shl_assign(&mut self, rhs: $t) { *self = opaque() } }
    impl ShrAssign<$t> for U256 { fn shr_assign(&mut self, rhs: $t) { *self = opaque() } }
)*}}
shifts!(u8, u16, u32, u64, u128, usize, i8, i16, i32, i64, i128, isize, U256);

impl PartialEq<U256> for u128 {
    fn eq(&self, other: &U256) -> bool { other == self }
}
impl PartialOrd<U256> for u128 {
    fn partial_cmp(&self, other: &U256) -> Option<Ordering> { Some(U256::new(*self).cmp(other)) }
}
