"""E9: sibling comparison. Normalised summaries (guard atoms with outcomes, calls to
primitives with argument terms, returned value) of two implementations of one
interface, after an explicit name map."""
import re
from . import cfg
from .atoms import atoms, NEG
from .ir import callee_path
from .prov import prov_of, strip, leaves

TYPE_MAP = {
    "WhirlpoolErrorCode": "ErrorCode",
    "PinoModifyLiquidityUpdate": "ModifyLiquidityUpdate",
}
STD_KEEP = {"wrapping_sub", "wrapping_add", "checked_add", "checked_sub", "checked_mul", "checked_div", "unsigned_abs",
            "saturating_sub", "saturating_add", "min", "max", "unwrap_or", "count_ones", "rotate_left", "rotate_right",
            "is_some", "is_none", "ok_or", "try_into", "from_le_bytes", "to_le_bytes", "abs", "rem_euclid", "pow",
            "leading_zeros", "trailing_zeros", "copy_from_slice", "contains", "eq", "ne", "lt", "le", "gt", "ge"}


def fname(path, rename=None):
    last = path.rsplit("::", 1)[-1]
    if last.startswith("pino_"):
        last = last[5:]
    if last.startswith("_pino_"):
        last = "_" + last[6:]
    if rename and last in rename:
        last = rename[last]
    return last


def is_accessor(path):
    return path.startswith("pinocchio::state::") and "::MemoryMapped" in path


ITER_WRAPPERS = ("enumerate", "iter", "iter_mut", "into_iter", "by_ref", "rev")


def _iter_elem(t):
    """If t is `<iterator>.next()?` return (kind, base): ('range', None) for a numeric range,
    ('elem', X) for an element of X, ('enum', X) for an (index, element) pair of X."""
    if t[0] != "q":
        return None
    c = t[1]
    if c[0] != "call" or c[1].rsplit("::", 1)[-1] != "next" or len(c[2]) != 1:
        return None
    x = c[2][0]
    enum = False
    while x[0] == "call" and x[1].rsplit("::", 1)[-1] in ITER_WRAPPERS and len(x[2]) == 1:
        if x[1].rsplit("::", 1)[-1] == "enumerate":
            enum = True
        x = x[2][0]
    if x[0] == "agg" and x[1].endswith("ops::Range"):
        return ("range", None)
    return ("enum" if enum else "elem", x)


class Norm:
    def __init__(self, rename=None, field_map=None, drop_casts=True, arg_map=None, method_fields=(), param_index_as_field=None, const_values=False):
        self.const_values = const_values
        self.rename = rename or {}
        self.field_map = field_map or {}
        self.drop_casts = drop_casts
        self.arg_map = arg_map or {}
        self.method_fields = set(method_fields)
        self.param_index_as_field = param_index_as_field or {}
        self.drop_projection_args = None    # predicate on callee paths: calls to those are printed without arguments that are fields / getters of other arguments

    def _args(self, path, args):
        texts = [self.s(a) for a in args]
        if self.drop_projection_args is not None and self.drop_projection_args(path):
            import re as _re
            texts = [x for x in texts if not any(o is not x and x.startswith(o + ".") and _re.fullmatch(r"[A-Za-z_0-9.]+", x[len(o) + 1:]) for o in texts)]
        return texts

    def _fold(self, t):
        while t[0] == "cast":
            t = t[1]
        if t[0] == "const" and isinstance(t[1], int) and not isinstance(t[1], bool):
            return t[1]
        if t[0] == "bin":
            base = t[1].replace("WithOverflow", "").replace("Unchecked", "")
            if base in ("Add", "Sub", "Mul"):
                a, b = self._fold(t[2]), self._fold(t[3])
                if a is not None and b is not None:
                    return a + b if base == "Add" else a - b if base == "Sub" else a * b
        return None

    def s(self, t):
        k = t[0]
        ie = _iter_elem(t)
        if ie is not None:
            if ie[0] == "range":
                return "i"
            if ie[0] == "elem":
                return "%s[i]" % self.s(ie[1])
        if k == "field" and t[2] in ("0", "1"):
            ie = _iter_elem(t[1])
            if ie is not None and ie[0] == "enum":
                return "i" if t[2] == "0" else "%s[i]" % self.s(ie[1])
        if k == "index" and t[1][0] == "param" and t[1][1] in self.param_index_as_field:
            base, fld = self.param_index_as_field[t[1][1]]
            return "%s[%s].%s" % (base, self.s(t[2]), fld)
        if k == "call" and len(t[2]) == 1 and t[1].rsplit("::", 1)[-1] in self.method_fields:
            return "%s.%s" % (self.s(t[2][0]), t[1].rsplit("::", 1)[-1])
        if k == "param":
            return self.arg_map.get(t[1], t[1])
        if k == "var":
            return "$" + t[1]
        if k == "const":
            if isinstance(t[1], int) and not isinstance(t[1], bool) and t[3] not in ("bool",) and self.const_values:
                return str(t[1])       # an integer constant is its value, whatever it is called
            if t[2]:
                return t[2].split("<")[0].rsplit("::", 1)[-1]
            return repr(t[1]) if not isinstance(t[1], int) else str(t[1])
        if k == "fn":
            return "fn:" + fname(t[1], self.rename)
        if k == "field":
            return "%s.%s" % (self.s(t[1]), self.field_map.get(t[2], t[2]))
        if k == "index":
            if t[2][0] == "call" and t[2][1] == "core::iter::Zip::position":
                return "%s[i]" % self.s(t[1])     # the running position of a zip, like the index of a counted loop
            return "%s[%s]" % (self.s(t[1]), self.s(t[2]))
        if k == "q":
            return self.s(t[1]) + "?"
        if k == "payload":
            return "%s@%s" % (self.s(t[1]), t[2])
        if k == "call":
            if is_accessor(t[1]) and len(t[2]) == 1:
                n = t[1].rsplit("::", 1)[-1]
                return "%s.%s" % (self.s(t[2][0]), self.field_map.get(n, n))
            return "%s(%s)" % (fname(t[1], self.rename), ", ".join(self._args(t[1], t[2])))
        if k == "bin":
            op = t[1]
            base_ = op.replace("WithOverflow", "").replace("Unchecked", "")
            if base_ in ("Add", "Sub"):
                y_ = t[3]
                while y_[0] == "cast":
                    y_ = y_[1]
                # x + {-1 | 1} is {x - 1 | x + 1} (a step amount chosen once instead of a branch at every step)
                if y_[0] == "phi" and 1 < len(y_[1]) <= 4 and all(z[0] == "const" and isinstance(z[1], int) and not isinstance(z[1], bool) for z in y_[1]):
                    return self.s(("phi", frozenset(("bin", op, t[2], z) for z in y_[1])))
                if y_[0] == "const" and isinstance(y_[1], int) and not isinstance(y_[1], bool) and y_[1] < 0 and not y_[2]:
                    return self.s(("bin", {"Add": "Sub", "Sub": "Add"}[base_] + op[len(base_):], t[2], ("const", -y_[1], None, y_[3])))
            if self.const_values:
                # literal arithmetic is folded (a product of three named constants on one side, its value on the other)
                x, y = t[2], t[3]
                while x[0] == "cast":
                    x = x[1]
                while y[0] == "cast":
                    y = y[1]
                fx = self._fold(x)
                fy = self._fold(y)
                base = op.replace("WithOverflow", "").replace("Unchecked", "")
                if fx is not None and fy is not None and base in ("Add", "Sub", "Mul"):
                    return str(fx + fy if base == "Add" else fx - fy if base == "Sub" else fx * fy)
            a, b = self.s(t[2]), self.s(t[3])
            if op in ("Gt", "Ge"):
                op = {"Gt": "Lt", "Ge": "Le"}[op]
                a, b = b, a
            if op in ("Eq", "Ne", "Add", "Mul", "BitAnd", "BitOr", "BitXor") and b < a:
                a, b = b, a
            return "(%s %s %s)" % (a, op, b)
        if k == "un":
            return "%s(%s)" % (t[1], self.s(t[2]))
        if k == "cast":
            return self.s(t[1]) if self.drop_casts else "(%s as %s)" % (self.s(t[1]), t[2])
        if k == "agg":
            ty = t[1].rsplit("::", 1)[-1]
            ty = TYPE_MAP.get(ty, ty)
            var = TYPE_MAP.get(t[2], t[2])
            head = ty if var == ty else "%s::%s" % (ty, var)
            return "%s{%s}" % (head, ", ".join(sorted("%s: %s" % (self.field_map.get(n, n), self.s(x)) for n, x in t[3])))
        if k == "tuple":
            return "(%s)" % ", ".join(self.s(x) for x in t[1])
        if k == "array":
            return "[%s]" % ", ".join(self.s(x) for x in t[1])
        if k == "phi":
            flat = []
            def fl(x, d=0):
                if x[0] == "phi" and d < 6:
                    for y in x[1]:
                        fl(y, d + 1)
                else:
                    flat.append(x)
            fl(t)
            return "phi{%s}" % " | ".join(sorted({self.s(x) for x in flat}))
        if k == "discr":
            return "discr(%s)" % self.s(t[1])
        if k == "len":
            return "len(%s)" % self.s(t[1])
        if k == "variant":
            return "%s as %s" % (self.s(t[1]), t[2])
        if k == "trybranch":
            return "branch(%s)" % self.s(t[1])
        if k == "repeat":
            return "[%s; n]" % self.s(t[1])
        if k == "closure":
            return "closure"
        if k == "rec":
            return "<loop>"
        return "<%s>" % k


def alts(t, limit=24):
    """Phi-free variants of a term: `f(phi{a | b}, c)` stands for `f(a, c)` and `f(b, c)`. Where a value merges (before or after
    a call, inside or outside an aggregate) is an accident of how the source is phrased; the set of variants is not."""
    k = t[0] if isinstance(t, tuple) and t else None
    if k == "phi":
        out = []
        for x in t[1]:
            for y in alts(x, limit):
                if y not in out:
                    out.append(y)
        return out if len(out) <= limit else [t]
    if k in ("q", "cast", "un", "discr", "len", "trybranch"):
        kids = alts(t[1] if k != "un" else t[2], limit)
        if k == "un":
            return [(k, t[1], x) for x in kids]
        return [(k, x) + tuple(t[2:]) for x in kids]
    if k in ("field", "payload", "variant", "index"):
        bases = alts(t[1], limit)
        if k == "index":
            idx = alts(t[2], limit)
            if len(bases) * len(idx) > limit:
                return [t]
            return [(k, b, i) for b in bases for i in idx]
        return [(k, b) + tuple(t[2:]) for b in bases]
    if k == "bin":
        a, b = alts(t[2], limit), alts(t[3], limit)
        if len(a) * len(b) > limit:
            return [t]
        return [(k, t[1], x, y) for x in a for y in b]
    if k in ("call", "tuple", "array"):
        args = t[2] if k == "call" else t[1]
        combos = [()]
        for a in args:
            av = alts(a, limit)
            combos = [c + (x,) for c in combos for x in av]
            if len(combos) > limit:
                return [t]
        if k == "call":
            return [("call", t[1], c) + tuple(t[3:]) for c in combos]
        return [(k, c) for c in combos]
    if k == "agg":
        combos = [()]
        for n, a in t[3]:
            av = alts(a, limit)
            combos = [c + ((n, x),) for c in combos for x in av]
            if len(combos) > limit:
                return [t]
        return [("agg", t[1], t[2], c) for c in combos]
    return [t]


def agreed_caller_args(facts, fn, norm):
    """{parameter name: text} for parameters that every caller fills with the same projection of another argument of the same
    call (`f(position, .., position.tick_lower_index)`): inside f such a parameter is that projection of f's own parameter."""
    names = fn.param_names()
    sites = facts.callers().get(fn.path, [])
    if not sites:
        return {}
    per_param = {}
    for (cf, bi) in sites:
        pv = prov_of(cf)
        t = cf.blocks[bi]["t"]
        args = [strip(pv.operand(a, bi, len(cf.blocks[bi]["s"]))) for a in t["a"]]
        if len(args) != len(names):
            return {}
        for i, n in enumerate(names):
            def rebase(x, depth=0):
                x0 = x
                while x0[0] in ("cast", "q") and depth < 8:
                    x0 = x0[1]
                for j, aj in enumerate(args):
                    if j != i and x0 == aj and aj[0] in ("param", "var", "field", "call"):
                        return ("param", names[j])
                if x0[0] == "field":
                    b = rebase(x0[1], depth + 1)
                    return None if b is None else ("field", b, x0[2])
                if x0[0] == "call" and len(x0[2]) == 1 and (is_accessor(x0[1]) or x0[1].rsplit("::", 1)[-1] in norm.method_fields):
                    b = rebase(x0[2][0], depth + 1)
                    return None if b is None else ("call", x0[1], (b,))
                return None
            r = rebase(args[i])
            txt = norm.s(r) if (r is not None and r[0] != "param") else None
            per_param.setdefault(n, set()).add(txt)
    return {n: next(iter(v)) for n, v in per_param.items() if len(v) == 1 and None not in v}


def summary(fn, norm, calls_pred=None, ctx=None, cut=False):
    """dict(atoms=set, calls=set, returns=set) of normalised strings. With cut="loop" the loop-carried named locals stay
    variables ($name) and their definitions are reported under "vardefs" (a loop is compared by its recurrence, not by an
    unrolling)."""
    pv = prov_of(fn, ctx, cut=cut) if (ctx or cut) else prov_of(fn)
    out = {"atoms": set(), "calls": set(), "returns": set(), "stores": set(), "vardefs": set()}
    if cut:
        for loc_ in range(fn.argc + 1, len(fn.locals)):
            n_ = fn.locals[loc_].get("n")
            nwhole = [d for d in pv.defs.get(loc_, []) if d[2] is None]
            if n_ and len(nwhole) > 1 and any(d[0] in pv.cycle_blocks() for d in nwhole):
                for (_, _, t_) in pv.var_defs(loc_):
                    for v in alts(t_):
                        out["vardefs"].add("$%s := %s" % (n_, norm.s(v)))
    for at in (atoms(fn, ctx, cut=cut) if (ctx or cut) else atoms(fn)):
        cj = at.conjuncts()
        # `!(lo..=hi).contains(&x) => fail` is the pair of refusals x < lo => fail, x > hi => fail
        def _plain(ret):
            return not (ret and all(r[0] == "const" for r in ret))
        both_cont = not at.true_fail and not at.false_fail and _plain(at.true_ret) and _plain(at.false_ret)
        # (and where both outcomes just go on - a value selected by `(lo..hi).contains(&x)` - the chain lo <= x, x < hi does the same)
        conds = cj if (len(cj) == 2 and ((at.false_fail and not at.true_fail) or both_cont)) else [at.cond()]
        # `(a, b) == (c, d) ? T : F` is the short-circuit chain a == c ? (b == d ? T : F) : F
        inner_true = {}
        c0 = conds[0]
        if len(conds) == 1 and c0 and c0[0] == "Eq":
            from .prov import strip as _st
            ta, tb = _st(c0[1]), _st(c0[2])
            if ta[0] == "tuple" and tb[0] == "tuple" and len(ta[1]) == len(tb[1]) >= 2:
                conds = [("Eq", x, y) for x, y in zip(ta[1], tb[1])]
                inner_true = {i: "cont" for i in range(len(conds) - 1)}
        for ci, c in enumerate(conds):
            if c is None:
                base = norm.s(at.term)
            else:
                op, a, b = c
                a_s, b_s = norm.s(a), norm.s(b)
                if op in ("Gt", "Ge"):
                    op = {"Gt": "Lt", "Ge": "Le"}[op]
                    a_s, b_s = b_s, a_s
                if op in ("Eq", "Ne") and b_s < a_s:
                    a_s, b_s = b_s, a_s
                base = "%s %s %s" % (a_s, op, b_s)

            def side(fail, codes, ret):
                if fail:
                    return "fail(%s)" % ",".join(sorted(codes))
                if ret and all(r[0] == "const" for r in ret):
                    return "ret(%s)" % ",".join(str(r[1]) for r in sorted(ret))
                return "cont"
            st, sf = side(at.true_fail, at.true_codes, at.true_ret), side(at.false_fail, at.false_codes, at.false_ret)
            st = inner_true.get(ci, st)
            if c is not None:
                # one canonical member of each complement pair: `a != b ? X : Y` is `a == b ? Y : X`; `a < b` is `!(b <= a)`
                if op == "Ne":
                    base, st, sf = "%s Eq %s" % (a_s, b_s), sf, st
                elif op in ("Lt", "Le") and b_s < a_s:
                    base, st, sf = "%s %s %s" % (b_s, "Le" if op == "Lt" else "Lt", a_s), sf, st
            out["atoms"].add("%s => true:%s false:%s" % (base, st, sf))
    for bi, t in fn.calls():
        if fn.blocks[bi]["c"]:
            continue
        p = callee_path(t)
        if p is None:
            continue
        raw = t["f"].get("raw", p)
        last = raw.rsplit("::", 1)[-1]
        keep = False
        if calls_pred is not None:
            keep = calls_pred(p)
        else:
            keep = t["f"].get("loc") and not (is_accessor(p) and len(t["a"]) == 1) and last not in ("branch", "from_residual", "into", "from", "deref", "deref_mut", "clone")
            keep = keep or last in STD_KEEP and not last in ("eq", "ne", "lt", "le", "gt", "ge", "contains")
        if last in norm.method_fields and len(t["a"]) == 1:
            keep = False
        if last == "checked_sub" and t.get("t") is not None and any(st["k"] == "=" and (st["rv"].get("discr") or {}).get("l") == t["d"]["l"] for st in fn.blocks[t["t"]]["s"]):
            keep = False    # matched on at once: reported as the comparison atom a < b and the difference a - b
        if not keep:
            continue
        whole = ("call", p, tuple(pv.operand(a, bi, len(fn.blocks[bi]["s"])) for a in t["a"]))
        for v in alts(whole):
            # (with norm.drop_projection_args: an argument that is a field / getter of another argument of the same call carries
            # nothing the callee could not read itself)
            texts = norm._args(p, v[2])
            out["calls"].add("%s(%s)" % (fname(p, norm.rename), ", ".join(texts)))
    for bi, bb in enumerate(fn.blocks):
        if bb["t"]["k"] == "ret":
            t = pv.local(0, bi, len(bb["s"]))
            def emit(prefix, x, depth=0):
                # aggregates are compared field by field (the set of values each field can take), everything else by its variants
                sx = x
                while sx[0] in ("cast",):
                    sx = sx[1]
                if sx[0] == "phi":
                    for y in sx[1]:
                        emit(prefix, y, depth)
                    return
                if sx[0] == "agg" and sx[1].endswith("result::Result") and sx[2] == "Ok" and len(sx[3]) == 1:
                    # Ok(v) and Ok(f(..)?) are reported as v and f(..): whether a Result is re-wrapped or returned as is carries no meaning
                    inner = sx[3][0][1]
                    while inner[0] in ("cast",):
                        inner = inner[1]
                    if inner[0] == "q" and strip(inner)[0] == "call":
                        inner = inner[1]
                    emit(prefix, inner, depth)
                    return
                if sx[0] == "tuple" and depth < 3 and sx[1]:
                    for i, y in enumerate(sx[1]):
                        emit("%s.%d" % (prefix, i), y, depth + 1)
                    return
                if sx[0] == "agg" and depth < 3 and sx[3]:
                    ty = TYPE_MAP.get(sx[1].rsplit("::", 1)[-1], sx[1].rsplit("::", 1)[-1])
                    var = TYPE_MAP.get(sx[2], sx[2])
                    head = ty if var == ty else "%s::%s" % (ty, var)
                    for n, y in sx[3]:
                        emit("%s%s.%s" % (prefix, head, norm.field_map.get(n, n)), y, depth + 1)
                    return
                for v in alts(sx):
                    s_ = strip(v)
                    if s_[0] == "call" and "from_residual" in s_[1]:
                        continue
                    if prefix.endswith("Result::Err.0") and s_[0] == "payload" and s_[2] == "Err" and strip(s_[1])[0] == "call":
                        continue    # `Err(e) => return Err(e)` on a callee's result is `?` spelled out

                    out["returns"].add(("%s = " % prefix if prefix else "") + norm.s(v))
            emit("", t)
        for si, st in enumerate(bb["s"]):
            if st["k"] == "=" and "p" in st["p"] and not bb["c"]:
                flds = [e["f"] for e in st["p"]["p"] if isinstance(e, dict) and "f" in e]
                if flds:
                    for v in alts(pv._rvalue(st["rv"], bi, si, 0)):
                        out["stores"].add("%s := %s" % (".".join(norm.field_map.get(f, f) for f in flds), norm.s(v)))
                elif st["p"]["p"] == ["*"] and fn.locals[st["p"]["l"]].get("n"):
                    # store through a named reference binding (`*tick_group_index = ..` on a `ref mut` pattern)
                    out["stores"].add("*%s := %s" % (norm.s(pv.place(st["p"], bi, si)), norm.s(pv._rvalue(st["rv"], bi, si, 0))))
    return out


def diff(sa, sb, keys=("atoms", "calls", "returns"), exempt=()):
    """List of (kind, only_in_a, only_in_b) after removing exempted strings (regex list)."""
    out = []
    for k in keys:
        a = {x for x in sa[k] if not any(re.search(e, x) for e in exempt)}
        b = {x for x in sb[k] if not any(re.search(e, x) for e in exempt)}
        if a != b:
            out.append((k, sorted(a - b), sorted(b - a)))
    return out


def align_params(fa, fb, explicit=None):
    """arg_map for side b: a parameter of b whose name does not occur among a's parameters is mapped to the name of
    a's parameter at the same position when that one does not occur among b's (one-sided renames are not differences).
    Explicit entries win."""
    explicit = dict(explicit or {})
    na, nb = fa.param_names(), fb.param_names()
    out = {}
    if len(na) == len(nb):
        for x, y in zip(na, nb):
            if x and y and x != y and y not in na and x not in nb and y not in explicit and x not in explicit.values():
                out[y] = x
    out.update(explicit)
    return out
