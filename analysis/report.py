"""Rule/instance bookkeeping, evidence and verdict output."""
import json
import os
import time

VERIF = os.path.dirname(os.path.dirname(os.path.abspath(__file__)))


class Result:
    __slots__ = ("key", "rule", "instance", "status", "msg", "loc", "expected", "found", "detail", "nontrivial")

    def as_dict(self):
        d = {"key": self.key, "rule": self.rule, "instance": self.instance, "status": self.status}
        for k in ("msg", "loc", "expected", "found", "detail"):
            v = getattr(self, k)
            if v:
                d[k] = v
        return d


class Run:
    def __init__(self, prop, tier, facts, sdk=None, config="default"):
        self.prop = prop
        self.tier = tier
        self.facts = facts
        self.sdk = sdk
        self.config = config
        self.results = []
        self.rule_titles = {}
        self.fns_touched = set()
        self.assumptions = []
        self._cur = None

    # -- recording ---------------------------------------------------------
    def _add(self, rule, instance, status, msg="", loc=None, expected=None, found=None, detail=None, nontrivial=True):
        r = Result()
        r.rule = rule
        r.instance = instance
        r.key = "%s/%s/%s" % (self.prop, rule, instance)
        r.status = status
        r.msg = msg
        r.loc = loc
        r.expected = expected
        r.found = found
        r.detail = detail
        r.nontrivial = nontrivial
        self.results.append(r)
        return r

    def ok(self, rule, instance, detail=None, nontrivial=True):
        return self._add(rule, instance, "pass", detail=detail, nontrivial=nontrivial)

    def bad(self, rule, instance, msg, loc=None, expected=None, found=None):
        return self._add(rule, instance, "violation", msg=msg, loc=loc, expected=expected, found=found)

    def missing(self, rule, instance, msg, loc=None):
        return self._add(rule, instance, "anchor-missing", msg="anchor missing: " + msg, loc=loc)

    def check(self, rule, instance, cond, msg, loc=None, expected=None, found=None, detail=None):
        if cond:
            return self.ok(rule, instance, detail=detail)
        return self.bad(rule, instance, msg, loc=loc, expected=expected, found=found)

    def floor(self, rule, what, n, minimum):
        """Fail closed when a rule enumerates fewer instances than were confirmed by hand."""
        if n < minimum:
            self.missing(rule, "floor:" + what, "enumerated %d %s, confirmed by hand: at least %d" % (n, what, minimum))
        else:
            self.ok(rule, "floor:" + what, detail="%d >= %d" % (n, minimum), nontrivial=False)

    def touch(self, fn):
        if fn is not None:
            self.fns_touched.add(fn.path)

    def title(self, rule, text):
        self.rule_titles[rule] = text

    def assume(self, text):
        if text not in self.assumptions:
            self.assumptions.append(text)


def load_known():
    p = os.path.join(VERIF, "known_findings.json")
    if not os.path.exists(p):
        return {"findings": [], "fixed": []}
    return json.load(open(p))


def finish(prop, tier, runs, t0, seed, extra_cov=None, selftest=None):
    """Print verdict lines, write evidence and replay; return exit code."""
    known = load_known()
    known_keys = {k["key"]: k for k in known.get("findings", []) if k.get("property") == prop}
    all_results = []
    for run in runs:
        for r in run.results:
            all_results.append((run.config, r))
    viol = {}
    known_hit = {}
    for cfgname, r in all_results:
        if r.status == "pass":
            continue
        if r.key in known_keys:
            known_hit[r.key] = r
        else:
            viol.setdefault(r.key, (cfgname, r))
    # tools that run the checks against a deliberately broken tree redirect the output (VERIF_EVIDENCE_DIR)
    evdir = os.environ.get("VERIF_EVIDENCE_DIR") or os.path.join(VERIF, "evidence")
    os.makedirs(os.path.join(evdir, "replay"), exist_ok=True)
    replay_path = os.path.join(evdir, "replay", "%s.json" % prop)
    if viol:
        json.dump({"property": prop, "violations": [dict(r.as_dict(), config=c) for c, r in viol.values()]},
                  open(replay_path, "w"), indent=1)
    elif os.path.exists(replay_path):
        os.remove(replay_path)
    for k, r in known_hit.items():
        print("KNOWN-FINDING: property=%s %s" % (prop, known_keys[k].get("what", k)))
    for k, (c, r) in viol.items():
        print("  violation %s [%s]\n    %s\n    at %s" % (k, c, r.msg, r.loc or "?"))
        if r.expected or r.found:
            print("    expected: %s\n    found:    %s" % (r.expected, r.found))
    if viol:
        print("VIOLATION property=%s replay=%s" % (prop, replay_path))
    # evidence
    n_obl = len(all_results)
    n_pass = sum(1 for _, r in all_results if r.status == "pass")
    distinct = len({r.key for _, r in all_results if r.nontrivial})
    rules = {}
    for _, r in all_results:
        d = rules.setdefault(r.rule, {"instances": 0, "passed": 0})
        d["instances"] += 1
        d["passed"] += 1 if r.status == "pass" else 0
    titles = {}
    fns = set()
    assumptions = []
    for run in runs:
        titles.update(run.rule_titles)
        fns |= run.fns_touched
        for a in run.assumptions:
            if a not in assumptions:
                assumptions.append(a)
    for k in rules:
        rules[k]["rule"] = titles.get(k, "")
    samples = []
    seen_rules = {}
    for _, r in all_results:
        if r.status == "pass" and r.nontrivial and seen_rules.get(r.rule, 0) < 3:
            seen_rules[r.rule] = seen_rules.get(r.rule, 0) + 1
            samples.append({"key": r.key, "decided": r.detail or "pass"})
    cov = {
        "explanation": ("Static decision of structural necessary conditions of %s over facts extracted by a rustc_private "
                        "driver from /repo's current working tree (expanded AST, MIR with resolved callees at mir-opt-level 0, "
                        "layouts, evaluated constants). Each obligation is one rule instance enumerated from the repository; "
                        "it is discharged when the rule's exact structural condition holds. The behavioural statement itself "
                        "(numerical / history-level part) is not decided; see DESIGN.md." % prop),
        "obligations": n_obl,
        "discharged": n_pass,
        "evaluations": n_obl,
        "distinct_nontrivial": distinct,
        "rule": "instances are enumerated from the repository by each rule (call sites, writers, handlers, account fields, constants); "
                "non-trivial = the decision consulted at least one MIR site, attribute, layout or constant (floor bookkeeping entries are excluded); "
                "distinct = distinct instance keys",
        "samples": samples[:40],
        "rules": rules,
        "functions_analysed": len(fns),
        "configurations": [run.config for run in runs],
        "bodies_in_facts": sum(1 for f in runs[0].facts.fn_list if f.kind != "const") if runs else 0,
        "checker_cmd": "./check %s --tier %s" % (prop, tier),
        "trusted_base": ["rustc nightly front end (parsing, expansion, type check, MIR construction, layout, const eval)",
                         "anchor-lang 0.32.1 meaning of #[account(..)] constraints and account wrapper types",
                         "SPL token / token-2022 program semantics",
                         "wpfacts driver serialisation (driver/src/main.rs), the transparent-wrapper table of analysis/prov.py and the "
                         "canonicalisation passes of analysis/canon.py (inlining, jump threading, tuple scalar replacement, min/max recognition)"],
        "canonicalisation": {
            "passes": "before any rule runs the facts are brought to one canonical shape (analysis/canon.py): moved / renamed items are analysed under their "
                      "reference path, functions new to the tree and the listed single-role helpers are inlined into their callers (with `?` threading), "
                      "matched-on tuples are replaced by their components, hand-written min / max selections are read as min / max, materialised booleans are threaded "
                      "back into control flow",
            "applied": sorted({l for run in runs for l in (getattr(run.facts, "canon_log", []) + (getattr(run.sdk, "canon_log", []) if run.sdk is not None else []))})[:40],
        },
        "exhaustive": False,
    }
    if extra_cov:
        cov.update(extra_cov)
    if selftest is not None:
        cov["checker_selftest"] = selftest
    ev = {
        "property_id": prop,
        "tier": tier,
        "seed": seed,
        "level": "other",
        "coverage": cov,
        "assumptions": assumptions + [
            "facts come from the nightly front end while the shipped program is built with the pinned 1.86 toolchain; surface semantics of the analysed constructs are the same",
            "writes through raw pointers not created by the enumerated raw-view creators are outside the model",
        ],
        "wall_s": round(time.time() - t0, 2),
        "violations": len(viol),
    }
    json.dump(ev, open(os.path.join(evdir, "%s.json" % prop), "w"), indent=1)
    print("%s: %d obligations, %d discharged, %d violations, %d known findings (%.1fs)" % (
        prop, n_obl, n_pass, len(viol), len(known_hit), time.time() - t0))
    return 1 if viol else 0
