"""E4: guard atoms. The comparisons a function branches on, normalised, with what
each outcome leads to (fail-only region with its error codes, or continues)."""
from .ir import op_place, op_const, callee_path
from .prov import prov_of, show, strip, leaves
from . import cfg

CMP = {"Lt", "Le", "Gt", "Ge", "Eq", "Ne"}
NEG = {"Lt": "Ge", "Le": "Gt", "Gt": "Le", "Ge": "Lt", "Eq": "Ne", "Ne": "Eq"}
SWAP = {"Lt": "Gt", "Le": "Ge", "Gt": "Lt", "Ge": "Le", "Eq": "Eq", "Ne": "Ne"}
# comparison trait methods seen in MIR as calls
CMP_METHODS = {"lt": "Lt", "le": "Le", "gt": "Gt", "ge": "Ge", "eq": "Eq", "ne": "Ne"}


class Atom:
    """A boolean branch. `term` has leading negations stripped; `true_*` / `false_*` describe what
    happens when *term* (the stripped condition) is true / false; `neg` only records that the
    source condition was written negated."""
    __slots__ = ("fn", "block", "line", "term", "neg", "true_targets", "false_targets",
                 "true_fail", "false_fail", "true_codes", "false_codes", "true_ret", "false_ret")

    def cond(self):
        """(op, a, b) for comparison atoms with negation folded in, else None."""
        t = self.term
        if t[0] == "bin" and t[1] in CMP:
            # (a - b) == 0 is a == b (plain `-`: the subtraction itself did not wrap)
            if t[1] in ("Eq", "Ne"):
                for (x, y) in ((t[2], t[3]), (t[3], t[2])):
                    x_ = x
                    while x_[0] == "cast":
                        x_ = x_[1]
                    if x_[0] == "bin" and x_[1] == "Sub" and y[0] == "const" and y[1] == 0 and not isinstance(y[1], bool):
                        return (t[1], x_[2], x_[3])
                # (a / b) * b == a is a % b == 0 (the product cannot overflow: |(a / b) * b| <= |a|)
                for (x, y) in ((t[2], t[3]), (t[3], t[2])):
                    x_ = x
                    while x_[0] == "cast":
                        x_ = x_[1]
                    if x_[0] == "bin" and x_[1] == "Mul":
                        for (q, d) in ((x_[2], x_[3]), (x_[3], x_[2])):
                            q_ = q
                            while q_[0] == "cast":
                                q_ = q_[1]
                            if q_[0] == "bin" and q_[1] == "Div" and q_[3] == d and q_[2] == y:
                                return (t[1], ("bin", "Rem", y, d), ("const", 0, None, None))
            return (t[1], t[2], t[3])
        if t[0] == "call":
            last = t[1].rsplit("::", 1)[-1]
            if last in CMP_METHODS and len(t[2]) == 2:
                return (CMP_METHODS[last], t[2][0], t[2][1])
        return None

    def conjuncts(self):
        """[(op, a, b)] that all hold when the (stripped) term is true: the comparison itself, or for `(lo..hi).contains(&x)`
        the pair x >= lo, x < hi (x <= hi for an inclusive range). A false term means: not all of them."""
        t = self.term
        while t[0] in ("cast", "q"):
            t = t[1]
        if t[0] == "call" and t[1].endswith("::contains") and len(t[2]) == 2:
            rg = t[2][0]
            while rg[0] in ("cast", "q"):
                rg = rg[1]
            if rg[0] == "agg" and rg[1].endswith("ops::Range"):
                f = dict(rg[3])
                return [("Ge", t[2][1], f["start"]), ("Lt", t[2][1], f["end"])]
            if rg[0] == "call" and rg[1].split("::<")[0].endswith("RangeInclusive") and rg[1].endswith("::new") and len(rg[2]) == 2:
                return [("Ge", t[2][1], rg[2][0]), ("Le", t[2][1], rg[2][1])]
        c = self.cond()
        return [c] if c else []

    def fail_cond(self):
        """The comparison under which this atom leads to failure, or None."""
        c = self.cond()
        if c is None:
            return None
        if self.true_fail and not self.false_fail:
            return c
        if self.false_fail and not self.true_fail:
            return (NEG[c[0]], c[1], c[2])
        return None

    def ret_cond(self, value):
        """The comparison under which this atom returns the constant `value` (0/1) for sure."""
        c = self.cond()
        if c is None:
            return None
        if self.true_ret == {("const", value)} and self.false_ret != {("const", value)}:
            return c
        if self.false_ret == {("const", value)} and self.true_ret != {("const", value)}:
            return (NEG[c[0]], c[1], c[2])
        return None

    def describe(self):
        c = self.cond()
        if c:
            s = "%s %s %s" % (show(c[1]), c[0], show(c[2]))
        else:
            s = show(self.term)
        def side(fail, codes, ret):
            if fail:
                return "fail(%s)" % ",".join(sorted(codes))
            if ret and all(r[0] == "const" for r in ret):
                return "ret(%s)" % ",".join(str(r[1]) for r in sorted(ret))
            return "cont"
        return "%s [true:%s false:%s] line %s" % (
            s, side(self.true_fail, self.true_codes, self.true_ret),
            side(self.false_fail, self.false_codes, self.false_ret), self.line)


def atoms(fn, ctx=None, cut=False):
    """All boolean branch atoms of a function; with ctx only those reachable in that
    context, with terms resolved along the context's feasible edges."""
    key = ("atoms", tuple(sorted(ctx.items())) if ctx is not None else None, cut)
    if key in fn._cache:
        return fn._cache[key]
    pv = prov_of(fn, ctx, cut=cut) if (ctx is not None or cut) else prov_of(fn)
    out = []
    for bi, bb in enumerate(fn.blocks):
        t = bb["t"]
        if bb["c"] or t["k"] != "switch":
            continue
        if pv.flow is not None and pv.flow.state_in[bi] is None:
            continue
        term = pv.operand(t["d"], bi, len(bb["s"]))
        neg = False
        if t.get("dt") != "bool":
            # `match a.checked_sub(b) { None => .., Some(d) => .. }` on unsigned integers is the test a < b (None side)
            from .prov import _UNSIGNED_CHECKED_SUB, strip as _strip
            x = _strip(term[1]) if term[0] == "discr" else None
            if x is None and term[0] not in ("discr", "const") and len(t["ts"]) == 1 and t["ts"][0][1] != t["o"] \
                    and (t.get("dt") or "")[:1] in ("u", "i") and (t.get("dt") or "")[1:].replace("size", "0").isdigit():
                # `match v { K => .., _ => .. }` on an integer is the test v == K
                try:
                    k = int(t["ts"][0][0])
                except ValueError:
                    continue
                a = Atom()
                a.fn, a.block, a.line = fn, bi, t.get("l")
                # (a `match` arm naming a constant leaves only its value in the MIR: when exactly one constant of the crate has that
                # value and type it is printed under that name, as the `==` spelling of the same test is)
                nm = None
                try:
                    cands = [p_ for p_, c_ in fn.facts.consts.items() if c_.get("ty") == t.get("dt") and "v" in c_ and int(c_["v"]) == k] if k > 1 else []
                    nm = cands[0] if len(cands) == 1 else None
                except Exception:
                    nm = None
                a.term, a.neg = ("bin", "Eq", term, ("const", k, nm, t.get("dt"))), False
                eq_t, ne_t = t["ts"][0][1], t["o"]
                a.true_targets, a.false_targets = [eq_t], [ne_t]
                a.true_fail, a.false_fail = cfg.fail_only(fn, eq_t), cfg.fail_only(fn, ne_t)
                a.true_ret, a.false_ret = cfg.return_values_from(fn, eq_t), cfg.return_values_from(fn, ne_t)
                a.true_codes = cfg.error_codes_from(fn, eq_t) if a.true_fail else set()
                a.false_codes = cfg.error_codes_from(fn, ne_t) if a.false_fail else set()
                out.append(a)
                continue
            if x is None or x[0] != "call" or not _UNSIGNED_CHECKED_SUB.match(x[1]) or len(x[2]) != 2:
                continue
            arms = {str(v): b for v, b in t["ts"]}
            none_t = arms.get("0", t["o"])
            some_t = arms.get("1", t["o"])
            if none_t == some_t:
                continue
            a = Atom()
            a.fn, a.block, a.line = fn, bi, t.get("l")
            a.term, a.neg = ("bin", "Lt", x[2][0], x[2][1]), False
            a.true_targets, a.false_targets = [none_t], [some_t]
            a.true_fail, a.false_fail = cfg.fail_only(fn, none_t), cfg.fail_only(fn, some_t)
            a.true_ret, a.false_ret = cfg.return_values_from(fn, none_t), cfg.return_values_from(fn, some_t)
            a.true_codes = cfg.error_codes_from(fn, none_t) if a.true_fail else set()
            a.false_codes = cfg.error_codes_from(fn, some_t) if a.false_fail else set()
            out.append(a)
            continue
        while term[0] == "un" and term[1] == "Not":
            term = term[2]
            neg = not neg
        tf = None
        tt = t["o"]
        for val, b in t["ts"]:
            if val == "0":
                tf = b
        if tf is None:
            for val, b in t["ts"]:
                if val == "1":
                    tt = b
            tf = t["o"]
        a = Atom()
        a.fn = fn
        a.block = bi
        a.line = t.get("l")
        a.term = term
        a.neg = neg
        # with negation folded into `neg`, the "condition true" edge is:
        cond_true, cond_false = (tf, tt) if neg else (tt, tf)
        a.true_targets = [cond_true]
        a.false_targets = [cond_false]
        a.true_fail = cfg.fail_only(fn, cond_true)
        a.false_fail = cfg.fail_only(fn, cond_false)
        a.true_ret = cfg.return_values_from(fn, cond_true)
        a.false_ret = cfg.return_values_from(fn, cond_false)
        a.true_codes = cfg.error_codes_from(fn, cond_true) if a.true_fail else set()
        a.false_codes = cfg.error_codes_from(fn, cond_false) if a.false_fail else set()
        # fold neg so that term/neg describe the *source* condition and true/false are its outcomes
        out.append(a)
    fn._cache[key] = out
    return out


def norm_cmp(op, a, b):
    """Canonical orientation: only Lt/Le/Eq/Ne, Eq/Ne operands ordered by text."""
    if op in ("Gt", "Ge"):
        op, a, b = SWAP[op], b, a
    if op in ("Eq", "Ne"):
        sa, sb = show(a, True), show(b, True)
        if sb < sa:
            a, b = b, a
    return (op, a, b)


def find_fail_atoms(fn, pred):
    """Atoms whose failure condition (op, a, b) satisfies pred(op, a, b, atom)
    in either orientation. pred receives the condition as written and swapped."""
    out = []
    for at in atoms(fn):
        fc = at.fail_cond()
        if fc is None:
            continue
        op, a, b = fc
        if pred(op, a, b, at) or pred(SWAP[op], b, a, at):
            out.append(at)
    return out


def guarded_by(fn, atom, target_block):
    """True if `target_block` can only be reached (from entry) through the
    non-failing side of `atom`."""
    if atom.true_fail and not atom.false_fail:
        keep = atom.false_targets
    elif atom.false_fail and not atom.true_fail:
        keep = atom.true_targets
    else:
        return False
    # cut the continuing edge(s) of the atom: target must become unreachable
    cut = {(atom.block, k) for k in keep}
    r = cfg.reach(fn, 0, cut_edges=cut)
    return target_block not in r
