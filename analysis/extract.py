"""Fact extraction with a content-addressed cache.

Runs `cargo +nightly check` on /repo (or on the SDK view package) with the wpfacts
driver as RUSTC_WORKSPACE_WRAPPER. Never executes repository code.
"""
import fcntl
import hashlib
import json
import os
import shutil
import subprocess
import time

VERIF = os.path.dirname(os.path.dirname(os.path.abspath(__file__)))
REPO = os.environ.get("WP_REPO", "/repo")
CACHE = os.path.join(VERIF, ".cache")
DRIVER = os.path.join(VERIF, "driver", "target", "debug", "wpfacts")

EXTERN = ",".join([
    "spl_token_2022::pod::PodAccount",
    "spl_token_2022::pod::PodMint",
    "spl_token_2022::pod::PodCOption",
    "spl_token_2022::extension::transfer_fee::TransferFeeConfig",
    "spl_token_2022::extension::transfer_fee::TransferFee",
    "spl_token_2022::extension::transfer_fee::MAX_FEE_BASIS_POINTS",
    "spl_token_2022::extension::transfer_hook::TransferHook",
    "spl_token_2022::extension::memo_transfer::MemoTransfer",
    "spl_token_2022::extension::ExtensionType",
    "spl_token_2022::extension::AccountType",
    "spl_token_2022::state::AccountState",
    "spl_token_2022::state::Account",
    "spl_token_2022::state::Mint",
])


class AnalysisIncomplete(Exception):
    pass


def _sysroot():
    return subprocess.check_output(["rustc", "+nightly", "--print", "sysroot"], text=True).strip()


def fingerprint(paths, extra=""):
    h = hashlib.sha256()
    h.update(extra.encode())
    files = []
    for root in paths:
        if os.path.isfile(root):
            files.append(root)
            continue
        for d, dirs, fs in os.walk(root):
            dirs[:] = sorted(x for x in dirs if x not in ("target", "node_modules", ".git"))
            for f in sorted(fs):
                if f.endswith((".rs", ".toml", ".lock", ".json")):
                    files.append(os.path.join(d, f))
    for f in sorted(files):
        h.update(f.encode())
        with open(f, "rb") as fh:
            h.update(hashlib.sha256(fh.read()).digest())
    # the driver is part of the key
    if os.path.exists(DRIVER):
        st = os.stat(DRIVER)
        h.update(("%d-%d" % (st.st_size, int(st.st_mtime))).encode())
    return h.hexdigest()[:24]


def ensure_driver():
    if os.path.exists(DRIVER):
        src = os.path.join(VERIF, "driver", "src", "main.rs")
        if os.stat(src).st_mtime <= os.stat(DRIVER).st_mtime:
            return
    env = dict(os.environ, CARGO_NET_OFFLINE="true")
    r = subprocess.run(["cargo", "build", "--offline"], cwd=os.path.join(VERIF, "driver"), env=env,
                       stdout=subprocess.PIPE, stderr=subprocess.STDOUT, text=True)
    if r.returncode != 0:
        raise AnalysisIncomplete("driver build failed:\n" + r.stdout[-3000:])


def _prune_cache(keep):
    d = os.path.join(CACHE, "facts")
    if not os.path.isdir(d):
        return
    ents = []
    for e in os.listdir(d):
        p = os.path.join(d, e)
        if e in keep or not os.path.isdir(p):
            continue
        ents.append((os.stat(p).st_mtime, p))
    ents.sort(reverse=True)
    for _, p in ents[6:]:
        shutil.rmtree(p, ignore_errors=True)


def program_facts(features=None, repo=None, scratch_out=None):
    """Directory with the facts of programs/whirlpool for the current working tree.
    `repo` analyses another checkout (the checker's self-test uses a scratch copy); `scratch_out`
    writes the facts there instead of the content-addressed cache."""
    ensure_driver()
    REPO = repo or globals()["REPO"]
    feat = ",".join(features) if features else ""
    fp = fingerprint([os.path.join(REPO, "programs"), os.path.join(REPO, "Cargo.toml"),
                      os.path.join(REPO, "Cargo.lock")], extra="program:" + feat + ":" + EXTERN)
    out_root = scratch_out or os.path.join(CACHE, "facts", fp)
    out = os.path.join(out_root, "whirlpool")
    done = os.path.join(out, "DONE")
    if os.path.exists(done):
        os.utime(out_root)
        return out
    os.makedirs(CACHE, exist_ok=True)
    lock = open(os.path.join(CACHE, "extract.lock"), "w")
    fcntl.flock(lock, fcntl.LOCK_EX)
    try:
        if os.path.exists(done):
            return out
        if os.path.isdir(out_root):
            shutil.rmtree(out_root)
        os.makedirs(out_root)
        target = os.path.join(CACHE, "target")
        # cargo's freshness cache would skip the wrapper: drop the member's fingerprint
        fpdir = os.path.join(target, "debug", ".fingerprint")
        if os.path.isdir(fpdir):
            for e in os.listdir(fpdir):
                if e.startswith("whirlpool-"):
                    shutil.rmtree(os.path.join(fpdir, e), ignore_errors=True)
        env = dict(os.environ)
        env.update({
            "LD_LIBRARY_PATH": _sysroot() + "/lib" + (":" + env["LD_LIBRARY_PATH"] if env.get("LD_LIBRARY_PATH") else ""),
            "RUSTFLAGS": "-Zmir-opt-level=0 -Awarnings",
            "RUSTC_WORKSPACE_WRAPPER": DRIVER,
            "WPFACTS_OUT": out_root,
            "WPFACTS_CRATES": "whirlpool",
            "WPFACTS_EXTERN": EXTERN,
            "CARGO_TARGET_DIR": target,
            "CARGO_NET_OFFLINE": "true",
        })
        env.pop("RUSTUP_TOOLCHAIN", None)
        cmd = ["cargo", "+nightly", "check", "--offline", "-p", "whirlpool", "--lib"]
        if features:
            cmd += ["--features", feat]
        t0 = time.time()
        r = subprocess.run(cmd, cwd=REPO, env=env, stdout=subprocess.PIPE, stderr=subprocess.STDOUT, text=True)
        if r.returncode != 0:
            shutil.rmtree(out_root, ignore_errors=True)
            raise AnalysisIncomplete("cargo +nightly check failed on the current tree:\n" + r.stdout[-4000:])
        meta = os.path.join(out, "meta.json")
        if not os.path.exists(meta) or os.stat(meta).st_mtime < t0 - 1:
            shutil.rmtree(out_root, ignore_errors=True)
            raise AnalysisIncomplete("the fact extractor did not run (no fresh meta.json)")
        with open(done, "w") as fh:
            fh.write("%.1f\n" % (time.time() - t0))
        if not scratch_out:
            _prune_cache({fp})
        return out
    finally:
        fcntl.flock(lock, fcntl.LOCK_UN)
        lock.close()


def _sdk_view_for(repo, scratch):
    """A copy of the sdkview harness whose paths point into another checkout."""
    src = os.path.join(VERIF, "sdkview")
    dst = os.path.join(scratch, "sdkview")
    if os.path.isdir(dst):
        shutil.rmtree(dst)
    shutil.copytree(src, dst, ignore=shutil.ignore_patterns("target"))
    p = os.path.join(dst, "Cargo.toml")
    with open(p) as fh:
        t = fh.read()
    with open(p, "w") as fh:
        fh.write(t.replace('"/repo/', '"%s/' % repo.rstrip("/")))
    return dst


def sdk_facts(repo=None, scratch_out=None):
    """Facts of rust-sdk/core through the sdkview harness package."""
    ensure_driver()
    REPO = repo or globals()["REPO"]
    view = os.path.join(VERIF, "sdkview") if not repo else _sdk_view_for(repo, os.path.dirname(scratch_out.rstrip("/")))
    fp = fingerprint([os.path.join(REPO, "rust-sdk", "core"), os.path.join(REPO, "rust-sdk", "macros"), view], extra="sdk")
    out_root = scratch_out or os.path.join(CACHE, "facts", "sdk-" + fp)
    out = os.path.join(out_root, "orca_whirlpools_core")
    done = os.path.join(out, "DONE")
    if os.path.exists(done):
        os.utime(out_root)
        return out
    os.makedirs(CACHE, exist_ok=True)
    lock = open(os.path.join(CACHE, "extract-sdk.lock"), "w")
    fcntl.flock(lock, fcntl.LOCK_EX)
    try:
        if os.path.exists(done):
            return out
        if os.path.isdir(out_root):
            shutil.rmtree(out_root)
        os.makedirs(out_root)
        target = os.path.join(CACHE, "target-sdk")
        fpdir = os.path.join(target, "debug", ".fingerprint")
        if os.path.isdir(fpdir):
            for e in os.listdir(fpdir):
                if e.startswith("orca_whirlpools_core-") or e.startswith("orca-whirlpools-core"):
                    shutil.rmtree(os.path.join(fpdir, e), ignore_errors=True)
        env = dict(os.environ)
        env.update({
            "LD_LIBRARY_PATH": _sysroot() + "/lib",
            "RUSTFLAGS": "-Zmir-opt-level=0 -Awarnings",
            "RUSTC_WORKSPACE_WRAPPER": DRIVER,
            "WPFACTS_OUT": out_root,
            "WPFACTS_CRATES": "orca_whirlpools_core",
            "CARGO_TARGET_DIR": target,
            "CARGO_NET_OFFLINE": "true",
        })
        env.pop("RUSTUP_TOOLCHAIN", None)
        t0 = time.time()
        r = subprocess.run(["cargo", "+nightly", "check", "--offline", "--lib"], cwd=view, env=env,
                           stdout=subprocess.PIPE, stderr=subprocess.STDOUT, text=True)
        if r.returncode != 0:
            shutil.rmtree(out_root, ignore_errors=True)
            raise AnalysisIncomplete("cargo +nightly check failed on the SDK view:\n" + r.stdout[-4000:])
        meta = os.path.join(out, "meta.json")
        if not os.path.exists(meta) or os.stat(meta).st_mtime < t0 - 1:
            shutil.rmtree(out_root, ignore_errors=True)
            raise AnalysisIncomplete("the fact extractor did not run on the SDK view")
        with open(done, "w") as fh:
            fh.write("%.1f\n" % (time.time() - t0))
        return out
    finally:
        fcntl.flock(lock, fcntl.LOCK_UN)
        lock.close()
