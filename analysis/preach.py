"""E3: predicated reachability = conditional constant propagation restricted to
booleans, per context (an assignment of truth values to boolean parameters),
with interprocedural composition by context-sensitive summaries."""
from .ir import op_place, op_const, callee_path


class BoolFlow:
    """Flow-sensitive boolean constant propagation over one function for one context."""

    def __init__(self, fn, ctx):
        self.fn = fn
        self.ctx = dict(ctx)
        self.entry = {}
        for i in range(1, fn.argc + 1):
            n = fn.locals[i].get("n")
            if n in self.ctx and self.ctx[n] is not None:
                self.entry[i] = bool(self.ctx[n])
        self.state_in = [None] * len(fn.blocks)
        self.edge_feasible = set()
        self._run()

    # -- evaluation ------------------------------------------------------
    @staticmethod
    def _op(op, st):
        k = op_const(op)
        if k is not None:
            if k.get("ty") == "bool" and "v" in k:
                return k["v"] != "0"
            return None
        pl = op_place(op)
        if pl is None or "p" in pl:
            return None
        return st.get(pl["l"])

    def _rv(self, rv, st):
        if "use" in rv:
            return self._op(rv["use"], st)
        if "un" in rv and rv["un"] == "Not":
            a = self._op(rv["a"], st)
            return None if a is None else (not a)
        if "bin" in rv:
            op = rv["bin"]
            if op in ("Eq", "Ne", "BitAnd", "BitOr", "BitXor"):
                a = self._op(rv["a"], st)
                b = self._op(rv["b"], st)
                if op == "BitAnd":
                    if a is False or b is False:
                        return False
                    if a is True and b is True:
                        return True
                    return None
                if op == "BitOr":
                    if a is True or b is True:
                        return True
                    if a is False and b is False:
                        return False
                    return None
                if a is None or b is None:
                    return None
                if op == "Eq":
                    return a == b
                return a != b
        return None

    def _is_bool_local(self, l):
        return self.fn.locals[l]["t"] == "bool"

    def _transfer(self, bi, st):
        st = dict(st)
        bb = self.fn.blocks[bi]
        for s in bb["s"]:
            if s["k"] == "=" and "p" not in s["p"]:
                l = s["p"]["l"]
                if self._is_bool_local(l):
                    v = self._rv(s["rv"], st)
                    if v is None:
                        st.pop(l, None)
                    else:
                        st[l] = v
        return st

    def _refine(self, bi, local, val, st):
        """Learn `local == val` on an edge out of block bi, and push the fact back
        through copies / negations made inside the block."""
        st[local] = val
        bb = self.fn.blocks[bi]
        cur, v = local, val
        for s in reversed(bb["s"]):
            if s["k"] == "=" and "p" not in s["p"] and s["p"]["l"] == cur:
                rv = s["rv"]
                if "use" in rv:
                    pl = op_place(rv["use"])
                    if pl and "p" not in pl and self._is_bool_local(pl["l"]):
                        cur = pl["l"]
                        st[cur] = v
                        continue
                if rv.get("un") == "Not":
                    pl = op_place(rv["a"])
                    if pl and "p" not in pl and self._is_bool_local(pl["l"]):
                        cur = pl["l"]
                        v = not v
                        st[cur] = v
                        continue
                break
        return st

    def _run(self):
        fn = self.fn
        self.state_in[0] = dict(self.entry)
        work = [0]
        succ = fn.succ()
        while work:
            bi = work.pop()
            st_in = self.state_in[bi]
            st = self._transfer(bi, st_in)
            t = fn.blocks[bi]["t"]
            outs = []
            if t["k"] == "switch" and t.get("dt") == "bool":
                v = self._op(t["d"], st)
                pl = op_place(t["d"])
                tf = None
                for val, b in t["ts"]:
                    if val == "0":
                        tf = b
                tt = t["o"]
                if tf is None:
                    # switch lists value 1 explicitly
                    for val, b in t["ts"]:
                        if val == "1":
                            tt = b
                    tf = t["o"]
                for target, tv in ((tt, True), (tf, False)):
                    if v is not None and v != tv:
                        continue
                    s2 = dict(st)
                    if pl is not None and "p" not in pl:
                        s2 = self._refine(bi, pl["l"], tv, s2)
                    outs.append((target, s2))
            elif t["k"] == "call":
                s2 = dict(st)
                d = t["d"]
                if "p" not in d:
                    s2.pop(d["l"], None)
                if t["t"] is not None:
                    outs.append((t["t"], s2))
            else:
                for s in succ[bi]:
                    outs.append((s, dict(st)))
            for target, s2 in outs:
                self.edge_feasible.add((bi, target))
                old = self.state_in[target]
                if old is None:
                    self.state_in[target] = s2
                    work.append(target)
                else:
                    new = {k: v for k, v in old.items() if s2.get(k) == v}
                    if new != old:
                        self.state_in[target] = new
                        work.append(target)

    # -- queries ----------------------------------------------------------
    def reachable(self):
        return {i for i, s in enumerate(self.state_in) if s is not None}

    def state_before_terminator(self, bi):
        return self._transfer(bi, self.state_in[bi])

    def bool_operand(self, op, bi):
        if self.state_in[bi] is None:
            return None
        return self._op(op, self.state_before_terminator(bi))

    def local_value_at_end(self, local, bi):
        if self.state_in[bi] is None:
            return None
        return self.state_before_terminator(bi).get(local)


def flow(fn, ctx):
    key = ("flow", tuple(sorted((k, v) for k, v in ctx.items() if v is not None)))
    if key not in fn._cache:
        fn._cache[key] = BoolFlow(fn, ctx)
    return fn._cache[key]


def call_events(facts, fn, ctx, is_target, depth=6, _memo=None, _stack=()):
    """Set of (target path, bool-arg valuation tuple) reachable from fn under ctx.
    valuation: per argument True/False/None ('?' unknown) for bool-typed operands, '-' otherwise.
    Non-target local callees are entered with the context induced by the known bool args."""
    if _memo is None:
        _memo = {}
    key = (fn.path, tuple(sorted((k, v) for k, v in ctx.items() if v is not None)))
    if key in _memo:
        return _memo[key]
    if fn.path in _stack or depth < 0:
        return set()
    _memo[key] = set()
    fl = flow(fn, ctx)
    out = set()
    for bi in sorted(fl.reachable()):
        bb = fn.blocks[bi]
        if bb["c"]:
            continue
        # closures constructed here: entered with unknown context
        for s in bb["s"]:
            if s["k"] == "=":
                agg = s["rv"].get("agg")
                if agg and agg["k"] == "closure":
                    g = facts.fn(agg["def"])
                    if g is not None:
                        out |= call_events(facts, g, {}, is_target, depth - 1, _memo, _stack + (fn.path,))
        t = bb["t"]
        if t["k"] != "call":
            continue
        p = callee_path(t)
        if p is None:
            continue
        vals = []
        for a in t["a"]:
            k = op_const(a)
            pl = op_place(a)
            is_bool = False
            if k is not None:
                is_bool = k.get("ty") == "bool"
            elif pl is not None and "p" not in pl:
                is_bool = fn.locals[pl["l"]]["t"] == "bool"
            if is_bool:
                v = fl.bool_operand(a, bi)
                vals.append(v if v is not None else "?")
            else:
                vals.append("-")
        if is_target(p):
            out.add((p, tuple(vals)))
            continue
        g = facts.fn(p)
        if g is None or g.kind == "const":
            continue
        gctx = {}
        for i, v in enumerate(vals):
            if v in (True, False) and i < g.argc:
                n = g.locals[i + 1].get("n")
                if n:
                    gctx[n] = v
        out |= call_events(facts, g, gctx, is_target, depth - 1, _memo, _stack + (fn.path,))
    _memo[key] = out
    return out


def contexts(names):
    """All 2^n assignments for the given boolean parameter names."""
    out = [{}]
    for n in names:
        out = [dict(c, **{n: v}) for c in out for v in (False, True)]
    return out


class EdgeFlow:
    """A flow-like object (state_in / edge_feasible) for a CFG with some edges removed:
    used to specialise provenance to `assumed` outcomes of chosen branch atoms."""

    def __init__(self, fn, cut_edges, base=None):
        self.fn = fn
        succ = fn.succ()
        self.edge_feasible = set()
        allowed = base.edge_feasible if base is not None else None
        seen = set()
        work = [0]
        while work:
            b = work.pop()
            if b in seen:
                continue
            seen.add(b)
            for s in succ[b]:
                if (b, s) in cut_edges:
                    continue
                if allowed is not None and (b, s) not in allowed:
                    continue
                self.edge_feasible.add((b, s))
                work.append(s)
        self.state_in = [({} if i in seen else None) for i in range(len(fn.blocks))]

    def reachable(self):
        return {i for i, s in enumerate(self.state_in) if s is not None}


def assume(fn, assumptions, ctx=None):
    """EdgeFlow where each (atom, truth) is assumed: the opposite edge of the atom is removed."""
    cut = set()
    # the same test evaluated at several places (a helper inlined twice, a condition repeated per token side) is assumed alike
    # everywhere: equal condition terms over the same values have equal outcomes
    from .atoms import atoms as _atoms, NEG as _NEG
    extra = []
    try:
        all_ats = _atoms(fn)
    except Exception:
        all_ats = []
    for at, truth in assumptions:
        key = at.cond() or ("term", at.term)
        for other in all_ats:
            if other is at or other.block == at.block:
                continue
            ok_ = other.cond() or ("term", other.term)
            if ok_ == key:
                extra.append((other, truth))
            elif at.cond() and other.cond() and other.cond()[1:] == at.cond()[1:] and _NEG.get(other.cond()[0]) == at.cond()[0]:
                extra.append((other, not truth))
    for at, truth in list(assumptions) + extra:
        drop = at.false_targets if truth else at.true_targets
        keep = at.true_targets if truth else at.false_targets
        for d in drop:
            if d not in keep:
                cut.add((at.block, d))
    base = flow(fn, ctx) if ctx else None
    return EdgeFlow(fn, cut, base)
