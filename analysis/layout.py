"""E7: layouts. Borsh wire offsets of Anchor account types from declaration order and
field types; flattening of nested structs; comparison helpers."""
import re
from .ir import AnchorMissing

PRIM = {"u8": 1, "i8": 1, "bool": 1, "u16": 2, "i16": 2, "u32": 4, "i32": 4, "u64": 8, "i64": 8, "u128": 16, "i128": 16}
PUBKEYS = ("anchor_lang::prelude::Pubkey", "solana_program::pubkey::Pubkey", "pinocchio::pubkey::Pubkey", "[u8; 32]")


def borsh_size(facts, ty):
    ty = ty.strip()
    if ty in PRIM:
        return PRIM[ty]
    if ty.endswith("::Pubkey") or ty == "Pubkey":
        return 32
    m = re.match(r"^\[(.*); (\d+)\]$", ty)
    if m:
        return borsh_size(facts, m.group(1)) * int(m.group(2))
    m = re.match(r"^\[(.*); ([A-Za-z_][A-Za-z_0-9:]*)\]$", ty)
    if m:
        name = m.group(2)
        vals = {facts.const_value(p) for p in facts.consts if p == name or p.endswith("::" + name)}
        vals.discard(None)
        if len(vals) != 1:
            raise AnchorMissing("array length constant %s is ambiguous or unknown: %s" % (name, vals))
        return borsh_size(facts, m.group(1)) * vals.pop()
    adt = facts.adts.get(ty)
    if adt is not None and adt["kind"] == "struct":
        return sum(borsh_size(facts, f["ty"]) for f in adt["variants"][0]["fields"])
    if adt is not None and adt.get("transparent"):
        return borsh_size(facts, adt["variants"][0]["fields"][0]["ty"])
    raise AnchorMissing("cannot size type %s for Borsh" % ty)


def borsh_fields(facts, adt_path, base=0):
    """[(name, offset, size, type)] in declaration order (fixed-size Borsh)."""
    adt = facts.need_adt(adt_path)
    out = []
    off = base
    for f in adt["variants"][0]["fields"]:
        sz = borsh_size(facts, f["ty"])
        out.append((f["name"], off, sz, f["ty"]))
        off += sz
    return out, off


def reprc_fields(facts, adt_path):
    adt = facts.need_adt(adt_path)
    if "offsets" not in adt:
        raise AnchorMissing("no layout for %s" % adt_path)
    out = []
    for f, o, s in zip(adt["variants"][0]["fields"], adt["offsets"], adt["fsizes"]):
        out.append((f["name"], o, s, f["ty"]))
    return out, adt["size"]


def int_kind(ty):
    """('u', 16) for u128 etc, ('bytes', n) for [u8; n] / pubkeys, None otherwise."""
    ty = ty.strip()
    if ty in PRIM and ty != "bool":
        return (ty[0], PRIM[ty])
    if ty == "bool":
        return ("bool", 1)
    return None
