"""E2: value provenance. Resolves MIR operands backwards to symbolic terms.

Terms (nested tuples):
  ('param', name)                  function parameter
  ('const', value|None, path|None, ty)
  ('fn', path)                     function item used as a value
  ('field', base, name)
  ('index', base, idx_term)
  ('q', x)                         payload of x on its success variant (?, unwrap, Some(v) pattern)
  ('payload', x, variant)          payload of another variant
  ('call', path, (args...))
  ('bin', op, a, b) ('un', op, a) ('cast', a, ty)
  ('agg', adt, variant, ((field, term)...))  ('tuple', (terms...))  ('array', (terms...))
  ('discr', x) ('len', x) ('repeat', x, n)
  ('phi', frozenset(terms))
  ('closure', def, (captures...))
  ('unknown', why) ('rec',) ('uninit',)
PROV never computes a number; it answers "where does this operand come from".
"""
from .ir import op_place, op_const, callee_path, const_int

# wrappers looked through (single-argument identity-like calls)
TRANSPARENT_LAST = {
    "deref", "deref_mut", "as_ref", "as_mut", "borrow", "borrow_mut", "clone", "into",
    "to_owned", "to_account_info", "as_slice", "as_mut_slice", "from", "as_deref",
    "as_deref_mut", "into_inner", "by_ref", "iter", "iter_mut", "into_iter", "to_vec", "as_ptr",
    "as_mut_ptr", "cast", "to_bytes", "as_bytes", "try_into", "try_from", "unbox",
}
UNWRAP_LAST = {"unwrap", "expect", "unwrap_unchecked"}
import re as _re
_INT_TY = _re.compile(r"^[ui](8|16|32|64|128|size)$")
_INT_FROM = _re.compile(r"^<([ui](?:8|16|32|64|128|size)) as (?:std|core)::convert::From<[ui](?:8|16|32|64|128|size)>>::from$")
OK_VARIANTS = {"Ok", "Some", "Continue"}


class Prov:
    def __init__(self, fn, flow=None, cut=False):
        self.fn = fn
        self.flow = flow  # optional BoolFlow: restrict reaching definitions to feasible edges of a context
        self.cut = cut    # named locals assigned more than once become ('var', name, local) leaves
        self._size_memo = {}
        self.defs = {}
        self._site_term = {}
        self._in_progress = set()
        self._collect_defs()

    # ------------------------------------------------------------------
    def _collect_defs(self):
        fn = self.fn
        for bi, bb in enumerate(fn.blocks):
            for si, st in enumerate(bb["s"]):
                if st["k"] == "=":
                    p = st["p"]
                    self.defs.setdefault(p["l"], []).append((bi, si, p.get("p"), st))
                elif st["k"] == "setdiscr":
                    p = st["p"]
                    self.defs.setdefault(p["l"], []).append((bi, si, (p.get("p") or []) + ["<discr>"], st))
            t = bb["t"]
            if t["k"] == "call":
                p = t["d"]
                self.defs.setdefault(p["l"], []).append((bi, len(bb["s"]), p.get("p"), t))

    def _defs_in_block(self, local, bi):
        return [d for d in self.defs.get(local, []) if d[0] == bi]

    def reaching(self, local, bi, si):
        """Definition sites of `local` that reach position (bi, si) (si = index of the
        using statement; len(stmts) = the terminator). Returns (whole_defs, partial_defs,
        reaches_entry)."""
        fn = self.fn
        defs = self.defs.get(local, [])
        by_block = {}
        for d in defs:
            by_block.setdefault(d[0], []).append(d)
        whole, partial = [], []
        reaches_entry = False
        # scan current block backwards from si-1
        def scan(block, upto):
            # returns True if a whole def was found (stop)
            ds = [d for d in by_block.get(block, []) if d[1] < upto]
            for d in sorted(ds, key=lambda d: -d[1]):
                if d[2] is None:
                    whole.append(d)
                    return True
                partial.append(d)
            return False
        if scan(bi, si):
            return whole, partial, False
        seen = set()
        work = []
        pred = fn.pred()
        if bi == 0:
            reaches_entry = True
        feas = self.flow.edge_feasible if self.flow is not None else None
        for p in pred[bi]:
            if feas is None or (p, bi) in feas:
                work.append(p)
        while work:
            b = work.pop()
            if b in seen:
                continue
            seen.add(b)
            if scan(b, 1 << 30):
                continue
            if b == 0:
                reaches_entry = True
            for p in pred[b]:
                if p not in seen and (feas is None or (p, b) in feas):
                    work.append(p)
        return whole, partial, reaches_entry

    # ------------------------------------------------------------------
    def operand(self, op, bi, si, depth=0):
        k = op_const(op)
        if k is not None:
            return self._const(k)
        pl = op_place(op)
        if pl is None:
            return ("unknown", "operand")
        return self.place(pl, bi, si, depth)

    def _const(self, k):
        if "fn" in k:
            return ("fn", k["fn"])
        if "promoted" in k and k["promoted"] < len(self.fn.promoted):
            pf = self.fn.promoted_fn(k["promoted"])
            pp = prov_of(pf)
            for bi, bb in enumerate(pf.blocks):
                if bb["t"]["k"] == "ret":
                    return pp.local(0, bi, len(bb["s"]))
        v = const_int(k)
        if v is None and "str" in k:
            v = k["str"]
        elif v is None and "bytes" in k:
            v = "0x" + k["bytes"]
        elif v is None and "ptr_bytes" in k:
            try:
                v = bytes.fromhex(k["ptr_bytes"]).decode("ascii")
            except (UnicodeDecodeError, ValueError):
                v = "0x" + k["ptr_bytes"]
        path = k.get("c")
        if path and k.get("ga"):
            path = "%s<%s>" % (path, k["ga"])
        return ("const", v, path, k.get("ty"))

    def place(self, pl, bi, si, depth=0):
        base = self.local(pl["l"], bi, si, pl.get("p"), depth)
        return base

    def local(self, local, bi, si, proj=None, depth=0):
        """Term of `local` (with optional projection applied) as seen at (bi, si)."""
        if depth > 60:
            return ("unknown", "deep")
        fn = self.fn
        proj = proj or []
        if self.cut and local > fn.argc and fn.locals[local].get("n"):
            nwhole = [d for d in self.defs.get(local, []) if d[2] is None]
            if self.flow is not None and len(nwhole) > 1:
                # definitions in blocks the assumption rules out do not make the local a multi-definition variable
                nwhole = [d for d in nwhole if self.flow.state_in[d[0]] is not None]
            if self.cut == "loop" and len(nwhole) > 1 and not any(d[0] in self.cycle_blocks() for d in nwhole):
                nwhole = nwhole[:1]     # re-assigned outside every loop: its reaching definitions are finite alternatives
            if len(nwhole) > 1 or (self.cut == "all" and nwhole and fn.locals[local]["n"] not in ("val", "residual", "e", "v", "iter", "__next")):
                return self._apply_proj(("var", fn.locals[local]["n"], local), proj, bi, si, depth)
        whole, partial, entry = self.reaching(local, bi, si)
        # exact / prefix partial defs that cover the requested projection
        terms = []
        cover = False
        if proj:
            pkey = _proj_key(proj)
            for d in partial:
                dkey = _proj_key(d[2])
                if dkey and pkey[: len(dkey)] == dkey:
                    t = self._site(d, depth + 1)
                    t = self._apply_proj(t, proj[len(d[2]):], bi, si, depth)
                    terms.append(t)
        for d in whole:
            t = self._site(d, depth + 1)
            terms.append(self._apply_proj(t, proj, bi, si, depth))
        if entry:
            if 1 <= local <= fn.argc:
                name = fn.locals[local].get("n") or ("arg%d" % local)
                terms.append(self._apply_proj(("param", name), proj, bi, si, depth))
            elif not whole and not terms:
                terms.append(("uninit",))
        if not terms:
            # partial-only initialisation (struct built field by field) or no def at all
            if partial:
                t = ("partial", local)
                return self._apply_proj(t, proj, bi, si, depth)
            return ("uninit",)
        uniq = []
        for t in terms:
            if t not in uniq:
                uniq.append(t)
        if len(uniq) == 1:
            return uniq[0]
        return ("phi", frozenset(uniq))

    def cycle_blocks(self):
        """Blocks that lie on a cycle of the (normal-edge) control flow graph."""
        if getattr(self, "_cyc", None) is None:
            from . import cfg
            succ = self.fn.succ()
            self._cyc = {b for b in range(len(self.fn.blocks)) if any(b in cfg.reach(self.fn, s_) for s_ in succ[b])}
        return self._cyc

    def var_defs(self, local):
        """Terms assigned to a cut variable, one per (feasible) definition site: [(block, line, term)]."""
        out = []
        for d in self.defs.get(local, []):
            if d[2] is not None:
                continue
            if self.flow is not None and self.flow.state_in[d[0]] is None:
                continue
            node = d[3]
            out.append((d[0], node.get("l"), self._site(d, 0)))
        return out

    def var_by_name(self, name):
        for l in range(self.fn.argc + 1, len(self.fn.locals)):
            if self.fn.locals[l].get("n") == name and len([d for d in self.defs.get(l, []) if d[2] is None]) > (0 if self.cut == "all" else 1):
                return l
        return None

    def _site(self, d, depth):
        key = (d[0], d[1])
        if key in self._site_term:
            return self._site_term[key]
        if key in self._in_progress:
            return ("rec",)
        self._in_progress.add(key)
        try:
            bi, si, _, node = d
            if node["k"] == "call":
                t = self._call_term(node, bi, si, depth)
            elif node["k"] == "setdiscr":
                t = ("setdiscr", node["v"])
            else:
                t = self._rvalue(node["rv"], bi, si, depth)
        finally:
            self._in_progress.discard(key)
        # a value whose term has grown beyond any rule's reach (a chain of conditional updates outside a cut variable doubles the
        # alternatives at every link) is cut off here, so that the analysis stays linear in the size of the function
        if _term_size(t, self._size_memo) > TERM_SIZE_LIMIT:
            t = ("unknown", "big")
        if not _contains_rec(t):
            self._site_term[key] = t
        return t

    def _call_term(self, t, bi, si, depth):
        f = t["f"]
        if "p" not in f:
            callee = self.operand(f["ind"], bi, si, depth + 1)
            args = tuple(self.operand(a, bi, si, depth + 1) for a in t["a"])
            return ("call", "<indirect>", (callee,) + args)
        path = f["p"]
        raw = f.get("raw", path)
        last = raw.rsplit("::", 1)[-1]
        if last == "box_assume_init_into_vec_unsafe" and len(t["a"]) == 1:
            arr = self._vec_macro_array(t["a"][0], depth)
            if arr is not None:
                return arr
        args = tuple(self.operand(a, bi, si, depth + 1) for a in t["a"])
        if last in ("from", "into") and len(args) == 1:
            # `u128::from(x)` / `x.into()` between integer types is the widening cast `x as u128`
            m_ = _INT_FROM.match(path) or _INT_FROM.match(f.get("ga") and ("<%s>" % f["ga"]) or "")
            if m_ is None and f.get("ga"):
                ga = [g.strip() for g in f["ga"].split(",")]
                ints = [g for g in ga if _INT_TY.match(g)]
                if len(ga) == 2 and len(ints) == 2:
                    m_ = (ga[0] if last == "from" else ga[1],)
            if m_ is not None:
                return ("cast", args[0], m_.group(1) if hasattr(m_, "group") else m_[0])
        if last in TRANSPARENT_LAST and len(args) == 1:
            return args[0]
        # std spellings of a comparison / identities: x.is_positive() is x > 0; x.wrapping_add(0) is x
        if len(args) == 1 and path.startswith(("core::num::", "std::num::")) and last in ("is_positive", "is_negative"):
            return ("bin", "Gt" if last == "is_positive" else "Lt", args[0], ("const", 0, None, None))
        if len(args) == 2 and path.startswith(("core::num::", "std::num::")) and last in ("wrapping_add", "saturating_add") \
                and args[1][0] == "const" and args[1][1] == 0 and not isinstance(args[1][1], bool):
            return args[0]
        # `x.and_then(|v| body)` is body with v := the payload of x (None / Err of x stays the failure of the whole chain)
        if last == "and_then" and len(args) == 2 and args[1][0] == "closure" and path.split("::<")[0].endswith(("option::Option", "result::Result")):
            r = self._beta(args[1], [("q", args[0])])
            if r is not None:
                return r
        if last in UNWRAP_LAST and len(args) >= 1:
            return ("q", args[0])
        if last == "branch" and len(args) == 1:
            return ("trybranch", args[0])
        if last == "key" and len(args) == 1:
            return ("call", "key", args)
        if last in ("size_of", "align_of") and f.get("ga"):
            return ("call", "%s<%s>" % (path, f["ga"]), args)
        # calls that receive a `&mut` borrow are not pure: keep their site identity
        for a in t["a"]:
            pl = op_place(a)
            if pl is not None and "p" not in pl:
                for d in self.defs.get(pl["l"], []):
                    node = d[3]
                    if node["k"] == "=" and (node["rv"].get("ref") is not None and node["rv"].get("m")):
                        return ("call", path, args, bi)
        return ("call", path, args)

    def _beta(self, closure, args):
        """The value a (single-return, local) closure yields for `args`: its return term with the parameters replaced by the
        argument terms and the captured environment by the captured terms; None when that is not a plain substitution."""
        facts = self.fn.facts
        cf = facts.fns.get(closure[1]) if facts is not None else None
        if cf is None or cf.argc != 1 + len(args):
            return None
        rets = [bi for bi, bb in enumerate(cf.blocks) if bb["t"]["k"] == "ret"]
        if len(rets) != 1 or len(cf.blocks) > 12:
            return None
        body = prov_of(cf).local(0, rets[0], len(cf.blocks[rets[0]]["s"]))
        names = [(cf.locals[i].get("n") or ("arg%d" % i)) for i in range(1, cf.argc + 1)]
        env, params = names[0], names[1:]
        caps = closure[2]
        bad = []

        def sub(t):
            if not isinstance(t, tuple) or not t:
                return t
            if isinstance(t[0], str):
                if t[0] == "field" and t[1] == ("param", env) and str(t[2]).isdigit():
                    k = int(t[2])
                    if k < len(caps):
                        return caps[k]
                    bad.append(t)
                    return t
                if t[0] == "param":
                    if t[1] in params:
                        return args[params.index(t[1])]
                    bad.append(t)
                    return t
                if t[0] == "phi":
                    return ("phi", frozenset(sub(x) for x in t[1]))
                return tuple([t[0]] + [sub(x) if isinstance(x, (tuple, frozenset)) else x for x in t[1:]])
            return tuple(sub(x) if isinstance(x, (tuple, frozenset)) else x for x in t)
        out = sub(body)
        return None if bad else out

    def _vec_macro_array(self, op, depth):
        """`vec![a, b, c]` lowers to Box::new_uninit(); (*ptr).value.. = [a, b, c]; box_assume_init_into_vec_unsafe(box).
        Return the array term stored through the box's pointer."""
        pl = op_place(op)
        if pl is None or "p" in pl:
            return None
        box = pl["l"]
        for _ in range(4):  # follow plain moves back to the new_uninit destination
            ds = [d for d in self.defs.get(box, []) if d[2] is None]
            if len(ds) == 1 and ds[0][3]["k"] == "=" and "use" in ds[0][3]["rv"]:
                src = op_place(ds[0][3]["rv"]["use"])
                if src is not None and "p" not in src:
                    box = src["l"]
                    continue
            break
        for local, ds in self.defs.items():
            for d in ds:
                node = d[3]
                if node["k"] != "=" or not d[2] or d[2][0] != "*":
                    continue
                if "agg" not in node["rv"] or node["rv"]["agg"]["k"] != "array":
                    continue
                # the pointer local must be derived from the box local
                for pd in self.defs.get(local, []):
                    n2 = pd[3]
                    if pd[2] is None and n2["k"] == "=" and "cast" in n2["rv"]:
                        sp = op_place(n2["rv"]["a"])
                        if sp is not None and sp["l"] == box:
                            return self._rvalue(node["rv"], d[0], d[1], depth + 1)
        return None

    def _rvalue(self, rv, bi, si, depth):
        if "use" in rv:
            return self.operand(rv["use"], bi, si, depth + 1)
        if "ref" in rv:
            return self.place(rv["ref"], bi, si, depth + 1)
        if "raw" in rv:
            return self.place(rv["raw"], bi, si, depth + 1)
        if "bin" in rv:
            a_, b_ = self.operand(rv["a"], bi, si, depth + 1), self.operand(rv["b"], bi, si, depth + 1)
            if rv["bin"] in ("Add", "Sub", "AddUnchecked", "SubUnchecked") and b_[0] == "const" and b_[1] == 0 and not isinstance(b_[1], bool):
                return a_       # x + 0, x - 0
            return ("bin", rv["bin"], a_, b_)
        if "un" in rv:
            a = self.operand(rv["a"], bi, si, depth + 1)
            if rv["un"] == "PtrMetadata":
                return ("len", a)
            return ("un", rv["un"], a)
        if "cast" in rv:
            a = self.operand(rv["a"], bi, si, depth + 1)
            if rv["cast"] in ("coerce", "ptr", "transmute", "fnptr"):
                return a
            return ("cast", a, rv["ty"])
        if "discr" in rv:
            return ("discr", self.place(rv["discr"], bi, si, depth + 1))
        if "agg" in rv:
            agg = rv["agg"]
            ops = tuple(self.operand(o, bi, si, depth + 1) for o in rv["ops"])
            if agg["k"] == "adt":
                names = agg["fields"]
                return ("agg", agg["adt"], agg["v"], tuple(zip(names, ops)))
            if agg["k"] == "tuple":
                return ("tuple", ops)
            if agg["k"] == "array":
                return ("array", ops)
            if agg["k"] == "closure":
                return ("closure", agg["def"], ops)
            return ("unknown", "agg")
        if "rep" in rv:
            return ("repeat", self.operand(rv["rep"], bi, si, depth + 1), rv.get("n"))
        return ("unknown", "rvalue")

    def _apply_proj(self, t, proj, bi, si, depth):
        for e in proj:
            t = self._proj1(t, e, bi, si, depth)
        return t

    def _proj1(self, t, e, bi, si, depth):
        if e == "*" or e in ("opaque", "unbind"):
            return t
        if t[0] == "phi":
            parts = [self._proj1(x, e, bi, si, depth) for x in t[1]]
            uniq = []
            for x in parts:
                if x not in uniq:
                    uniq.append(x)
            return uniq[0] if len(uniq) == 1 else ("phi", frozenset(uniq))
        if isinstance(e, dict):
            if "f" in e:
                name = e["f"]
                if e.get("a") in ("std::boxed::Box", "std::ptr::Unique", "std::ptr::NonNull", "std::mem::MaybeDangling",
                                  "std::mem::ManuallyDrop"):
                    return t
                if t[0] == "agg":
                    for fname, ft in t[3]:
                        if fname == name:
                            return ft
                if t[0] == "tuple":
                    try:
                        return t[1][int(name)]
                    except (ValueError, IndexError):
                        pass
                if t[0] == "bin" and t[1].endswith("WithOverflow"):
                    if name == "0":
                        if t[1] in ("AddWithOverflow", "SubWithOverflow") and t[3][0] == "const" and t[3][1] == 0 and not isinstance(t[3][1], bool):
                            return t[2]
                        return ("bin", t[1][: -len("WithOverflow")], t[2], t[3])
                    return ("overflowflag", t)
                if t[0] == "variant":
                    base, var = t[1], t[2]
                    if base[0] == "agg" and base[2] == var:
                        for fname, ft in base[3]:
                            if fname == name:
                                return ft
                    if base[0] == "trybranch":
                        if var == "Continue":
                            return ("q", base[1])
                        return ("payload", base[1], "Err")
                    if var == "Some" and name == "0" and base[0] == "call" and _UNSIGNED_CHECKED_SUB.match(base[1]) and len(base[2]) == 2:
                        # `match a.checked_sub(b) { Some(d) => d, None => .. }`: on the Some side d is a - b
                        return ("bin", "Sub", base[2][0], base[2][1])
                    if var in OK_VARIANTS and name == "0":
                        return ("q", base)
                    if name == "0":
                        return ("payload", base, var)
                    return ("field", ("payload", base, var), name)
                if name == "1":
                    # `for (i, x) in xs.iter().enumerate()`: the element half of the pair is xs[i] (i = the index half)
                    base = _enumerated(t)
                    if base is not None:
                        return ("index", base, ("field", t, "0"))
                if name in ("0", "1"):
                    # `for (a, b) in xs.iter_mut().zip(ys.iter())`: the halves are xs[k] and ys[k] of one running position k
                    zb = _zipped(t)
                    if zb is not None:
                        return ("index", zb[int(name)], ("call", "core::iter::Zip::position", ()))
                    # `for ((a, b), c) in xs.iter_mut().zip(ys.iter()).zip(zs.iter())`: the inner pair's halves run at the same position
                    if t[0] == "index" and t[1][0] == "call" and t[1][1].rsplit("::", 1)[-1] == "zip" and len(t[1][2]) == 2:
                        y = t[1][2][int(name)]
                        while y[0] == "call" and y[1].rsplit("::", 1)[-1] in ("iter", "iter_mut", "into_iter", "by_ref") and len(y[2]) == 1:
                            y = y[2][0]
                        return ("index", y, t[2])
                return ("field", t, name)
            if "dc" in e:
                if t[0] == "agg" and t[2] == e["dc"]:
                    return ("variant", t, e["dc"])
                return ("variant", t, e["dc"])
            if "ix" in e:
                idx = self.local(e["ix"], bi, si, None, depth + 1)
                if t[0] == "array" and idx[0] == "const" and isinstance(idx[1], int) and 0 <= idx[1] < len(t[1]):
                    return t[1][idx[1]]
                return ("index", t, idx)
            if "ci" in e:
                if t[0] == "array" and not e.get("fe") and e["ci"] < len(t[1]):
                    return t[1][e["ci"]]
                return ("index", t, ("const", e["ci"], None, "usize"))
            if "ss" in e:
                return ("subslice", t, tuple(e["ss"]))
        return ("unknown", "proj")


import re as _re
_UNSIGNED_CHECKED_SUB = _re.compile(r"^core::num::<impl u(8|16|32|64|128|size)>::checked_sub$")


TERM_SIZE_LIMIT = 60000


def _term_size(t, memo, _depth=0):
    """Number of nodes of a term as a tree (sub-terms shared by identity are measured once and their size reused)."""
    if not isinstance(t, (tuple, frozenset)):
        return 1
    k = id(t)
    if k in memo:
        return memo[k][0]
    n = 1
    for x in t:
        if isinstance(x, (tuple, frozenset)):
            n += _term_size(x, memo, _depth + 1)
            if n > TERM_SIZE_LIMIT * 4:
                break
    memo[k] = (n, t)      # keep the term alive so that its id stays unique
    return n


def _proj_key(proj):
    out = []
    for e in proj or []:
        if e == "*":
            continue
        if isinstance(e, dict):
            if "f" in e:
                out.append(("f", e["f"]))
            elif "dc" in e:
                out.append(("dc", e["dc"]))
            elif "ix" in e:
                out.append(("ix",))
            elif "ci" in e:
                out.append(("ci", e["ci"]))
            else:
                out.append(("?",))
        else:
            out.append((str(e),))
    return tuple(out)


def _contains_rec(t):
    if not isinstance(t, tuple) or not t:
        return False
    if (t[0] == "rec" or (t[0] == "unknown" and len(t) > 1 and t[1] == "deep")):
        # depth-truncated terms depend on the depth at which the site was first asked for: never memoise them
        return True
    for x in (t[1:] if isinstance(t[0], str) else t):
        if isinstance(x, tuple):
            if _contains_rec(x):
                return True
        elif isinstance(x, frozenset):
            for y in x:
                if _contains_rec(y):
                    return True
    return False


def _enumerated(t):
    """X when t is `X.iter().enumerate().next()?` (through references / by_ref / into_iter), else None."""
    if t[0] != "q":
        return None
    c = t[1]
    if c[0] != "call" or c[1].rsplit("::", 1)[-1] != "next" or len(c[2]) != 1:
        return None
    x = c[2][0]
    enum = False
    while x[0] == "call" and x[1].rsplit("::", 1)[-1] in ("enumerate", "iter", "iter_mut", "into_iter", "by_ref") and len(x[2]) == 1:
        if x[1].rsplit("::", 1)[-1] == "enumerate":
            enum = True
        x = x[2][0]
    return x if enum else None


def _zipped(t):
    """(X, Y) when t is `X.iter..().zip(Y.iter..()).next()?`, else None."""
    if t[0] != "q":
        return None
    c = t[1]
    if c[0] != "call" or c[1].rsplit("::", 1)[-1] != "next" or len(c[2]) != 1:
        return None
    x = c[2][0]
    while x[0] == "call" and x[1].rsplit("::", 1)[-1] in ("by_ref", "into_iter") and len(x[2]) == 1:
        x = x[2][0]
    if not (x[0] == "call" and x[1].rsplit("::", 1)[-1] == "zip" and len(x[2]) == 2):
        return None
    out = []
    for y in x[2]:
        while y[0] == "call" and y[1].rsplit("::", 1)[-1] in ("iter", "iter_mut", "into_iter", "by_ref") and len(y[2]) == 1:
            y = y[2][0]
        out.append(y)
    return tuple(out)


def prov_assuming(fn, assumptions, ctx=None, cut=False):
    """Provenance specialised to assumed outcomes of branch atoms: [(atom, truth)]."""
    from .preach import assume
    return Prov(fn, assume(fn, assumptions, ctx), cut=cut)


def prov_of(fn, ctx=None, cut=False):
    """Provenance engine of fn; with ctx (dict of bool params) the reaching definitions are
    restricted to the edges feasible in that context; with cut=True re-assigned named
    variables are kept as ('var', name, local) leaves (loop-carried state stays readable)."""
    if ctx is None and not cut:
        if "prov" not in fn._cache:
            fn._cache["prov"] = Prov(fn)
        return fn._cache["prov"]
    from .preach import flow
    key = ("prov", cut, tuple(sorted((k, v) for k, v in (ctx or {}).items() if v is not None)))
    if key not in fn._cache:
        fn._cache[key] = Prov(fn, flow(fn, ctx) if ctx is not None else None, cut=cut)
    return fn._cache[key]


# ---------------------------------------------------------------------------
# printing / matching helpers

def short(path):
    """Shorten a def path to its last two segments (keeps impl type)."""
    if path.startswith("<"):
        return path
    parts = path.split("::")
    return "::".join(parts[-2:]) if len(parts) > 2 else path


def show(t, full=False):
    k = t[0]
    if k == "param":
        return t[1]
    if k == "var":
        return "$" + t[1]
    if k == "const":
        if t[2]:
            return t[2].split("<")[0].rsplit("::", 1)[-1] if not full else t[2]
        return repr(t[1]) if not isinstance(t[1], int) else str(t[1])
    if k == "fn":
        return "fn " + (t[1] if full else short(t[1]))
    if k == "field":
        return "%s.%s" % (show(t[1], full), t[2])
    if k == "index":
        return "%s[%s]" % (show(t[1], full), show(t[2], full))
    if k == "q":
        return "%s?" % show(t[1], full)
    if k == "payload":
        return "%s@%s" % (show(t[1], full), t[2])
    if k == "call":
        site = "#%d" % t[3] if len(t) > 3 else ""
        return "%s%s(%s)" % (t[1] if full else short(t[1]), site, ", ".join(show(a, full) for a in t[2]))
    if k == "bin":
        return "(%s %s %s)" % (show(t[2], full), t[1], show(t[3], full))
    if k == "un":
        return "%s(%s)" % (t[1], show(t[2], full))
    if k == "cast":
        return "(%s as %s)" % (show(t[1], full), t[2])
    if k == "agg":
        return "%s::%s{%s}" % (short(t[1]), t[2], ", ".join("%s: %s" % (n, show(x, full)) for n, x in t[3]))
    if k == "tuple":
        return "(%s)" % ", ".join(show(x, full) for x in t[1])
    if k == "array":
        return "[%s]" % ", ".join(show(x, full) for x in t[1])
    if k == "discr":
        return "discr(%s)" % show(t[1], full)
    if k == "len":
        return "len(%s)" % show(t[1], full)
    if k == "phi":
        return "phi{%s}" % " | ".join(sorted(show(x, full) for x in t[1]))
    if k == "variant":
        return "%s as %s" % (show(t[1], full), t[2])
    if k == "trybranch":
        return "branch(%s)" % show(t[1], full)
    if k == "closure":
        return "closure %s[%s]" % (short(t[1]), ", ".join(show(x, full) for x in t[2]))
    if k == "repeat":
        return "[%s; %s]" % (show(t[1], full), t[2])
    if k == "subslice":
        return "%s[%s..%s]" % (show(t[1], full), t[2][0], t[2][1])
    return "<%s>" % " ".join(str(x) for x in t)


def strip(t):
    """Remove casts and success-payload wrappers for loose matching."""
    while t[0] in ("cast", "q"):
        t = t[1]
    return t


def leaves(t):
    """All alternatives of a term with phis expanded at the top level."""
    if t[0] == "phi":
        out = []
        for x in t[1]:
            out.extend(leaves(x))
        return out
    return [t]


def subterms(t):
    yield t
    for x in t[1:]:
        if isinstance(x, tuple) and x and isinstance(x[0], str) and x[0] in _KINDS:
            yield from subterms(x)
        elif isinstance(x, tuple):
            for y in x:
                if isinstance(y, tuple) and y and isinstance(y[0], str) and y[0] in _KINDS:
                    yield from subterms(y)
                elif isinstance(y, tuple) and len(y) == 2 and isinstance(y[1], tuple):
                    yield from subterms(y[1])
        elif isinstance(x, frozenset):
            for y in x:
                yield from subterms(y)


_KINDS = {"var", "param", "const", "fn", "field", "index", "q", "payload", "call", "bin", "un", "cast",
          "agg", "tuple", "array", "discr", "len", "phi", "variant", "trybranch", "closure",
          "repeat", "subslice", "unknown", "rec", "uninit", "partial", "setdiscr", "overflowflag"}


def field_chain(t):
    """('field', ('field', ('param','ctx'),'accounts'),'pool') -> ['ctx','accounts','pool'] or None"""
    out = []
    while True:
        t = strip(t)
        if t[0] == "field":
            out.append(t[2])
            t = t[1]
        elif t[0] == "param":
            out.append(t[1])
            return list(reversed(out))
        else:
            return None


def mentions_call(t, suffix):
    for s in subterms(t):
        if s[0] == "call" and (s[1] == suffix or s[1].endswith("::" + suffix) or s[1].endswith(suffix)):
            return True
    return False
