"""Liveness self-test of the checker (thorough tier).

selftest/catalogue.json lists small seeded edits of the repository, each with the rule instance
that must report it (`expect`: a violation-key prefix), and benign edits (`expect: null`) that
must stay silent. For the property under test the entries are applied, one at a time, to a
scratch copy of /repo made at run time under the system temp directory (never inside /repo or
/verif), facts are re-extracted from the copy with the same driver, and the property's rules
are run on them in-process. A mutant no rule reports means a dead (vacuous) rule; a benign
edit that is reported means an over-eager one. Either makes the check exit 2 with
CHECKER-SELFTEST-FAILED: the checker is broken, nothing is said about the property, so no
VIOLATION line is printed. Nothing from the repository is executed."""
import fcntl
import json
import os
import random
import shutil
import subprocess
import tempfile
import time

from . import extract
from .ir import Facts

VERIF = os.path.dirname(os.path.dirname(os.path.abspath(__file__)))
CATALOGUE = os.path.join(VERIF, "selftest", "catalogue.json")
MAX_PER_RUN = int(os.environ.get("VERIF_SELFTEST_MAX", "14"))


def load():
    with open(CATALOGUE) as fh:
        return json.load(fh)["entries"]


def _sync(dst):
    os.makedirs(dst, exist_ok=True)
    subprocess.run(["rsync", "-a", "--delete", "--exclude", "/target", "--exclude", ".git", "--exclude", "node_modules",
                    extract.REPO.rstrip("/") + "/", dst.rstrip("/") + "/"], check=True)


def apply_entry(root, e):
    """Apply the edit(s) of a catalogue entry inside `root`; False when an anchor text is gone (stale entry)."""
    edits = e.get("edits") or [dict(file=e["file"], old=e["old"], new=e["new"])]
    for ed in edits:
        p = os.path.join(root, ed["file"])
        if not os.path.exists(p):
            return False
        with open(p) as fh:
            src = fh.read()
        if ed["old"] not in src:
            return False
        with open(p, "w") as fh:
            fh.write(src.replace(ed["old"], ed["new"], 1))
    return True


def run(prop, seed, run_rules, only=None):
    entries = [e for e in load() if prop in e["props"] and (only is None or e["id"] in only)]
    if not entries:
        return {"entries": 0, "failed": ["no catalogue entry for %s" % prop]}
    rnd = random.Random("%s-%s" % (prop, seed))
    # a seeded edit is owed by the property its expected key belongs to; listed under another property it is only run there as
    # a benign-or-reported probe when it is that property's own (an entry's `expect` names one rule instance of one property)
    mutants = [e for e in entries if e.get("expect") and (e["expect"].split("/")[0] == prop or (e["expect"] == "?" and e["props"][0] == prop))]
    benign = [e for e in entries if not e.get("expect")]
    if len(mutants) + len(benign) > MAX_PER_RUN and only is None:
        nb = min(len(benign), 3)
        chosen = rnd.sample(mutants, max(1, MAX_PER_RUN - nb)) + rnd.sample(benign, nb)
    else:
        chosen = mutants + benign
    base = os.path.join(tempfile.gettempdir(), "wpverif-selftest-%d" % os.getuid())
    os.makedirs(extract.CACHE, exist_ok=True)
    lock = open(os.path.join(extract.CACHE, "selftest.lock"), "w")
    fcntl.flock(lock, fcntl.LOCK_EX)
    res = {"entries": len(entries), "ran": 0, "killed": [], "silent_ok": [], "stale": [], "failed": [], "wall_s": 0}
    t0 = time.time()
    try:
        root = os.path.join(base, "repo")
        for e in chosen:
            _sync(root)
            if not apply_entry(root, e):
                res["stale"].append(e["id"])
                continue
            out = os.path.join(base, "facts")
            shutil.rmtree(out, ignore_errors=True)
            sdk = None
            try:
                facts = Facts(extract.program_facts(repo=root, scratch_out=out))
                import importlib
                from rules import crosschecks as _cx
                touches_sdk = any(ed_file.startswith("rust-sdk/") for ed_file in [x["file"] for x in (e.get("edits") or [e])])
                needs_sdk = getattr(importlib.import_module("rules.%s" % prop), "NEEDS_SDK", False) or prop in _cx.NEEDS_SDK
                if touches_sdk:
                    out2 = os.path.join(base, "facts-sdk")
                    shutil.rmtree(out2, ignore_errors=True)
                    sdk = Facts(extract.sdk_facts(repo=root, scratch_out=out2))
                elif needs_sdk:
                    sdk = Facts(extract.sdk_facts())     # the edit leaves the SDK alone: the unchanged tree's SDK facts
            except extract.AnalysisIncomplete as ex:
                res["failed"].append("%s: edited copy does not compile: %s" % (e["id"], str(ex)[-300:]))
                continue
            r = run_rules(prop, "quick", facts, sdk, "selftest:" + e["id"])
            keys = sorted({x.key for x in r.results if x.status != "pass"})
            res["ran"] += 1
            if e.get("expect"):
                if any(k.startswith(e["expect"]) for k in keys):
                    res["killed"].append(e["id"])
                elif keys:
                    res["failed"].append("%s: reported as %s, expected %s*" % (e["id"], keys[:3], e["expect"]))
                else:
                    res["failed"].append("%s: seeded edit not reported (dead rule %s)" % (e["id"], e["expect"]))
            else:
                if keys:
                    res["failed"].append("%s: benign edit reported as %s (over-eager rule)" % (e["id"], keys[:3]))
                else:
                    res["silent_ok"].append(e["id"])
        if res["ran"] == 0:
            res["failed"].append("every catalogue entry for %s is stale" % prop)
    finally:
        shutil.rmtree(base, ignore_errors=True)
        fcntl.flock(lock, fcntl.LOCK_UN)
        lock.close()
    res["wall_s"] = round(time.time() - t0, 1)
    return res
