"""E5: who-may-write. Field stores, whole-value stores, mutable borrows of fields,
ADT constructions and raw mutable views of account bytes."""
from .ir import callee_path, op_place


def _strip_ref(ty):
    ty = ty.strip()
    for pre in ("&mut ", "&", "*mut ", "*const "):
        while ty.startswith(pre):
            ty = ty[len(pre):].strip()
            if ty.startswith("'"):
                # lifetime
                sp = ty.find(" ")
                ty = ty[sp + 1:] if sp > 0 else ty
    return ty


def field_stores(facts):
    """Yield dict(fn, block, stmt, line, adt, field, kind, rv) for every store that
    projects through a named ADT field. kind: 'assign' (value stored into field or a
    sub-place of it), 'mutref' (&mut of the field or a sub-place is taken)."""
    cache = getattr(facts, "_field_stores", None)
    if cache is not None:
        return cache
    out = []
    for fn in facts.fn_list:
        if fn.kind == "const":
            continue
        for bi, bb in enumerate(fn.blocks):
            if bb["c"]:
                continue
            for si, st in enumerate(bb["s"]):
                if st["k"] != "=":
                    continue
                p = st["p"]
                if "p" in p:
                    chain = [e for e in p["p"] if isinstance(e, dict) and "f" in e and e.get("a")]
                    for depth, e in enumerate(chain):
                        out.append(dict(fn=fn, block=bi, stmt=si, line=st["l"], adt=e["a"], field=e["f"],
                                        kind="assign", last=(depth == len(chain) - 1), rv=st["rv"]))
                    if p["p"] == ["*"]:
                        ty = _strip_ref(fn.locals[p["l"]]["t"])
                        out.append(dict(fn=fn, block=bi, stmt=si, line=st["l"], adt=ty, field="*",
                                        kind="assign", last=True, rv=st["rv"]))
                rv = st["rv"]
                src = None
                if "ref" in rv and rv.get("m"):
                    src = rv["ref"]
                elif "raw" in rv and rv.get("m"):
                    src = rv["raw"]
                if src is not None and "p" in src:
                    chain = [e for e in src["p"] if isinstance(e, dict) and "f" in e and e.get("a")]
                    for depth, e in enumerate(chain):
                        out.append(dict(fn=fn, block=bi, stmt=si, line=st["l"], adt=e["a"], field=e["f"],
                                        kind="mutref", last=(depth == len(chain) - 1), rv=rv))
            t = bb["t"]
            if t["k"] == "call" and "p" in t["d"]:
                p = t["d"]
                chain = [e for e in p["p"] if isinstance(e, dict) and "f" in e and e.get("a")]
                for depth, e in enumerate(chain):
                    out.append(dict(fn=fn, block=bi, stmt=len(bb["s"]), line=t["l"], adt=e["a"], field=e["f"],
                                    kind="assign", last=(depth == len(chain) - 1), rv={"callres": t}))
    facts._field_stores = out
    return out


def deref_stores(fn, pv, self_adt=None):
    """Stores through a `&mut` local (`*r = v`), resolved with the given provenance (typically of one context) to the field the
    reference points at: `let r = if c { &mut self.a } else { &mut self.b }; *r = v` is a store to `a` under c and to `b` otherwise.
    Yields the same records as field_stores (kind 'assign')."""
    out = []
    for bi, bb in enumerate(fn.blocks):
        if bb["c"]:
            continue
        if pv.flow is not None and pv.flow.state_in[bi] is None:
            continue
        for si, st in enumerate(bb["s"]):
            if st["k"] != "=" or st["p"].get("p") != ["*"]:
                continue
            l = st["p"]["l"]
            if l <= fn.argc or not fn.locals[l]["t"].startswith("&mut"):
                continue
            t = pv.local(l, bi, si)
            targets = t[1] if t[0] == "phi" else [t]
            for x in targets:
                while x[0] in ("cast", "q"):
                    x = x[1]
                if x[0] == "field":
                    out.append(dict(fn=fn, block=bi, stmt=si, line=st["l"], adt=self_adt, field=x[2], kind="assign", last=True, rv=st["rv"], via="deref"))
    return out


def writers_of(facts, adt, field, kinds=("assign", "mutref")):
    return [w for w in field_stores(facts) if w["adt"] == adt and w["field"] == field and w["kind"] in kinds]


def whole_stores(facts, adt):
    return [w for w in field_stores(facts) if w["adt"] == adt and w["field"] == "*"]


def constructions(facts, adt):
    """Aggregate constructions of `adt`: list of dict(fn, block, stmt, line, variant, fields{name: operand})."""
    cache = getattr(facts, "_constructions", None)
    if cache is None:
        cache = {}
        for fn in facts.fn_list:
            if fn.kind == "const":
                continue
            for bi, bb in enumerate(fn.blocks):
                if bb["c"]:
                    continue
                for si, st in enumerate(bb["s"]):
                    if st["k"] != "=":
                        continue
                    agg = st["rv"].get("agg")
                    if agg and agg["k"] == "adt":
                        cache.setdefault(agg["adt"], []).append(dict(
                            fn=fn, block=bi, stmt=si, line=st["l"], variant=agg["v"],
                            fields=dict(zip(agg["fields"], st["rv"]["ops"]))))
        facts._constructions = cache
    return cache.get(adt, [])


RAW_VIEW_CALLEES = (
    "try_borrow_mut_data", "borrow_mut_data_unchecked", "try_borrow_mut_lamports",
    "from_bytes_mut", "try_from_bytes_mut", "as_mut_ptr", "data_ptr", "borrow_mut_lamports_unchecked",
    "load_mut", "load_init", "from_raw_parts_mut",
)


def raw_view_sites(facts):
    """Call sites that create a raw mutable view of account memory."""
    out = []
    for fn in facts.fn_list:
        if fn.kind == "const":
            continue
        for bi, t in fn.calls():
            p = callee_path(t) or ""
            raw = t["f"].get("raw", p)
            last = raw.rsplit("::", 1)[-1]
            if last in RAW_VIEW_CALLEES:
                out.append(dict(fn=fn, block=bi, line=t["l"], callee=p, raw=raw, ga=t["f"].get("ga", "")))
    return out
