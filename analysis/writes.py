"""E5: who-may-write. Field stores, whole-value stores, mutable borrows of fields,
ADT constructions and raw mutable views of account bytes."""
from .ir import callee_path, op_place


def _strip_ref(ty):
    ty = ty.strip()
    for pre in ("&mut ", "&", "*mut ", "*const "):
        while ty.startswith(pre):
            ty = ty[len(pre):].strip()
            if ty.startswith("'"):
                # lifetime
                sp = ty.find(" ")
                ty = ty[sp + 1:] if sp > 0 else ty
    return ty


def field_stores(facts):
    """Yield dict(fn, block, stmt, line, adt, field, kind, rv) for every store that
    projects through a named ADT field. kind: 'assign' (value stored into field or a
    sub-place of it), 'mutref' (&mut of the field or a sub-place is taken)."""
    cache = getattr(facts, "_field_stores", None)
    if cache is not None:
        return cache
    out = []
    for fn in facts.fn_list:
        if fn.kind == "const":
            continue
        for bi, bb in enumerate(fn.blocks):
            if bb["c"]:
                continue
            for si, st in enumerate(bb["s"]):
                if st["k"] != "=":
                    continue
                p = st["p"]
                if "p" in p:
                    chain = [e for e in p["p"] if isinstance(e, dict) and "f" in e and e.get("a")]
                    # root: "local" for a store into a local value of the function itself (`let mut c = ..; c.f = v`), "mem" for a
                    # store through a reference / into a parameter
                    root = "local" if (p["l"] > fn.argc and p["l"] != 0 and "*" not in p["p"]) else "mem"
                    for depth, e in enumerate(chain):
                        out.append(dict(fn=fn, block=bi, stmt=si, line=st["l"], adt=e["a"], field=e["f"],
                                        kind="assign", last=(depth == len(chain) - 1), rv=st["rv"], root=root))
                    if p["p"] == ["*"]:
                        ty = _strip_ref(fn.locals[p["l"]]["t"])
                        out.append(dict(fn=fn, block=bi, stmt=si, line=st["l"], adt=ty, field="*",
                                        kind="assign", last=True, rv=st["rv"]))
                rv = st["rv"]
                src = None
                if "ref" in rv and rv.get("m"):
                    src = rv["ref"]
                elif "raw" in rv and rv.get("m"):
                    src = rv["raw"]
                if src is not None and "p" in src:
                    chain = [e for e in src["p"] if isinstance(e, dict) and "f" in e and e.get("a")]
                    for depth, e in enumerate(chain):
                        out.append(dict(fn=fn, block=bi, stmt=si, line=st["l"], adt=e["a"], field=e["f"],
                                        kind="mutref", last=(depth == len(chain) - 1), rv=rv))
            t = bb["t"]
            if t["k"] == "call" and "p" in t["d"]:
                p = t["d"]
                chain = [e for e in p["p"] if isinstance(e, dict) and "f" in e and e.get("a")]
                for depth, e in enumerate(chain):
                    out.append(dict(fn=fn, block=bi, stmt=len(bb["s"]), line=t["l"], adt=e["a"], field=e["f"],
                                    kind="assign", last=(depth == len(chain) - 1), rv={"callres": t}))
    facts._field_stores = out
    return out


def deref_stores(fn, pv, self_adt=None):
    """Stores through a `&mut` local (`*r = v`), resolved with the given provenance (typically of one context) to the field the
    reference points at: `let r = if c { &mut self.a } else { &mut self.b }; *r = v` is a store to `a` under c and to `b` otherwise.
    Yields the same records as field_stores (kind 'assign')."""
    out = []
    for bi, bb in enumerate(fn.blocks):
        if bb["c"]:
            continue
        if pv.flow is not None and pv.flow.state_in[bi] is None:
            continue
        for si, st in enumerate(bb["s"]):
            if st["k"] != "=" or st["p"].get("p") != ["*"]:
                continue
            l = st["p"]["l"]
            if l <= fn.argc or not fn.locals[l]["t"].startswith("&mut"):
                continue
            t = pv.local(l, bi, si)
            targets = t[1] if t[0] == "phi" else [t]
            for x in targets:
                while x[0] in ("cast", "q"):
                    x = x[1]
                if x[0] == "field":
                    out.append(dict(fn=fn, block=bi, stmt=si, line=st["l"], adt=self_adt, field=x[2], kind="assign", last=True, rv=st["rv"], via="deref"))
    return out


def struct_writes(facts, fn, pv, adt):
    """What `fn` puts into the fields of `adt`, however the value is built: `x.f = v` / `x.f[i] = v` stores and `S { f: v, .. }`
    literals; for a literal whose field is a local array filled by indexed stores, those stores.
    [dict(field, val, block, stmt, line, idx=[index terms], how)]"""
    from .ir import op_place
    out = []
    for w in field_stores(facts):
        if w["fn"] is fn and w["adt"] == adt and w["last"] and w["kind"] == "assign":
            st = fn.blocks[w["block"]]["s"][w["stmt"]] if w["stmt"] < len(fn.blocks[w["block"]]["s"]) else None
            idx = [pv.local(e["ix"], w["block"], w["stmt"]) for e in (st["p"]["p"] if st else []) if isinstance(e, dict) and "ix" in e]
            out.append(dict(field=w["field"], val=pv._rvalue(w["rv"], w["block"], w["stmt"], 0) if "callres" not in w["rv"] else pv.local(w["rv"]["callres"]["d"]["l"], w["block"], w["stmt"] + 1),
                            block=w["block"], stmt=w["stmt"], line=w["line"], idx=idx, how="store"))
    for c in constructions(facts, adt):
        if c["fn"] is not fn:
            continue
        for name, o in c["fields"].items():
            pl = op_place(o)
            filled = []
            # follow plain copies of a local back to the array that was filled
            for _ in range(3):
                if pl is None or pl.get("p"):
                    break
                ds = [d for d in pv.defs.get(pl["l"], []) if d[2] is None]
                if len(ds) == 1 and ds[0][3].get("k") == "=" and "use" in ds[0][3]["rv"] and op_place(ds[0][3]["rv"]["use"]) is not None \
                        and not op_place(ds[0][3]["rv"]["use"]).get("p") and not any(d[2] for d in pv.defs.get(pl["l"], [])):
                    pl = op_place(ds[0][3]["rv"]["use"])
                    continue
                break
            if pl is not None and not pl.get("p"):
                for d in pv.defs.get(pl["l"], []):
                    if d[2] and any(isinstance(e, dict) and ("ix" in e or "ci" in e) for e in d[2]) and d[3].get("k") == "=":
                        filled.append(d)
            if filled:
                for (bi, si, proj, st) in filled:
                    idx = [pv.local(e["ix"], bi, si) if "ix" in e else ("const", e["ci"], None, "usize") for e in proj if isinstance(e, dict) and ("ix" in e or "ci" in e)]
                    out.append(dict(field=name, val=pv._rvalue(st["rv"], bi, si, 0), block=bi, stmt=si, line=st.get("l"), idx=idx, how="literal+indexed"))
            else:
                out.append(dict(field=name, val=pv.operand(o, c["block"], c["stmt"]), block=c["block"], stmt=c["stmt"], line=c["line"], idx=[], how="literal"))
    return out


def writers_of(facts, adt, field, kinds=("assign", "mutref")):
    return [w for w in field_stores(facts) if w["adt"] == adt and w["field"] == field and w["kind"] in kinds]


def whole_stores(facts, adt):
    return [w for w in field_stores(facts) if w["adt"] == adt and w["field"] == "*"]


def constructions(facts, adt):
    """Aggregate constructions of `adt`: list of dict(fn, block, stmt, line, variant, fields{name: operand})."""
    cache = getattr(facts, "_constructions", None)
    if cache is None:
        cache = {}
        for fn in facts.fn_list:
            if fn.kind == "const":
                continue
            for bi, bb in enumerate(fn.blocks):
                if bb["c"]:
                    continue
                for si, st in enumerate(bb["s"]):
                    if st["k"] != "=":
                        continue
                    agg = st["rv"].get("agg")
                    if agg and agg["k"] == "adt":
                        cache.setdefault(agg["adt"], []).append(dict(
                            fn=fn, block=bi, stmt=si, line=st["l"], variant=agg["v"],
                            fields=dict(zip(agg["fields"], st["rv"]["ops"]))))
        facts._constructions = cache
    return cache.get(adt, [])


RAW_VIEW_CALLEES = (
    "try_borrow_mut_data", "borrow_mut_data_unchecked", "try_borrow_mut_lamports",
    "from_bytes_mut", "try_from_bytes_mut", "as_mut_ptr", "data_ptr", "borrow_mut_lamports_unchecked",
    "load_mut", "load_init", "from_raw_parts_mut",
)


def raw_view_sites(facts):
    """Call sites that create a raw mutable view of account memory."""
    out = []
    for fn in facts.fn_list:
        if fn.kind == "const":
            continue
        for bi, t in fn.calls():
            p = callee_path(t) or ""
            raw = t["f"].get("raw", p)
            last = raw.rsplit("::", 1)[-1]
            if last in RAW_VIEW_CALLEES:
                out.append(dict(fn=fn, block=bi, line=t["l"], callee=p, raw=raw, ga=t["f"].get("ga", "")))
    return out


def mutator_signatures(facts):
    """{method path: (adt, {field: ("const", v) | ("param", index)})} for the straight-line inherent `&mut self` methods of state
    types that only store constants or their own parameters into fields of self (computed from the tree's own mutators)."""
    cache = getattr(facts, "_mut_sigs", None)
    if cache is not None:
        return cache
    from .prov import prov_of, strip
    from .match import const_val
    by_fn = {}
    for w in field_stores(facts):
        by_fn.setdefault(w["fn"].path, []).append(w)
    out = {}
    for path, ws in by_fn.items():
        fn = ws[0]["fn"]
        if fn.kind != "fn" or not fn.self_ty or fn.trait or not fn.sig or not fn.sig["in"] or not fn.sig["in"][0].startswith("&mut "):
            continue
        if any(bb["t"]["k"] == "switch" and not bb["c"] for bb in fn.blocks):
            continue
        if any(w["kind"] != "assign" or w["adt"] != fn.self_ty for w in ws):
            continue
        pv = prov_of(fn)
        names = fn.param_names()
        sig = {}
        ok = True
        for w in ws:
            if not w["last"]:
                continue
            v = strip(pv._rvalue(w["rv"], w["block"], w["stmt"], 0))
            if const_val(v) is not None:
                sig[w["field"]] = ("const", const_val(v))
            elif v[0] == "param" and v[1] in names:
                sig[w["field"]] = ("param", names.index(v[1]))
            else:
                ok = False
        if ok and sig:
            out[path] = (fn.self_ty, sig)
    # setters of the pinned tree that no longer exist (written into their callers by hand) keep their recorded signature, so that the
    # stores are still recognised as that setter (specs/mutators.json, tools/gen_guards.py)
    import json, os
    rp = os.path.join(os.path.dirname(os.path.dirname(os.path.abspath(__file__))), "specs", "mutators.json")
    if os.path.exists(rp) and not getattr(facts, "_recording", False):
        for path, (adt, sig) in json.load(open(rp)).get(facts.crate, {}).items():
            if path not in out and facts.fn(path) is None:
                out[path] = (adt, {f: tuple(v) for f, v in sig.items()})
    facts._mut_sigs = out
    return out


def recognise_mutators(facts, fn):
    """Direct stores of `fn` into fields of a state type that are, as a group, exactly what one of that type's mutators does
    (same fields, same constants): [(method path, block of the last store, receiver term, {param index: stored term}, stores)].
    A handler that spells a setter out is read as calling it."""
    from .prov import prov_of, strip
    from .match import const_val
    pv = prov_of(fn)
    groups = {}
    for w in field_stores(facts):
        if w["fn"] is fn and w["kind"] == "assign" and w["last"]:
            groups.setdefault(w["adt"], []).append(w)
    out = []
    sigs = mutator_signatures(facts)
    for adt, ws in groups.items():
        left = list(ws)
        for path, (madt, sig) in sorted(sigs.items(), key=lambda kv: -len(kv[1][1])):
            if madt != adt or facts.fn(path) is fn:
                continue
            mine = [w for w in left if w["field"] in sig]
            if {w["field"] for w in mine} != set(sig) or len(mine) != len(sig):
                continue
            args = {}
            ok = True
            for w in mine:
                v = pv._rvalue(w["rv"], w["block"], w["stmt"], 0)
                kind, x = sig[w["field"]]
                if kind == "const":
                    ok = ok and const_val(strip(v)) == x
                else:
                    if x in args and args[x] != v:
                        ok = False
                    args[x] = v
            if not ok:
                continue
            st_ = fn.blocks[mine[-1]["block"]]["s"][mine[-1]["stmt"]]
            recv = pv.local(st_["p"]["l"], mine[-1]["block"], mine[-1]["stmt"])
            out.append((path, max(w["block"] for w in mine), recv, args, mine))
            left = [w for w in left if w not in mine]
    return out
