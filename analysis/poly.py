"""Polynomial normal form of integer terms: sums of products of opaque atoms with integer coefficients. Two formulas that differ
only by how +, -, * are associated, commuted or distributed have the same normal form. Nothing is evaluated: constants are the
literal / named-constant values already in the term; every other sub-term (field, parameter, call, shift, ...) is an atom.
Overflow behaviour is not modelled (the rules that use this compare *which quantity* is computed, not its width)."""
from .prov import strip, show

ADD = ("Add", "AddWithOverflow", "AddUnchecked")
SUB = ("Sub", "SubWithOverflow", "SubUnchecked")
MUL = ("Mul", "MulWithOverflow", "MulUnchecked")


def _const(t):
    return t[1] if t[0] == "const" and isinstance(t[1], int) and not isinstance(t[1], bool) else None


def poly(t, atom=None, depth=0):
    """{monomial: coefficient}; a monomial is a sorted tuple of atom keys; () is the constant term. `atom(term)` names an atom
    (default: its printed form)."""
    atom = atom or (lambda x: show(x, True))
    t = strip(t)
    c = _const(t)
    if c is not None:
        return {(): c} if c else {}
    if t[0] == "bin" and depth < 40:
        if t[1] in ADD or t[1] in SUB:
            a, b = poly(t[2], atom, depth + 1), poly(t[3], atom, depth + 1)
            sign = 1 if t[1] in ADD else -1
            out = dict(a)
            for m, k in b.items():
                out[m] = out.get(m, 0) + sign * k
            return {m: k for m, k in out.items() if k}
        if t[1] in MUL:
            a, b = poly(t[2], atom, depth + 1), poly(t[3], atom, depth + 1)
            out = {}
            for m1, k1 in a.items():
                for m2, k2 in b.items():
                    m = tuple(sorted(m1 + m2))
                    out[m] = out.get(m, 0) + k1 * k2
            return {m: k for m, k in out.items() if k}
        if t[1] in ("Shl", "ShlUnchecked") and _const(strip(t[3])) is not None and 0 <= _const(strip(t[3])) < 256:
            a = poly(t[2], atom, depth + 1)
            f = 1 << _const(strip(t[3]))
            return {m: k * f for m, k in a.items()}
    return {(atom(t),): 1}


def show_poly(p):
    if not p:
        return "0"
    parts = []
    for m, k in sorted(p.items()):
        parts.append(("%d" % k) if not m else (("%d*" % k if k != 1 else "") + "*".join(m)))
    return " + ".join(parts)
