"""Canonicalisation of the loaded program before any rule looks at it.

The rules are written against the shape of the reference tree (specs/reference.json lists its functions and types). A later tree
may say the same thing differently; the passes below undo the differences that carry no meaning, on the facts, so that every rule
sees one canonical shape:

  P1  moved / renamed items   a function or type that only changed its path (same signature / same fields, the reference item of
                              that description is gone) is analysed under its reference path;
  P2  extracted helpers       a function that does not exist on the reference tree is spliced into its callers (MIR inlining with
                              `?` threading), so a block that was merely moved into a new private helper is seen where it was;
  P3  materialised booleans   `let c = a && b; if c {..}` is threaded back into control flow (jump threading over boolean locals
                              whose definitions are constants or comparisons in the predecessors), the shape `if a && b {..}` has.

Nothing here executes repository code; these are the classical compiler transformations (inlining, jump threading), applied to
the MIR facts. Each pass records what it did in facts.canon_log (shown in the evidence)."""
import copy
import re
import json
import os

VERIF = os.path.dirname(os.path.dirname(os.path.abspath(__file__)))
_REF = None


def reference(crate):
    global _REF
    if _REF is None:
        p = os.path.join(VERIF, "specs", "reference.json")
        _REF = json.load(open(p)) if os.path.exists(p) else {}
    return _REF.get(crate)


# ---------------------------------------------------------------------------------------------------------------------------
# P1: moved / renamed items

def _tail(path, n):
    return "::".join(path.split("::")[-n:])


def _short_ty(t):
    """Type string with every path reduced to its last segment (a moved type changes the paths inside other signatures)."""
    import re
    return re.sub(r"[A-Za-z_][A-Za-z0-9_]*::", "", t or "")


def literal_fingerprint(rec):
    """A short digest of the integer literals in a function's body (sorted multiset): enough to tell two renamed functions of one
    module with the same signature apart when their bodies were left alone."""
    import hashlib
    lits = []

    def walk(x):
        if isinstance(x, dict):
            k = x.get("k")
            if isinstance(k, dict) and "v" in k and str(k.get("ty", ""))[:1] in ("u", "i"):
                lits.append("%s:%s" % (k["v"], k.get("ty")))
            for v in x.values():
                walk(v)
        elif isinstance(x, list):
            for v in x:
                walk(v)
    for bb in rec.get("blocks", []):
        if not bb.get("c"):
            walk(bb)
    return "%d:%s" % (len(lits), hashlib.sha1("|".join(sorted(lits)).encode()).hexdigest()[:12])


def alias_map(crate, cur_fns, cur_adts, cur_consts=None):
    """{current path: reference path} for items that merely moved or were renamed.
    cur_fns: {path: (param types, ret type, kind)}, cur_adts: {path: (kind, names)}."""
    ref = reference(crate)
    if not ref:
        return {}
    out = {}
    # types: a current type unknown to the reference, whose last segment and field / variant names equal those of exactly one
    # reference type that no longer exists
    missing_adts = {p: a for p, a in ref["adts"].items() if p not in cur_adts}
    for p, (kind, names) in cur_adts.items():
        if p in ref["adts"]:
            continue
        c = [q for q, a in missing_adts.items() if _tail(q, 1) == _tail(p, 1) and a["names"] == names and a["kind"] == kind]
        if len(c) == 1 and c[0] not in out.values():
            out[p] = c[0]
    # constants: same name, same type and value, the reference constant of that name is gone
    if cur_consts and ref.get("consts"):
        gone = {p: c for p, c in ref["consts"].items() if p not in cur_consts}
        for p, c in cur_consts.items():
            if p in ref["consts"]:
                continue
            cand = [q for q, rc in gone.items() if _tail(q, 1) == _tail(p, 1) and str(rc.get("v")) == str(c.get("v")) and rc.get("ty") == c.get("ty")]
            if len(cand) == 1 and cand[0] not in out.values():
                out[p] = cand[0]
    # functions
    missing = {p: f for p, f in ref["fns"].items() if p not in cur_fns and f["kind"] == "fn"}
    new = {p: s for p, s in cur_fns.items() if p not in ref["fns"] and s[2] == "fn"}

    def sig_ref(f):
        return tuple(_short_ty(t) for _, t in f["params"]), _short_ty(f["ret"])

    def sig_cur(s):
        return tuple(_short_ty(t) for t in s[0]), _short_ty(s[1])

    def owner(path):
        # `Type::method` keeps its owner when the type moves
        parts = path.split("::")
        return parts[-2] if len(parts) >= 2 else ""
    used = set()
    # moved: same name (and same owner segment when it is a method of a type), same signature
    for p, s in sorted(new.items()):
        c = [q for q, f in missing.items() if q not in used and _tail(q, 1) == _tail(p, 1) and sig_ref(f) == sig_cur(s)
             and (owner(q) == owner(p) or (owner(q)[:1].islower() and owner(p)[:1].islower()))]
        if len(c) == 1:
            out[p] = c[0]
            used.add(c[0])
    # a free function made an associated function of a type (or the reverse): same name, same signature (so no receiver was
    # added), exactly one candidate on either side
    for p, s in sorted(new.items()):
        if p in out:
            continue
        c = [q for q, f in missing.items() if q not in used and _tail(q, 1) == _tail(p, 1) and sig_ref(f) == sig_cur(s) and owner(q)[:1].islower() != owner(p)[:1].islower()]
        back = [r for r, s2 in new.items() if r not in out and _tail(r, 1) == _tail(p, 1) and sig_cur(s2) == sig_cur(s)]
        if len(c) == 1 and len(back) == 1:
            out[p] = c[0]
            used.add(c[0])
    # renamed in place: same parent path, same signature, exactly one candidate on either side
    for p, s in sorted(new.items()):
        if p in out:
            continue
        parent = p.rsplit("::", 1)[0] if "::" in p else ""
        c = [q for q, f in missing.items() if q not in used and (q.rsplit("::", 1)[0] if "::" in q else "") == parent and sig_ref(f) == sig_cur(s)]
        back = [r for r, s2 in new.items() if r not in out and (r.rsplit("::", 1)[0] if "::" in r else "") == parent and sig_cur(s2) == sig_cur(s)]
        if len(c) == 1 and len(back) == 1 and len(s[0]) >= 1:
            out[p] = c[0]
            used.add(c[0])
        elif len(c) > 1 and len(c) == len(back) and len(s[0]) >= 1 and len(s) > 3 and s[3]:
            # several functions of one module with one signature renamed at once: the one whose body has the same integer literals
            # (digest recorded with the reference), if that singles one out on both sides
            c2 = [q for q in c if missing[q].get("lits") == s[3]]
            b2 = [r for r in back if len(new[r]) > 3 and new[r][3] == s[3]]
            if len(c2) == 1 and len(b2) == 1:
                out[p] = c2[0]
                used.add(c2[0])
    return out


def merged_duplicates(facts, crate, taken=()):
    """{reference path that no longer exists: existing function that replaced it}: a function the reference has, the tree does
    not, whose reference callers now call another, already existing function of the same name and signature (two copies merged
    into one).  The surviving body is what runs in its place, so rules anchored at the removed copy read the survivor."""
    from .ir import callee_path
    ref = reference(crate)
    if not ref:
        return {}
    out = {}
    for q, f in sorted(ref["fns"].items()):
        if f["kind"] != "fn" or q in facts.fns or q in taken:
            continue
        sig = (tuple(_short_ty(t) for _, t in f["params"]), _short_ty(f["ret"]))
        cands = set()
        callers = [facts.fns[c] for c in f.get("callers", []) if c in facts.fns]
        for c in callers:
            for _, t in c.calls():
                p = callee_path(t)
                g = facts.fns.get(p) if p else None
                if g is None or g.kind != "fn" or _tail(p, 1) != _tail(q, 1) or p not in ref["fns"]:
                    continue
                if (tuple(_short_ty(g.locals[i].get("t")) for i in range(1, g.argc + 1)), _short_ty(g.locals[0]["t"])) == sig:
                    cands.add(p)
        if len(cands) == 1 and callers:
            out[q] = next(iter(cands))
    return out


def apply_aliases_text(text, amap):
    """Rewrite paths in a fact file's text. Longest first; a path is replaced where it is followed by a non-identifier character."""
    import re
    for new in sorted(amap, key=len, reverse=True):
        old = amap[new]
        if new == old:
            continue
        text = re.sub(re.escape(new) + r"(?![A-Za-z0-9_])", old.replace("\\", "\\\\"), text)
    return text


# ---------------------------------------------------------------------------------------------------------------------------
# P2: inlining of functions the reference tree does not have

def _shift_place(pl, lo):
    pl["l"] += lo
    for e in pl.get("p") or []:
        if isinstance(e, dict) and "ix" in e:
            e["ix"] += lo


def _shift_operand(o, lo, po):
    if not isinstance(o, dict):
        return
    for k in ("cp", "mv"):
        if k in o:
            _shift_place(o[k], lo)
    if "k" in o and isinstance(o["k"], dict) and "promoted" in o["k"]:
        o["k"]["promoted"] += po


def _shift_rvalue(rv, lo, po):
    for k in ("use", "a", "b", "rep"):
        if k in rv and isinstance(rv[k], dict):
            _shift_operand(rv[k], lo, po)
    for k in ("ref", "raw", "discr"):
        if k in rv and isinstance(rv[k], dict):
            _shift_place(rv[k], lo)
    if "ops" in rv:
        for o in rv["ops"]:
            _shift_operand(o, lo, po)


def _shift_block(bb, lo, bo, po):
    for st in bb["s"]:
        if "p" in st:
            _shift_place(st["p"], lo)
        if "rv" in st:
            _shift_rvalue(st["rv"], lo, po)
    t = bb["t"]
    k = t["k"]
    if k == "goto":
        t["t"] += bo
    elif k == "switch":
        _shift_operand(t["d"], lo, po)
        t["ts"] = [[v, b + bo] for v, b in t["ts"]]
        t["o"] += bo
    elif k == "call":
        for a in t["a"]:
            _shift_operand(a, lo, po)
        if "ind" in t["f"]:
            _shift_operand(t["f"]["ind"], lo, po)
        _shift_place(t["d"], lo)
        if t["t"] is not None:
            t["t"] += bo
        if isinstance(t.get("u"), int) and t["u"] >= 0:
            t["u"] += bo
    elif k == "drop":
        if "p" in t:
            _shift_place(t["p"], lo)
        t["t"] += bo
    elif k == "assert":
        _shift_operand(t["c"], lo, po)
        t["t"] += bo


def _is_result(ty):
    return ty.startswith("std::result::Result<") or ty.startswith("core::result::Result<")


def _ret_status(callee):
    """Per block of the callee: the set of possible states of the return place on entry: 'none' (not assigned yet), 'ok', 'err'
    (assigned a literal Ok(..) / Err(..) or the residual of a `?`), 'unk' (assigned something else)."""
    blocks = callee["blocks"]
    n = len(blocks)

    def transfer(b, s):
        bb = blocks[b]
        for st in bb["s"]:
            if st["k"] == "=" and st["p"]["l"] == 0:
                if st["p"].get("p"):
                    s = "unk"
                    continue
                agg = st["rv"].get("agg")
                if agg and agg.get("k") == "adt" and agg["adt"].endswith("result::Result"):
                    s = "ok" if agg["v"] == "Ok" else "err"
                else:
                    s = "unk"
        t = bb["t"]
        if t["k"] == "call" and t["d"]["l"] == 0:
            p = t["f"].get("raw", t["f"].get("p", "")) or ""
            s = "err" if ("from_residual" in p and not t["d"].get("p")) else "unk"
        return s
    succ = []
    for bb in blocks:
        t = bb["t"]
        k = t["k"]
        if k == "goto":
            succ.append([t["t"]])
        elif k == "switch":
            succ.append(sorted({b for _, b in t["ts"]} | {t["o"]}))
        elif k == "call":
            succ.append([t["t"]] if t["t"] is not None else [])
        elif k in ("drop", "assert"):
            succ.append([t["t"]])
        else:
            succ.append([])
    ins = [set() for _ in range(n)]
    ins[0].add("none")
    work = [0]
    while work:
        b = work.pop()
        for s in list(ins[b]):
            o = transfer(b, s)
            for x in succ[b]:
                if o not in ins[x]:
                    ins[x].add(o)
                    work.append(x)
    return ins, transfer, succ


def _question_mark_shape(caller, call_block):
    """If the call's result is consumed by `?`: (branch block T1, switch block T2, continue target C, break target B, local _b
    holding the ControlFlow, block X after the from_residual call in B) else None."""
    blocks = caller["blocks"]
    t = blocks[call_block]["t"]
    if t["t"] is None or t["d"].get("p"):
        return None
    dest = t["d"]["l"]
    b1 = blocks[t["t"]]
    if b1["s"] or b1["t"]["k"] != "call":
        return None
    c1 = b1["t"]
    p = c1["f"].get("raw", c1["f"].get("p", "")) or ""
    if not p.endswith("Try::branch") and not p.endswith("::branch"):
        return None
    if len(c1["a"]) != 1 or "mv" not in c1["a"][0] or c1["a"][0]["mv"]["l"] != dest or c1["a"][0]["mv"].get("p"):
        return None
    if c1["d"].get("p") or c1["t"] is None:
        return None
    bl = c1["d"]["l"]
    b2 = blocks[c1["t"]]
    if b2["t"]["k"] != "switch" or len(b2["s"]) < 1:
        return None
    # drop-flag updates (`_n = const bool` on an unnamed local) may precede the discriminant read; they carry no meaning here
    for st0 in b2["s"][:-1]:
        k0 = (st0.get("rv") or {}).get("use", {}).get("k") if st0["k"] == "=" else None
        if not (isinstance(k0, dict) and k0.get("ty") == "bool" and not st0["p"].get("p") and not caller["locals"][st0["p"]["l"]].get("n")):
            return None
    st = b2["s"][-1]
    if st["k"] != "=" or "discr" not in st["rv"] or st["rv"]["discr"]["l"] != bl:
        return None
    tgt = {str(v): b for v, b in b2["t"]["ts"]}
    if "0" not in tgt or "1" not in tgt:
        return None
    cont, brk = tgt["0"], tgt["1"]
    # the break arm: ... _0 = from_residual(..) -> X
    x = None
    cur = brk
    for _ in range(4):
        tb = blocks[cur]["t"]
        if tb["k"] == "call":
            q = tb["f"].get("raw", tb["f"].get("p", "")) or ""
            if "from_residual" in q and tb["d"]["l"] == 0 and not tb["d"].get("p") and tb["t"] is not None:
                x = tb["t"]
            break
        if tb["k"] == "goto":
            cur = tb["t"]
            continue
        break
    if x is None:
        return None
    return {"T1": t["t"], "T2": c1["t"], "C": cont, "B": brk, "bl": bl, "X": x}



def _reachable(rec):
    blocks = rec["blocks"]
    seen = set()
    work = [0]
    while work:
        b = work.pop()
        if b in seen:
            continue
        seen.add(b)
        t = blocks[b]["t"]
        k = t["k"]
        if k == "goto":
            nx = [t["t"]]
        elif k == "switch":
            nx = [x for _, x in t["ts"]] + [t["o"]]
        elif k == "call":
            nx = [t["t"]] if t["t"] is not None else []
        elif k in ("drop", "assert"):
            nx = [t["t"]]
        else:
            nx = []
        work.extend(x for x in nx if x not in seen)
    return seen


def _neutralise(rec, before):
    """Blocks that were reachable before a pass and are not any more become empty dead ends (they must not stay predecessors)."""
    after = _reachable(rec)
    nb = (max(before) + 1) if before else 0
    for b in range(len(rec["blocks"])):
        if b in after or rec["blocks"][b].get("dead"):
            continue
        # blocks the pass disconnected, and blocks it added that ended up unreachable
        if b in before or (b >= nb and not rec["blocks"][b].get("c")):
            rec["blocks"][b] = {"s": [], "t": {"k": "unreachable"}, "c": 1, "dead": 1}



def _split_top(s):
    out, depth, cur = [], 0, ""
    for ch in s:
        if ch in "<([":
            depth += 1
        elif ch in ">)]":
            depth -= 1
        if ch == "," and depth == 0:
            out.append(cur.strip())
            cur = ""
        else:
            cur += ch
    if cur.strip():
        out.append(cur.strip())
    return out


def _subst_generics(obj, table):
    """Replace the callee's type parameters by the call site's generic arguments in every string of an inlined block."""
    import re
    if not table:
        return obj
    pat = re.compile(r"(?<![A-Za-z0-9_:])(%s)(?![A-Za-z0-9_])" % "|".join(re.escape(k) for k in sorted(table, key=len, reverse=True)))

    def sub(x):
        if isinstance(x, str):
            return pat.sub(lambda m: table[m.group(1)], x) if any(k in x for k in table) else x
        if isinstance(x, list):
            return [sub(y) for y in x]
        if isinstance(x, dict):
            return {k: (sub(v) if k in ("ga", "ty", "t", "adt", "p", "raw", "c", "f", "rv", "s", "a", "use", "ops", "agg", "k", "d", "ind", "b", "rep", "cp", "mv") else v) for k, v in x.items()}
        return x
    return sub(obj)


def inline_call(caller, call_block, callee):
    """Splice `callee` (a function record) into `caller` at the call terminating `call_block`."""
    blocks = caller["blocks"]
    t = blocks[call_block]["t"]
    lo = len(caller["locals"])
    po = len(caller.get("promoted", []))
    tail = (t["d"]["l"] == 0 and not t["d"].get("p") and _is_result(caller["locals"][0]["t"]) and _is_result(callee["locals"][0]["t"]))
    qm = None if tail else (_question_mark_shape(caller, call_block) if _is_result(callee["locals"][0]["t"]) else None)
    # a generic callee is instantiated with the call site's generic arguments
    gtable = {}
    if callee.get("gparams") and t["f"].get("ga"):
        ga = _split_top(t["f"]["ga"])
        if len(ga) == len(callee["gparams"]):
            gtable = {n: a for n, a in zip(callee["gparams"], ga) if not n.startswith("'") and n != a}
    # locals: the callee's become anonymous temporaries of the caller
    for i, l in enumerate(callee["locals"]):
        # parameters become anonymous temporaries (assigned once from the argument, so provenance looks through them);
        # the callee's own named variables keep their names
        ty = _subst_generics(l["t"], gtable) if gtable else l["t"]
        caller["locals"].append({"t": ty, "n": l["n"], "inl": 1} if (i > callee["argc"] and l.get("n")) else {"t": ty, "inl": 1})
    if callee.get("promoted"):
        caller.setdefault("promoted", [])
        caller["promoted"].extend(copy.deepcopy(callee["promoted"]))
    ins, transfer, succ = _ret_status(callee)
    # node splitting on the state of the return place, so that an `Err(..)` exit of the callee stays an error exit of the caller
    split = bool(tail or qm)
    version = {}
    order = []

    def ver(b, s):
        key = (b, s)
        if key not in version:
            version[key] = None
            order.append(key)
        return key
    ver(0, "none" if split else "*")
    i = 0
    while i < len(order):
        b, s = order[i]
        i += 1
        o = transfer(b, s) if split else "*"
        for x in succ[b]:
            ver(x, o)
    base = len(blocks)
    for i, key in enumerate(order):
        version[key] = base + i
    line = t.get("l")
    newblocks = []
    for (b, s) in order:
        bb = copy.deepcopy(callee["blocks"][b])
        if gtable:
            bb = _subst_generics(bb, gtable)
        _shift_block(bb, lo, 0, po)
        o = transfer(b, s) if split else "*"

        def tgt(x):
            return version[(x, o)]
        tt = bb["t"]
        k = tt["k"]
        if k == "goto":
            tt["t"] = tgt(tt["t"])
        elif k == "switch":
            tt["ts"] = [[v, tgt(x)] for v, x in tt["ts"]]
            tt["o"] = tgt(tt["o"])
        elif k == "call":
            if tt["t"] is not None:
                tt["t"] = tgt(tt["t"])
            if isinstance(tt.get("u"), int) and tt["u"] >= 0:
                tt["u"] = tgt(tt["u"]) if (tt["u"], o) in version else -1
        elif k in ("drop", "assert"):
            tt["t"] = tgt(tt["t"])
        # the return place
        ret_local = lo  # callee _0 shifted
        if tail:
            _rename_local(bb, ret_local, 0)
        elif qm:
            _thread_result_writes(bb, ret_local, qm, o)
        if k == "ret":
            if tail:
                bb["t"] = {"k": "goto", "t": t["t"]} if t["t"] is not None else {"k": "unreachable"}
            elif qm and o == "ok":
                bb["t"] = {"k": "goto", "t": qm["C"]}
            elif qm and o == "err":
                bb["t"] = {"k": "goto", "t": qm["X"]}
            else:
                bb["s"].append({"k": "=", "p": copy.deepcopy(t["d"]), "rv": {"use": {"mv": {"l": ret_local}}}, "l": line, "x": 0})
                bb["t"] = {"k": "goto", "t": t["t"]} if t["t"] is not None else {"k": "unreachable"}
        newblocks.append(bb)
    # the callee's return block is folded into its predecessors: `r = v; goto ret` + `ret: dest = r; goto next` reads
    # `r = v; dest = r; goto next`, the shape the same code has when written in place
    ret_ix = {base + i for i, (b, s_) in enumerate(order) if callee["blocks"][b]["t"]["k"] == "ret"}
    for nb in newblocks:
        if nb["t"]["k"] == "goto" and nb["t"]["t"] in ret_ix:
            rb = newblocks[nb["t"]["t"] - base]
            if rb is not nb and rb["t"]["k"] in ("goto", "unreachable") and len(rb["s"]) <= 2:
                nb["s"].extend(copy.deepcopy(rb["s"]))
                nb["t"] = copy.deepcopy(rb["t"])
    # the call site: arguments become assignments to the callee's parameter locals
    cb = blocks[call_block]
    for i, a in enumerate(t["a"]):
        cb["s"].append({"k": "=", "p": {"l": lo + 1 + i}, "rv": {"use": copy.deepcopy(a)}, "l": line, "x": 0})
    cb["t"] = {"k": "goto", "t": base}
    blocks.extend(newblocks)


def fold_constant_switches(rec):
    """A helper spliced in at a call with a literal argument (`update(.., true)`) branches on that literal: a switch whose
    discriminant is a single-assignment copy chain from a constant becomes a goto. Returns the number of folded switches."""
    blocks = rec["blocks"]
    defs = {}
    for bb in blocks:
        if bb.get("dead"):
            continue
        for st in bb["s"]:
            if st["k"] == "=" :
                defs.setdefault(st["p"]["l"], []).append(st if not st["p"].get("p") else None)
        t = bb["t"]
        if t["k"] == "call":
            defs.setdefault(t["d"]["l"], []).append(None)
    # locals whose address is taken may be written through the reference
    addr = set()
    for bb in blocks:
        for st in bb["s"]:
            rv = st.get("rv") or {}
            for k in ("ref", "raw"):
                if k in rv and isinstance(rv[k], dict) and not rv[k].get("p"):
                    addr.add(rv[k]["l"])

    def value(l, depth=0):
        if l <= rec["argc"] or l in addr or depth > 6:
            return None
        ds = defs.get(l, [])
        if len(ds) != 1 or ds[0] is None:
            return None
        u = ds[0]["rv"].get("use")
        if not isinstance(u, dict):
            return None
        if "k" in u and isinstance(u["k"], dict) and "v" in u["k"] and u["k"].get("ty") in ("bool", "u8", "u16", "u32", "u64", "usize", "i32", "isize"):
            return str(u["k"]["v"])
        sl = _operand_local(u)
        return value(sl, depth + 1) if sl is not None else None
    n = 0
    for bb in blocks:
        t = bb["t"]
        if t["k"] != "switch" or bb.get("dead"):
            continue
        dl = _operand_local(t["d"])
        v = value(dl) if dl is not None else None
        if v is None:
            continue
        tg = next((x for val, x in t["ts"] if str(val) == v), t["o"])
        bb["t"] = {"k": "goto", "t": tg}
        n += 1
    return n


def _rename_local(bb, old, new):
    def pl(p):
        if p["l"] == old:
            p["l"] = new
        for e in p.get("p") or []:
            if isinstance(e, dict) and e.get("ix") == old:
                e["ix"] = new

    def op(o):
        if isinstance(o, dict):
            for k in ("cp", "mv"):
                if k in o:
                    pl(o[k])
    for st in bb["s"]:
        if "p" in st:
            pl(st["p"])
        rv = st.get("rv") or {}
        for k in ("use", "a", "b", "rep"):
            if k in rv:
                op(rv[k])
        for k in ("ref", "raw", "discr"):
            if k in rv and isinstance(rv[k], dict):
                pl(rv[k])
        for o in rv.get("ops", []):
            op(o)
    t = bb["t"]
    if t["k"] == "call":
        for a in t["a"]:
            op(a)
        pl(t["d"])
    elif t["k"] == "switch":
        op(t["d"])
    elif t["k"] == "drop" and "p" in t:
        pl(t["p"])
    elif t["k"] == "assert":
        op(t["c"])


def _thread_result_writes(bb, ret_local, qm, out_state):
    """Under `?`: `ret = Ok(v)` becomes `_b = Continue(v)`; `ret = Err(e)` / `ret = from_residual(r)` write the caller's own
    return place (the conversion of the error type that `?` applies is the identity for shape purposes)."""
    for st in bb["s"]:
        if st["k"] == "=" and st["p"]["l"] == ret_local and not st["p"].get("p"):
            agg = st["rv"].get("agg")
            if agg and agg.get("k") == "adt" and agg["adt"].endswith("result::Result"):
                if agg["v"] == "Ok":
                    st["p"] = {"l": qm["bl"]}
                    st["rv"] = {"agg": {"k": "adt", "adt": "std::ops::ControlFlow", "v": "Continue", "vi": 0, "fields": ["0"]}, "ops": st["rv"]["ops"]}
                else:
                    st["p"] = {"l": 0}
    t = bb["t"]
    if t["k"] == "call" and t["d"]["l"] == ret_local and not t["d"].get("p"):
        p = t["f"].get("raw", t["f"].get("p", "")) or ""
        if "from_residual" in p:
            t["d"] = {"l": 0}


# Small private helpers with a single role that a maintainer may as well write in place. They are always spliced into their
# callers, on every tree including the reference one, and the rules are written against that view: whether the source keeps the
# helper or has it inlined by hand then makes no difference.
ALWAYS_INLINE = {
    "whirlpool": [
        "manager::swap_manager::calculate_protocol_fee",
        "manager::swap_manager::calculate_update",
        "manager::swap_manager::get_next_sqrt_prices",
        "manager::tick_array_manager::increase_tick_array_size",
        "manager::tick_array_manager::decrease_tick_array_size",
        "pinocchio::ported::manager_tick_array_manager::pino_increase_tick_array_size",
        "pinocchio::ported::manager_tick_array_manager::pino_decrease_tick_array_size",
        "pinocchio::utils::account_load::check_owner_program",
        "state::oracle::Oracle::update_adaptive_fee_variables",
        "state::oracle::OracleAccessor::<'info>::load_mut",
        "state::dynamic_tick_array::DynamicTickArrayLoader::update_tick_bitmap",
        "pinocchio::state::whirlpool::tick_array::dynamic_tick_array::MemoryMappedDynamicTickArray::update_tick_bitmap",
        "pinocchio::instructions::reposition_liquidity_v2::assert_new_range_token_increase_under_max",
        "state::dynamic_tick_array::DynamicTickArrayLoader::is_initialized_tick",
        "manager::whirlpool_manager::next_whirlpool_liquidity",
        "pinocchio::ported::manager_liquidity_manager::pino_next_whirlpool_liquidity",
        "math::token_math::est_liquidity_for_token_a",
        "math::token_math::est_liquidity_for_token_b",
        "pinocchio::state::whirlpool::whirlpool::MemoryMappedWhirlpool::set_liquidity",
        "pinocchio::state::whirlpool::whirlpool::MemoryMappedWhirlpool::set_reward_growth_global",
        "pinocchio::state::whirlpool::whirlpool::MemoryMappedWhirlpool::set_reward_last_updated_timestamp",
        "util::sparse_swap::maybe_load_tick_array",
        "pinocchio::state::whirlpool::position::MemoryMappedPosition::reset_reward_growth_checkpoints",
        "util::swap_utils::perform_swap",
        "util::v2::swap_utils::perform_swap_v2",
        "state::position_bundle::PositionBundle::is_valid_bundle_index",
    ],
    "orca_whirlpools_core": [
        "quote::swap::try_get_next_sqrt_price",
        "math::tick_array::ticks",
    ],
}


# small selectors whose own body is decided by a rule (so they stay in the function list) and whose callers are read with the
# selection spelled out: `pool.output_token_mint(a_to_b)` and `if a_to_b { pool.token_mint_b } else { pool.token_mint_a }` are one text
INLINE_AND_KEEP = {
    "whirlpool": [
        "state::whirlpool::Whirlpool::input_token_mint",
        "state::whirlpool::Whirlpool::output_token_mint",
        "state::whirlpool::Whirlpool::input_token_vault",
        "state::whirlpool::Whirlpool::output_token_vault",
        "util::v2::token::verify_supported_token_mint",
    ],
}


def inline_new_functions(facts, crate):
    """P2. Every local `fn` that the reference tree does not have (and every helper of ALWAYS_INLINE) that is only ever called
    directly is spliced into its callers and dropped from the function list."""
    ref = reference(crate)
    if not ref:
        return []
    log = []
    keep = set(INLINE_AND_KEEP.get(crate, []))
    always = set(ALWAYS_INLINE.get(crate, [])) | keep
    for _round in range(4):
        new = [f for f in facts.fn_list if f.kind == "fn" and (f.path not in ref["fns"] or f.path in always) and not f.expn and f.path not in facts.no_inline]
        if not new:
            break
        progressed = False
        # one pass: direct call sites per callee, and every function item used as a value
        sites_of = {}
        value_refs = set()

        def walk(x):
            if isinstance(x, dict):
                k = x.get("k")
                if isinstance(k, dict) and "fn" in k:
                    value_refs.add(k["fn"])
                if "fn" in x and isinstance(x["fn"], str):
                    value_refs.add(x["fn"])
                for v in x.values():
                    if isinstance(v, (dict, list)):
                        walk(v)
            elif isinstance(x, list):
                for v in x:
                    if isinstance(v, (dict, list)):
                        walk(v)
        want = {g.path for g in new}
        for f in facts.fn_list:
            for bi, bb in enumerate(f.blocks):
                tt = bb["t"]
                if tt["k"] == "call":
                    p_ = tt["f"].get("p")
                    if p_ in want and f.kind != "const":
                        sites_of.setdefault(p_, []).append((f, bi))
                    walk(tt["a"])
                    if "ind" in tt["f"]:
                        walk(tt["f"]["ind"])
                for st in bb["s"]:
                    if st["k"] == "=":
                        walk(st["rv"])
        for g in new:
            sites = sites_of.get(g.path, [])
            other_use = g.path in value_refs
            recursive = any(f is g for f, _ in sites)
            calls_new = any((bb["t"]["k"] == "call" and bb["t"]["f"].get("p") in {h.path for h in new if h is not g}) for bb in g.blocks)
            if other_use or recursive or not sites:
                facts.no_inline.add(g.path)
                continue
            if calls_new:
                continue  # inline the leaves first
            for f, bi in sites:
                before = _reachable(f.rec)
                inline_call(f.rec, bi, g.rec)
                if fold_constant_switches(f.rec):
                    before = before | set(range(max(before) + 1, len(f.rec["blocks"])))
                _neutralise(f.rec, before)
                f.refresh()
            if g.path in keep:
                facts.no_inline.add(g.path)
            else:
                facts.remove_fn(g)
            if g.path not in always:
                log.append("inlined new function %s into %s" % (g.path, ", ".join(sorted({f.path for f, _ in sites}))))
            progressed = True
        if not progressed:
            break
    return log


# ---------------------------------------------------------------------------------------------------------------------------
# P2b: conversions used in place of field-by-field copies

_CONVERSION = re.compile(r"^<.+ as (?:std|core)::convert::From<.+>>::from$")


def _plain_setters(facts):
    """Paths of `&mut self` methods that only store (values computed without branches from) their parameters into fields of
    self, directly or through another such method: `fn update_rewards_and_liquidity(&mut self, infos, liquidity, ts)
    { self.update_rewards(infos, ts); self.liquidity = liquidity; }`."""
    cands = {}
    for f in facts.fn_list:
        rec = f.rec
        if f.kind != "fn" or rec.get("argc", 0) < 2 or not rec["locals"][1]["t"].startswith("&mut ") or rec["locals"][0]["t"] != "()" or f.expn:
            continue
        stores, callees, ok = 0, set(), True
        for bb in rec["blocks"]:
            if bb.get("c"):
                continue
            k = bb["t"]["k"]
            if k == "call":
                p_ = bb["t"]["f"].get("p")
                if not p_ or not bb["t"]["f"].get("loc") or bb["t"]["t"] is None:
                    ok = False
                    break
                callees.add(p_)
            elif k not in ("ret", "goto"):
                ok = False
                break
            for st in bb["s"]:
                if st.get("k") != "=":
                    continue
                pl = st["p"]
                if pl.get("p"):
                    if pl["l"] != 1 or pl["p"][:1] != ["*"] or not any(isinstance(e, dict) and "f" in e for e in pl["p"]):
                        ok = False
                        break
                    stores += 1
            if not ok:
                break
        if ok and (stores or callees):
            cands[f.path] = (stores, callees)
    changed = True
    while changed:
        changed = False
        for p_, (stores, callees) in list(cands.items()):
            if any(c not in cands for c in callees):
                del cands[p_]
                changed = True
    return {p_ for p_, (stores, callees) in cands.items() if stores or callees}


def inline_conversions(facts, crate):
    """`*self = Tick::from(update)` in place of six field assignments: a crate-local `From` impl called from a function that
    did not call it in the reference tree is spliced in at that site (the impl itself stays and keeps being checked)."""
    ref = reference(crate)
    if not ref:
        return []
    log = []
    setters = _plain_setters(facts)
    local = {f.path: f for f in facts.fn_list if f.kind == "fn" and (_CONVERSION.match(f.path) or f.path in setters)}
    if not local:
        return []
    for f in list(facts.fn_list):
        if f.kind == "const" or f.path in local:
            continue
        done = False
        for _ in range(4):
            hit = None
            for bi, bb in enumerate(f.rec["blocks"]):
                tt = bb["t"]
                if bb.get("c") or tt["k"] != "call":
                    continue
                g = local.get(tt["f"].get("p"))
                if g is None or tt["t"] is None:
                    continue
                known = (ref["fns"].get(g.path) or {}).get("callers")
                if known is not None and f.path in known:
                    continue
                if f.path not in ref["fns"] and known is not None:
                    pass
                hit = (bi, g)
                break
            if hit is None:
                break
            before = _reachable(f.rec)
            inline_call(f.rec, hit[0], hit[1].rec)
            _neutralise(f.rec, before)
            f.refresh()
            done = True
            log.append("%s %s read in place in %s" % ("conversion" if _CONVERSION.match(hit[1].path) else "setter", hit[1].path, f.path))
        if done:
            f.refresh()
    return log


def _def_sites(rec):
    """{local: [(block, stmt index or None for a call destination)]} for projection-free definitions."""
    defs = {}
    for bi, bb in enumerate(rec["blocks"]):
        for si, st in enumerate(bb["s"]):
            if st["k"] == "=" and not st["p"].get("p"):
                defs.setdefault(st["p"]["l"], []).append((bi, si))
        t = bb["t"]
        if t["k"] == "call" and not t["d"].get("p"):
            defs.setdefault(t["d"]["l"], []).append((bi, None))
    return defs


def _whole_stores_fn(rec, adts):
    """`(*p) = S { a: x, b: y }` (through any chain of single-use moves) becomes `(*p).a = x; (*p).b = y`."""
    blocks = rec["blocks"]
    n = 0
    for _ in range(8):
        defs = _def_sites(rec)
        uses = _count_uses(rec)
        argc = rec["argc"]
        found = None
        for bi, bb in enumerate(blocks):
            if bb.get("c"):
                continue
            for si, st in enumerate(bb["s"]):
                if st["k"] != "=" or not st["p"].get("p") or "use" not in st["rv"]:
                    continue
                if st["p"]["p"] != ["*"]:
                    continue    # only `*self = S { .. }`: a struct stored into a field stays one store of one value
                l = _operand_local(st["rv"]["use"])
                chain = []
                agg = None
                while l is not None and l > argc:
                    ds = defs.get(l, [])
                    if len(ds) != 1 or ds[0][1] is None or uses.get(l, 0) != 1:
                        break
                    dst = blocks[ds[0][0]]["s"][ds[0][1]]
                    rv = dst["rv"]
                    if "agg" in rv and rv["agg"].get("k") == "adt":
                        a = adts.get(rv["agg"]["adt"])
                        if a is not None and a.get("kind") == "struct" and len(rv["agg"].get("fields") or []) == len(rv.get("ops") or []) and rv["agg"]["fields"]:
                            agg = (ds[0], dst)
                        break
                    if "use" in rv and _operand_local(rv["use"]) is not None:
                        chain.append(ds[0])
                        l = _operand_local(rv["use"])
                        continue
                    break
                if agg is None:
                    continue
                # the components are single-assignment temporaries or parameters (their values at the store are the ones
                # the literal was built from)
                ok = True
                for o in agg[1]["rv"]["ops"]:
                    ol = _operand_local(o)
                    if ol is None:
                        if isinstance(o, dict) and ("cp" in o or "mv" in o):
                            # a field of a single-assignment temporary (`..Default::default()` is read field by field)
                            pl_ = o.get("cp") or o.get("mv")
                            nd_ = len(defs.get(pl_["l"], []))
                            if "*" in (pl_.get("p") or []) or not ((pl_["l"] <= argc and nd_ == 0) or (pl_["l"] > argc and nd_ == 1)):
                                ok = False
                        continue
                    nd = len(defs.get(ol, []))
                    if not ((ol <= argc and nd == 0) or (ol > argc and nd == 1)):
                        ok = False
                if not ok:
                    continue
                found = (bi, si, st, agg, chain)
                break
            if found:
                break
        if not found:
            break
        bi, si, st, agg, chain = found
        a = agg[1]["rv"]["agg"]
        stores = []
        for i, (name, o) in enumerate(zip(a["fields"], agg[1]["rv"]["ops"])):
            stores.append({"k": "=", "p": {"l": st["p"]["l"], "p": copy.deepcopy(st["p"]["p"]) + [{"f": name, "i": i, "a": a["adt"]}]},
                           "rv": {"use": copy.deepcopy(o)}, "l": st.get("l"), "x": st.get("x", 0)})
        kill = {(agg[0][0], agg[0][1])} | set(chain)
        blocks[bi]["s"][si:si + 1] = [{"k": "nop", "_ws": stores}]
        for (b, s_) in kill:
            blocks[b]["s"][s_] = {"k": "nop"}
        for bb in blocks:
            out = []
            for x in bb["s"]:
                if x.get("k") == "nop":
                    out.extend(x.get("_ws", []))
                else:
                    out.append(x)
            bb["s"] = out
        n += 1
    return n


def scalarise_whole_stores(facts):
    fns = []
    for f in facts.fn_list:
        if f.kind == "const":
            continue
        if _whole_stores_fn(f.rec, facts.adts):
            f.refresh()
            fns.append(f.path)
    return ["whole-value store of a struct literal read as its field stores in %s" % ", ".join(sorted(fns))] if fns else []


# ---------------------------------------------------------------------------------------------------------------------------
# P2c: `matches!(x, V(..))`

def _matches_fn(rec):
    """A two-way switch on a discriminant whose arms only set one bool local to true / false and join is the comparison
    `b = discriminant(x) == K` (or `!= K`): the shape `matches!(x, V(..))` and `if let V(..) = x { true } else { false }` lower to."""
    blocks = rec["blocks"]
    preds = {}
    for i, bb in enumerate(blocks):
        tt = bb["t"]
        k = tt["k"]
        nx = [tt["t"]] if k == "goto" else ([x for _, x in tt["ts"]] + [tt["o"]]) if k == "switch" else \
            ([tt["t"]] if tt.get("t") is not None else []) + ([tt["u"]] if isinstance(tt.get("u"), int) and tt["u"] >= 0 else []) if k in ("call", "drop", "assert") else []
        for x in nx:
            preds.setdefault(x, []).append(i)
    n = 0
    for si_, S in enumerate(blocks):
        t = S["t"]
        if t["k"] != "switch" or S.get("c") or t.get("dt") == "bool" or len(t["ts"]) != 1 or not S["s"]:
            continue
        d = _operand_local(t["d"])
        last = S["s"][-1]
        if d is None or last.get("k") != "=" or last["p"] != {"l": d} or "discr" not in last["rv"]:
            continue
        kval, A_, B_ = t["ts"][0][0], t["ts"][0][1], t["o"]
        if A_ == B_:
            continue
        arms = []
        for x in (A_, B_):
            X = blocks[x]
            if X.get("c") or preds.get(x) != [si_] or len(X["s"]) != 1 or X["t"]["k"] != "goto":
                arms = None
                break
            st = X["s"][0]
            c = (st.get("rv") or {}).get("use") if st.get("k") == "=" else None
            if not (isinstance(c, dict) and isinstance(c.get("k"), dict) and c["k"].get("ty") == "bool" and c["k"].get("v") in ("0", "1")) or st["p"].get("p"):
                arms = None
                break
            arms.append((st["p"]["l"], c["k"]["v"] == "1", X["t"]["t"]))
        if not arms or arms[0][0] != arms[1][0] or arms[0][2] != arms[1][2] or arms[0][1] == arms[1][1]:
            continue
        b, join = arms[0][0], arms[0][2]
        if rec["locals"][b]["t"] != "bool":
            continue
        op = "Eq" if arms[0][1] else "Ne"
        S["s"].append({"k": "=", "p": {"l": b}, "rv": {"bin": op, "a": copy.deepcopy(t["d"]), "b": {"k": {"ty": t.get("dt") or "isize", "v": kval}}},
                       "l": blocks[A_]["s"][0].get("l"), "x": 0})
        S["t"] = {"k": "goto", "t": join}
        for x in (A_, B_):
            blocks[x] = {"s": [], "t": {"k": "unreachable"}, "c": 1, "dead": 1}
        n += 1
    return n


def recognise_matches(facts):
    fns = []
    for f in facts.fn_list:
        if f.kind == "const":
            continue
        if _matches_fn(f.rec):
            f.refresh()
            fns.append(f.path)
    return ["read %d variant test(s) written as matches!(..) as discriminant comparisons" % len(fns)] if fns else []


# ---------------------------------------------------------------------------------------------------------------------------
# P3: materialised booleans

def _operand_local(o):
    """Local of a bare (projection-free) place operand, else None."""
    if not isinstance(o, dict):
        return None
    for k in ("cp", "mv"):
        if k in o and not o[k].get("p"):
            return o[k]["l"]
    return None


def _count_uses(rec):
    """{local: number of reads} over the whole body (operands, refs, discriminant reads, projections' index locals)."""
    uses = {}

    def pl(p, is_write=False):
        if not is_write or p.get("p"):
            uses[p["l"]] = uses.get(p["l"], 0) + 1
        for e in p.get("p") or []:
            if isinstance(e, dict) and "ix" in e:
                uses[e["ix"]] = uses.get(e["ix"], 0) + 1

    def op(o):
        if isinstance(o, dict):
            for k in ("cp", "mv"):
                if k in o:
                    pl(o[k])
    for bb in rec["blocks"]:
        for st in bb["s"]:
            if "p" in st:
                pl(st["p"], is_write=True)
            rv = st.get("rv") or {}
            for k in ("use", "a", "b", "rep"):
                if k in rv:
                    op(rv[k])
            for k in ("ref", "raw", "discr"):
                if k in rv and isinstance(rv[k], dict):
                    pl(rv[k])
            for o in rv.get("ops", []):
                op(o)
        t = bb["t"]
        if t["k"] == "call":
            for a in t["a"]:
                op(a)
            if "ind" in t["f"]:
                op(t["f"]["ind"])
            pl(t["d"], is_write=True)
        elif t["k"] == "switch":
            op(t["d"])
        elif t["k"] == "drop" and "p" in t:
            pl(t["p"])
        elif t["k"] == "assert":
            op(t["c"])
    return uses


def _thread_fn(rec):
    """Jump threading over single-use boolean locals. Returns the number of threaded edges."""
    blocks = rec["blocks"]
    locs = rec["locals"]
    n_threaded = 0
    for _ in range(8):
        # a test block entered by a single `goto` is one block with its predecessor (a helper spliced in leaves its result in a
        # block of its own: `r = !t; goto J` + `J: c = !r; switch c`)
        allp = {}
        for i, bb in enumerate(blocks):
            if bb.get("dead"):
                continue
            tt = bb["t"]
            k = tt["k"]
            nx = [tt["t"]] if k == "goto" else ([x for _, x in tt["ts"]] + [tt["o"]]) if k == "switch" else \
                ([tt["t"]] if tt.get("t") is not None else []) + ([tt["u"]] if isinstance(tt.get("u"), int) and tt["u"] >= 0 else []) if k in ("call", "drop", "assert") else []
            for x in nx:
                allp.setdefault(x, []).append(i)
        for j, J in enumerate(blocks):
            if J["t"]["k"] != "switch" or J.get("c") or J.get("dead") or j == 0:
                continue
            ps_ = allp.get(j, [])
            if len(ps_) == 1 and ps_[0] != j and blocks[ps_[0]]["t"]["k"] == "goto" and not blocks[ps_[0]].get("c"):
                P = blocks[ps_[0]]
                P["s"].extend(J["s"])
                P["t"] = J["t"]
                blocks[j] = {"s": [], "t": {"k": "unreachable"}, "c": 1, "dead": 1}
        uses = _count_uses(rec)
        preds = {}
        for i, bb in enumerate(blocks):
            if bb["t"]["k"] == "goto":
                preds.setdefault(bb["t"]["t"], []).append(i)
        changed = False
        for j, J in enumerate(blocks):
            t = J["t"]
            if t["k"] != "switch" or J.get("c"):
                continue
            # the forwarding chain: statements of J of the form x = use(y) / x = Not(y) leading to the switch operand
            cur = _operand_local(t["d"])
            if cur is None:
                continue
            chain_ok = True
            neg = False
            for st in reversed(J["s"]):
                if st["k"] != "=" or st["p"].get("p") or st["p"]["l"] != cur:
                    chain_ok = False
                    break
                rv = st["rv"]
                if "use" in rv and _operand_local(rv["use"]) is not None:
                    cur = _operand_local(rv["use"])
                elif rv.get("un") == "Not" and _operand_local(rv["a"]) is not None:
                    cur = _operand_local(rv["a"])
                    neg = not neg
                else:
                    chain_ok = False
                    break
                if uses.get(st["p"]["l"], 0) != 1:
                    chain_ok = False
                    break
            if not chain_ok:
                continue
            c = cur
            if c <= rec["argc"] or locs[c]["t"] != "bool" or uses.get(c, 0) != 1:
                continue
            ps = preds.get(j, [])
            if len(ps) < 2:
                continue
            # every predecessor must end by (re)defining c
            info = []
            for p in ps:
                P = blocks[p]
                if P.get("c"):
                    info = None
                    break
                d = None
                for st in P["s"]:
                    if st["k"] == "=" and st["p"]["l"] == c and not st["p"].get("p"):
                        d = st
                if d is None:
                    info = None
                    break
                rv = d["rv"]
                # a copy of a flag that was set to a constant earlier in the same block is that constant
                for _ in range(3):
                    src = _operand_local(rv["use"]) if "use" in rv else None
                    if src is None:
                        break
                    prev = [st for st in P["s"][:P["s"].index(d)] if st["k"] == "=" and st["p"]["l"] == src and not st["p"].get("p")]
                    if not prev:
                        break
                    d = prev[-1]
                    rv = d["rv"]
                if "use" in rv and isinstance(rv["use"].get("k"), dict) and rv["use"]["k"].get("ty") == "bool":
                    info.append((p, "const", str(rv["use"]["k"].get("v")) not in ("0", "false")))
                elif "bin" in rv or "un" in rv or "use" in rv:
                    info.append((p, "expr", None))
                else:
                    info = None
                    break
            if not info:
                continue
            arms = {str(v): b for v, b in t["ts"]}
            for p, kind, val in info:
                P = blocks[p]
                tail = copy.deepcopy(J["s"])
                tsw = copy.deepcopy(t)
                if kind == "expr" and locs[c].get("n"):
                    # a named flag assigned on several paths stays opaque to provenance; let the cloned test read an anonymous
                    # copy of the very expression assigned here
                    d = [st for st in P["s"] if st["k"] == "=" and st["p"]["l"] == c and not st["p"].get("p")][-1]
                    n = len(locs)
                    locs.append({"t": "bool"})
                    P["s"].insert(P["s"].index(d) + 1, {"k": "=", "p": {"l": n}, "rv": copy.deepcopy(d["rv"]), "l": d.get("l"), "x": 0})
                    holder = {"s": tail, "t": tsw}
                    _rename_local(holder, c, n)
                    tail, tsw = holder["s"], holder["t"]
                P["s"].extend(tail)
                if kind == "const":
                    v = (not val) if neg else val
                    key = "1" if v else "0"
                    P["t"] = {"k": "goto", "t": arms.get(key, t["o"])}
                else:
                    P["t"] = tsw
                n_threaded += 1
            blocks[j] = {"s": [], "t": {"k": "unreachable"}, "c": 1, "dead": 1}
            changed = True
            break
        if not changed:
            break
    # a test whose operand is, within its own block, a (negated) copy of a constant is no test
    before_fold = _reachable(rec)
    n_before = n_threaded
    for J in blocks:
        t = J["t"]
        if t["k"] != "switch" or J.get("dead"):
            continue
        cur = _operand_local(t["d"])
        neg = False
        val = None
        for st in reversed(J["s"]):
            if cur is None:
                break
            if st["k"] != "=" or st["p"].get("p") or st["p"]["l"] != cur:
                continue
            rv = st["rv"]
            if "use" in rv and isinstance(rv["use"].get("k"), dict) and rv["use"]["k"].get("ty") == "bool":
                val = str(rv["use"]["k"].get("v")) not in ("0", "false")
                break
            if "use" in rv and _operand_local(rv["use"]) is not None:
                cur = _operand_local(rv["use"])
            elif rv.get("un") == "Not" and _operand_local(rv["a"]) is not None:
                cur = _operand_local(rv["a"])
                neg = not neg
            else:
                break
        if val is not None:
            v = (not val) if neg else val
            arms = {str(a): b for a, b in t["ts"]}
            J["t"] = {"k": "goto", "t": arms.get("1" if v else "0", t["o"])}
            n_before -= 1
    if n_threaded != n_before:
        _neutralise(rec, before_fold)
        rec["_folded"] = 1
    return n_threaded


def thread_booleans(facts):
    log = []
    for f in facts.fn_list:
        if f.kind == "const":
            continue
        n = _thread_fn(f.rec)
        if n or f.rec.pop("_folded", None):
            f.refresh()
        if n:
            log.append("threaded %d edge(s) over a materialised boolean in %s" % (n, f.path))
    return log


# ---------------------------------------------------------------------------------------------------------------------------
# P4: tuples that exist only to be matched on

def _scalarise_fn(rec):
    """`match (a, b) { (true, false) => .. }` builds a tuple and switches on its fields. Reads of `t.i` of a tuple local that is
    assigned once from single-assignment operands and never used as a whole are replaced by the i-th operand."""
    blocks = rec["blocks"]
    whole_defs = {}
    for bi, bb in enumerate(blocks):
        for si, st in enumerate(bb["s"]):
            if st["k"] == "=" and not st["p"].get("p"):
                whole_defs.setdefault(st["p"]["l"], []).append((bi, si, st))
        t = bb["t"]
        if t["k"] == "call" and not t["d"].get("p"):
            whole_defs.setdefault(t["d"]["l"], []).append((bi, None, t))
    cands = {}
    for l, ds in whole_defs.items():
        if len(ds) != 1 or l <= rec["argc"]:
            continue
        st = ds[0][2]
        agg = st.get("rv", {}).get("agg") if st.get("k") == "=" else None
        if not agg or agg.get("k") != "tuple":
            continue
        ops = st["rv"]["ops"]
        ok = True
        for o in ops:
            if "k" in o:
                continue
            sl = _operand_local(o)
            if sl is None or (sl > rec["argc"] and len(whole_defs.get(sl, [])) != 1) or (sl <= rec["argc"] and whole_defs.get(sl)):
                ok = False
        if ok and ops:
            cands[l] = ops
    if not cands:
        return 0
    # every use must be an operand read of a field projection
    bad = set()

    def visit_place(pl, is_operand, is_def=False):
        l = pl["l"]
        if l in cands and not is_def:
            p = pl.get("p") or []
            if not is_operand or not p or not (isinstance(p[0], dict) and "f" in p[0]) or int(p[0]["f"]) >= len(cands[l]):
                bad.add(l)
        for e in pl.get("p") or []:
            if isinstance(e, dict) and e.get("ix") in cands:
                bad.add(e["ix"])

    def visit_op(o):
        if isinstance(o, dict):
            for k in ("cp", "mv"):
                if k in o:
                    visit_place(o[k], True)
    for bb in blocks:
        for st in bb["s"]:
            if "p" in st:
                visit_place(st["p"], False, is_def=not st["p"].get("p"))
                if st["p"].get("p") and st["p"]["l"] in cands:
                    bad.add(st["p"]["l"])
            rv = st.get("rv") or {}
            for k in ("use", "a", "b", "rep"):
                if k in rv:
                    visit_op(rv[k])
            for k in ("ref", "raw", "discr"):
                if k in rv and isinstance(rv[k], dict):
                    visit_place(rv[k], False)
            for o in rv.get("ops", []):
                visit_op(o)
        t = bb["t"]
        if t["k"] == "call":
            for a in t["a"]:
                visit_op(a)
            if "ind" in t["f"]:
                visit_op(t["f"]["ind"])
            visit_place(t["d"], False, is_def=not t["d"].get("p"))
        elif t["k"] == "switch":
            visit_op(t["d"])
        elif t["k"] == "drop" and "p" in t:
            visit_place(t["p"], False)
        elif t["k"] == "assert":
            visit_op(t["c"])
    n = 0

    def rewrite(o):
        nonlocal n
        if not isinstance(o, dict):
            return o
        for k in ("cp", "mv"):
            if k in o and o[k]["l"] in cands and o[k]["l"] not in bad:
                p = o[k]["p"]
                src = cands[o[k]["l"]][int(p[0]["f"])]
                rest = p[1:]
                n += 1
                if "k" in src:
                    return copy.deepcopy(src) if not rest else o
                sl = _operand_local(src)
                new = {"l": sl}
                if rest:
                    new["p"] = rest
                return {"cp": new}
        return o
    for bb in blocks:
        for st in bb["s"]:
            rv = st.get("rv") or {}
            for k in ("use", "a", "b", "rep"):
                if k in rv:
                    rv[k] = rewrite(rv[k])
            if "ops" in rv:
                rv["ops"] = [rewrite(o) for o in rv["ops"]]
        t = bb["t"]
        if t["k"] == "call":
            t["a"] = [rewrite(a) for a in t["a"]]
        elif t["k"] == "switch":
            t["d"] = rewrite(t["d"])
        elif t["k"] == "assert":
            t["c"] = rewrite(t["c"])
    return n


def scalarise_tuples(facts):
    fns = 0
    reads = 0
    for f in facts.fn_list:
        if f.kind == "const":
            continue
        n = _scalarise_fn(f.rec)
        if n:
            f.refresh()
            fns += 1
            reads += n
    return ["replaced %d read(s) of matched-on tuples by their components in %d function(s)" % (reads, fns)] if fns else []


# ---------------------------------------------------------------------------------------------------------------------------
# P5: hand-written minimum / maximum

def _same_operand(a, b):
    if not isinstance(a, dict) or not isinstance(b, dict):
        return False
    ka, kb = a.get("k"), b.get("k")
    if ka is not None or kb is not None:
        # integer constants are compared by value (the limit appears as u32 in one arm and widened in the comparison)
        return ka is not None and kb is not None and ka.get("v") == kb.get("v") and "v" in ka and ka.get("ty") != "bool"
    pa = a.get("cp") or a.get("mv")
    pb = b.get("cp") or b.get("mv")
    return pa is not None and pb is not None and pa == pb


def _minmax_fn(rec):
    """`if x > y { y } else { x }` and `if x > y { x = y }` become `min(x, y)` (likewise max): the comparison's strictness and
    which arm is written first carry no meaning, the selected value does."""
    blocks = rec["blocks"]
    n = 0
    defs = {}
    for bb in blocks:
        for st in bb["s"]:
            if st["k"] == "=" and not st["p"].get("p"):
                defs.setdefault(st["p"]["l"], []).append(st)
        if bb["t"]["k"] == "call" and not bb["t"]["d"].get("p"):
            defs.setdefault(bb["t"]["d"]["l"], []).append(bb["t"])

    def root(o):
        """Follow single-definition temporaries that merely copy another operand."""
        for _ in range(5):
            l = _operand_local(o)
            if l is None or l <= rec["argc"] or rec["locals"][l].get("n"):
                return o
            ds = defs.get(l, [])
            if len(ds) == 1 and ds[0].get("k") == "call" and len(ds[0].get("a") or []) == 1 and \
                    re.search(r"From<[ui](8|16|32|64|128|size)>(>| for [ui](8|16|32|64|128|size)>)::from$", ds[0]["f"].get("p") or ""):
                a0 = ds[0]["a"][0]
                if isinstance(a0, dict) and "k" in a0:
                    return a0       # `u128::from(LIMIT)`: a widened constant is that constant
                o = a0
                continue
            if len(ds) != 1 or ds[0].get("k") != "=":
                return o
            rv = ds[0]["rv"]
            if "use" in rv:
                o = rv["use"]
            elif rv.get("cast") == "int" and isinstance(rv["a"], dict) and "k" in rv["a"]:
                return rv["a"]      # a widened constant is that constant
            else:
                return o
        return o

    def same(a, b):
        return _same_operand(root(a), root(b))
    for bi, B in enumerate(blocks):
        t = B["t"]
        if t["k"] != "switch" or t.get("dt") != "bool" or B.get("c") or not B["s"]:
            continue
        c = _operand_local(t["d"])
        st = B["s"][-1]
        if c is None or st["k"] != "=" or st["p"].get("p") or st["p"]["l"] != c or st["rv"].get("bin") not in ("Gt", "Ge", "Lt", "Le"):
            continue
        op, x, y = st["rv"]["bin"], st["rv"]["a"], st["rv"]["b"]
        arms = {str(v): b for v, b in t["ts"]}
        f_blk = arms.get("0", t["o"])
        t_blk = t["o"] if "0" in arms else arms.get("1")
        if t_blk is None or f_blk is None or t_blk == f_blk:
            continue

        casted = []

        def arm(b):
            """(dest place, source operand, join) when block b is `d = use(op); goto j` or `[t = use(op);] d = t as T; goto j`."""
            bb = blocks[b]
            if bb.get("c") or bb["t"]["k"] != "goto" or not (1 <= len(bb["s"]) <= 2):
                return None
            s0 = bb["s"][-1]
            if s0["k"] != "=":
                return None
            if "use" in s0["rv"]:
                src = s0["rv"]["use"]
            elif s0["rv"].get("cast") == "int":
                src = s0["rv"]["a"]
                casted.append(s0["rv"]["ty"])
            else:
                return None
            if len(bb["s"]) == 2:
                s1 = bb["s"][0]
                if s1["k"] != "=" or "use" not in s1["rv"] or s1["p"].get("p") or _operand_local(src) != s1["p"]["l"]:
                    return None
                src = s1["rv"]["use"]
            return s0["p"], src, bb["t"]["t"]
        at, af = arm(t_blk), arm(f_blk)
        kind = None
        if at and af and at[0] == af[0] and at[2] == af[2]:
            dest, join = at[0], at[2]
            vt, vf = at[1], af[1]
        elif at and at[2] == f_blk and not at[0].get("p"):
            # triangle: true arm overwrites d, false arm keeps it; d must be one of the compared operands
            dest, join = at[0], f_blk
            vt = at[1]
            vf = {"cp": dict(dest)}
        elif af and af[2] == t_blk and not af[0].get("p"):
            dest, join = af[0], t_blk
            vf = af[1]
            vt = {"cp": dict(dest)}
        else:
            continue
        # which of (x, y) does each arm select?
        def which(v):
            if same(v, x):
                return "x"
            if same(v, y):
                return "y"
            return None
        wt, wf = which(vt), which(vf)
        if not wt or not wf or wt == wf:
            continue
        greater_true = op in ("Gt", "Ge")      # true arm taken when x is the larger one
        if greater_true:
            kind = "min" if (wt == "y" and wf == "x") else "max"
        else:
            kind = "min" if (wt == "x" and wf == "y") else "max"
        ty = rec["locals"][dest["l"]]["t"] if not dest.get("p") else None
        if ty is None or ty not in ("u8", "u16", "u32", "u64", "u128", "usize", "i8", "i16", "i32", "i64", "i128", "isize"):
            continue
        B["s"].pop()
        if casted:
            # the selection happens in the wide type, the result is narrowed afterwards: d = min(x, y) as T
            xl = _operand_local(x)
            wty = rec["locals"][xl]["t"] if xl is not None else None
            if wty is None:
                B["s"].append(st)
                continue
            m = len(rec["locals"])
            rec["locals"].append({"t": wty})
            nb = len(blocks)
            blocks.append({"s": [{"k": "=", "p": copy.deepcopy(dest), "rv": {"cast": "int", "a": {"mv": {"l": m}}, "ty": ty}, "l": t.get("l"), "x": 0}],
                           "t": {"k": "goto", "t": join}, "c": 0})
            B["t"] = {"k": "call", "f": {"p": "std::cmp::Ord::%s" % kind, "ga": wty}, "a": [copy.deepcopy(x), copy.deepcopy(y)], "d": {"l": m}, "t": nb, "u": -1,
                      "l": t.get("l"), "x": 0}
        else:
            B["t"] = {"k": "call", "f": {"p": "std::cmp::Ord::%s" % kind, "ga": ty}, "a": [copy.deepcopy(x), copy.deepcopy(y)], "d": copy.deepcopy(dest), "t": join, "u": -1,
                      "l": t.get("l"), "x": 0}
        n += 1
    return n


def recognise_minmax(facts):
    log = []
    for f in facts.fn_list:
        if f.kind == "const" or f.expn:
            continue
        before = _reachable(f.rec)
        n = _minmax_fn(f.rec)
        if n:
            _neutralise(f.rec, before)
            f.refresh()
            log.append("read %d hand-written minimum / maximum selection(s) as min / max in %s" % (n, f.path))
    return log
