"""Dispatch table of the program: the 66 Anchor entries and the Pinocchio routes."""
import re
from .ir import callee_path, AnchorMissing
from .prov import prov_of


class Entry:
    def __init__(self, name, fn, ctx_struct, handler, routed):
        self.name = name
        self.fn = fn
        self.ctx_struct = ctx_struct      # path of the accounts struct
        self.handler = handler            # Anchor handler path or None (unreachable stub)
        self.routed = routed              # Pinocchio handler path or None


def snake(name):
    s = re.sub(r"(?<!^)(?=[A-Z])", "_", name).lower()
    return re.sub(r"_v_?2$", "_v2", s.replace("v2", "_v2").replace("__", "_"))


def routes(facts):
    """[(instruction type path, pinocchio handler path)] from entrypoint::PINOCCHIO_INSTRUCTIONS."""
    c = None
    for k, f in facts.fns.items():
        if k.startswith("const ") and k.endswith("PINOCCHIO_INSTRUCTIONS"):
            c = f
    if c is None:
        raise AnchorMissing("entrypoint::PINOCCHIO_INSTRUCTIONS const not found")
    pv = prov_of(c)
    out = []
    for bi, bb in enumerate(c.blocks):
        if bb["t"]["k"] == "ret":
            t = pv.local(0, bi, len(bb["s"]))
            if t[0] != "array":
                raise AnchorMissing("PINOCCHIO_INSTRUCTIONS is not an array literal")
            for item in t[1]:
                if item[0] != "tuple" or len(item[1]) != 2:
                    raise AnchorMissing("route entry is not a (discriminator, handler) tuple")
                d, h = item[1]
                if d[0] != "const" or not d[2] or "<" not in d[2]:
                    raise AnchorMissing("route discriminator is not <T as Discriminator>::DISCRIMINATOR")
                ity = d[2][d[2].index("<") + 1:-1]
                if h[0] != "fn":
                    raise AnchorMissing("route handler is not a function item")
                out.append((ity, h[1], d[2].split("<")[0]))
    return out


def entries(facts):
    if hasattr(facts, "_entries"):
        return facts._entries
    rts = {}
    for ity, h, _ in routes(facts):
        rts[snake(ity.rsplit("::", 1)[-1])] = h
    out = []
    for f in facts.fn_list:
        if f.kind == "fn" and f.path.startswith("whirlpool::") and f.path.count("::") == 1 and f.sig and f.sig["in"] \
                and "anchor_lang::context::Context<" in f.sig["in"][0]:
            m = re.search(r"Context<(?:'\w+, )*([A-Za-z0-9_:]+)", f.sig["in"][0])
            ctx_struct = m.group(1) if m else None
            handlers = [callee_path(t) for _, t in f.calls() if (callee_path(t) or "").startswith("instructions::")]
            handler = handlers[0] if handlers else None
            out.append(Entry(f.name, f, ctx_struct, handler, rts.get(f.name)))
    facts._entries = out
    return out
