"""E8: Anchor accounts constraints, parsed from the expanded-AST attribute text,
cross-counted against the macro-generated try_accounts MIR."""
import re
from .ir import callee_path, op_const

WRAPPERS = ("Box",)


class Field:
    def __init__(self, rec):
        self.name = rec["name"]
        self.ty_raw = rec["ty"]
        self.line = rec["line"]
        self.attrs = rec["attrs"]
        ty = re.sub(r"'\w+\s*,?\s*", "", rec["ty"]).replace(" ", "")
        while True:
            m = re.match(r"^Box<(.*)>$", ty)
            if not m:
                break
            ty = m.group(1)
        self.ty = ty
        m = re.match(r"^(\w+)(?:<(.*)>)?$", ty)
        self.kind = m.group(1) if m else ty
        self.inner = m.group(2) if m and m.group(2) else None
        self.items = []
        for at in self.attrs:
            if at.startswith("#[account("):
                body = " ".join(at[len("#[account("):-2].split())
                self.items.extend(_split_items(body))
        self.cons = [_parse_item(it) for it in self.items]

    # convenience -------------------------------------------------------
    def has_flag(self, flag):
        return any(c["key"] == flag and c["expr"] is None for c in self.cons)

    def values(self, key):
        return [c["expr"] for c in self.cons if c["key"] == key and c["expr"] is not None]

    @property
    def is_signer(self):
        return self.kind == "Signer" or self.has_flag("signer")

    @property
    def is_mut(self):
        return self.has_flag("mut") or self.has_flag("init") or self.has_flag("zero") or any(c["key"] == "close" for c in self.cons)

    def describe(self):
        return "%s: %s %s" % (self.name, self.ty, " ".join("[%s]" % i for i in self.items))


def _split_items(body):
    items, depth, cur = [], 0, ""
    for ch in body:
        if ch in "([{":
            depth += 1
        elif ch in ")]}":
            depth -= 1
        if ch == "," and depth == 0:
            if cur.strip():
                items.append(cur.strip())
            cur = ""
        else:
            cur += ch
    if cur.strip():
        items.append(cur.strip())
    return items


def _parse_item(it):
    m = re.match(r"^([A-Za-z_][A-Za-z_0-9:]*)\s*=(?!=)\s*(.*)$", it, re.S)
    if not m:
        return {"key": it.strip(), "expr": None, "err": None, "text": it}
    key, rest = m.group(1), m.group(2)
    err = None
    # `@ error` at depth 0
    depth = 0
    cut = None
    for i, ch in enumerate(rest):
        if ch in "([{":
            depth += 1
        elif ch in ")]}":
            depth -= 1
        elif ch == "@" and depth == 0:
            cut = i
            break
    if cut is not None:
        err = rest[cut + 1:].strip()
        rest = rest[:cut].strip()
    return {"key": key, "expr": norm_expr(rest), "err": err, "text": it}


def norm_expr(e):
    e = "".join(e.split())
    return canon_eq(e)


def canon_eq(e):
    """`a == b` and `b == a` are one constraint: a lone top-level equality / inequality is written with its operands in
    lexicographic order (same for the expected strings of the rules, which pass through here too)."""
    depth = 0
    pos = []
    i = 0
    while i < len(e):
        ch = e[i]
        if ch in "([{":
            depth += 1
        elif ch in ")]}":
            depth -= 1
        elif depth == 0 and e[i:i + 2] in ("==", "!=") and (i == 0 or e[i - 1] not in "<>=!") :
            pos.append(i)
            i += 1
        elif depth == 0 and (e[i:i + 2] in ("&&", "||", "<=", ">=") or (ch in "<>" and e[i:i + 2] not in ("->",) and e[i - 1:i] != "-")):
            return e
        i += 1
    if len(pos) != 1:
        return e
    a, op, b = e[:pos[0]], e[pos[0]:pos[0] + 2], e[pos[0] + 2:]
    if not a or not b or a.startswith("!"):
        return e
    import re as _re
    lit = lambda x: bool(_re.fullmatch(r"[0-9_]+(?:[iu](?:8|16|32|64|128|size))?|true|false", x))
    if lit(b):
        return e
    if lit(a):
        return b + op + a       # the literal on the right
    return e if a <= b else b + op + a


def canon_cons(s):
    """The same for a `key=expr` string."""
    if "=" in s and not s.startswith("="):
        k, _, v = s.partition("=")
        if v and not v.startswith("="):
            return k + "=" + canon_eq(v)
    return s


class AccountsStruct:
    def __init__(self, rec):
        self.rec = rec
        self.path = rec["path"]
        self.name = rec["name"]
        self.file = rec["file"]
        self.line = rec["line"]
        self.fields = [Field(f) for f in rec["fields"]]
        self.by_name = {f.name: f for f in self.fields}
        self.instruction_args = []
        for a in rec["attrs"]:
            if a.startswith("#[instruction("):
                body = a[len("#[instruction("):-2]
                for it in _split_items(" ".join(body.split())):
                    self.instruction_args.append(it.split(":")[0].strip())

    def field(self, name):
        return self.by_name.get(name)

    def loc(self, field=None):
        if field is not None and field in self.by_name:
            return "%s:%d" % (self.file, self.by_name[field].line)
        return "%s:%d" % (self.file, self.line)

    # linkage graph: which accounts are tied together by constraints
    def links(self):
        """Edges (a, b, why) between field names established by has_one, address/constraint
        equalities that mention another account, and seeds mentioning another account's key."""
        edges = []
        names = set(self.by_name)
        for f in self.fields:
            for c in f.cons:
                if c["key"] == "has_one" and c["expr"] in names:
                    edges.append((f.name, c["expr"], "has_one"))
                elif c["key"] in ("address", "constraint", "seeds", "token::mint", "token::authority",
                                  "associated_token::mint", "associated_token::authority", "mint::authority", "owner"):
                    for other in names:
                        if other != f.name and re.search(r"(?<![A-Za-z0-9_])%s(?![A-Za-z0-9_])" % re.escape(other), c["expr"] or ""):
                            edges.append((f.name, other, c["key"]))
        return edges

    # composite keys: account type pairs that are tied by several attribute equalities which only together identify the
    # account (an AdaptiveFeeTier / FeeTier PDA is [config, fee_tier_index]; a pool records exactly that pair)
    COMPOSITE = {
        ("AdaptiveFeeTier", "Whirlpool"): [("whirlpools_config", "whirlpools_config"), ("fee_tier_index", "fee_tier_index()")],
        ("FeeTier", "Whirlpool"): [("whirlpools_config", "whirlpools_config"), ("fee_tier_index", "fee_tier_index()")],
    }

    def strong_links(self):
        """Edges that pin one account given the other: has_one, address = <acc>.<field>, seeds with <acc>.key(), an equality
        between one account's key and a field of another, token::mint / token::authority = <acc>, and the composite keys above.
        An equality between two plain attributes (`a.tick_spacing == b.tick_spacing`) ties a property, not an identity."""
        edges = []
        names = set(self.by_name)

        def acc_of(expr):
            m = re.match(r"^\*?&?([A-Za-z_0-9]+)(?:\.|$)", expr or "")
            return m.group(1) if m and m.group(1) in names else None

        def is_key(expr, a):
            return re.fullmatch(r"\*?&?%s(\.key\(\)|\.key|\.to_account_info\(\)\.key\(\)|\.to_account_info\(\)\.key)?" % re.escape(a), expr or "") is not None
        for f in self.fields:
            weak = {}
            for c in f.cons:
                e = (c["expr"] or "").replace(" ", "")
                if c["key"] == "has_one" and e in names:
                    edges.append((f.name, e, "has_one"))
                elif c["key"] in ("address", "token::mint", "token::authority", "associated_token::mint", "associated_token::authority", "mint::authority"):
                    o = acc_of(e)
                    if o and o != f.name:
                        edges.append((f.name, o, c["key"]))
                elif c["key"] == "seeds":
                    for other in names:
                        if other != f.name and re.search(r"(?<![A-Za-z0-9_])%s\.key\(\)" % re.escape(other), e):
                            edges.append((f.name, other, "seeds"))
                elif c["key"] == "constraint" and "==" in e and "||" not in e and "&&" not in e:
                    l, r = e.split("==", 1)
                    la, ra = acc_of(l), acc_of(r)
                    if la and ra and la != ra:
                        if is_key(l, la) or is_key(r, ra):
                            edges.append((la, ra, "constraint"))
                        else:
                            weak.setdefault(frozenset((la, ra)), []).append((l, r))
            for pair, eqs in weak.items():
                a, b = sorted(pair)
                for (x, y) in ((a, b), (b, a)):
                    fx, fy = self.by_name[x], self.by_name[y]
                    need = self.COMPOSITE.get((fx.inner, fy.inner))
                    if need:
                        have = set()
                        for l, r in eqs:
                            for (p, q) in ((l, r), (r, l)):
                                if p.startswith(x + ".") and q.startswith(y + "."):
                                    have.add((p[len(x) + 1:], q[len(y) + 1:]))
                        if all(n in have for n in need):
                            edges.append((x, y, "composite-key"))
        return edges

    def identified(self, a, b):
        """Is account b pinned by account a (or vice versa) through a chain of strong links?"""
        adj = {}
        for x, y, _ in self.strong_links():
            adj.setdefault(x, set()).add(y)
            adj.setdefault(y, set()).add(x)
        seen = {a}
        work = [a]
        while work:
            x = work.pop()
            if x == b:
                return True
            for y in adj.get(x, ()):
                if y not in seen:
                    seen.add(y)
                    work.append(y)
        return a == b

    def linked(self, a, b):
        """Is there a path between accounts a and b in the linkage graph?"""
        adj = {}
        for x, y, _ in self.links():
            adj.setdefault(x, set()).add(y)
            adj.setdefault(y, set()).add(x)
        seen = {a}
        work = [a]
        while work:
            x = work.pop()
            if x == b:
                return True
            for y in adj.get(x, ()):
                if y not in seen:
                    seen.add(y)
                    work.append(y)
        return a == b


def load(facts):
    if not hasattr(facts, "_acc_structs"):
        facts._acc_structs = {p: AccountsStruct(r) for p, r in facts.accounts.items()}
    return facts._acc_structs


def by_name(facts, name):
    out = [s for s in load(facts).values() if s.name == name]
    return out[0] if len(out) == 1 else None


ERR_OF_KEY = {
    "has_one": "ConstraintHasOne",
    "address": "ConstraintAddress",
    "constraint": "ConstraintRaw",
    "seeds": "ConstraintSeeds",
    "mut": "ConstraintMut",
    "close": "ConstraintClose",
    "owner": "ConstraintOwner",
    "token::mint": "ConstraintTokenMint",
    "token::authority": "ConstraintTokenOwner",
}


def compiled_constraints(facts, struct):
    """Count (field, anchor ErrorCode variant) constructions in the generated try_accounts
    of `struct`: what the macro actually compiled for each attribute."""
    fn = None
    for f in facts.fn_list:
        if f.kind != "const" and f.trait == "anchor_lang::Accounts" and f.name == "try_accounts" and f.self_ty and \
                (f.self_ty.startswith(struct.path + "<") or f.self_ty == struct.path):
            fn = f
    if fn is None:
        return None
    counts = {}
    # pattern: `_x = ErrorCode::Variant` ... `with_account_name(.., const "<field>")` further down the same error path
    pending = {}
    succ = fn.succ()
    for bi, bb in enumerate(fn.blocks):
        variant = None
        for st in bb["s"]:
            if st["k"] == "=":
                agg = st["rv"].get("agg")
                if agg and agg["k"] == "adt" and agg["adt"] == "anchor_lang::error::ErrorCode":
                    variant = agg["v"]
        if variant is None:
            continue
        # walk forward to the with_account_name call
        seen = set()
        work = [bi]
        name = None
        steps = 0
        while work and name is None and steps < 40:
            b = work.pop()
            if b in seen:
                continue
            seen.add(b)
            steps += 1
            t = fn.blocks[b]["t"]
            if t["k"] == "call" and (callee_path(t) or "").endswith("with_account_name"):
                for a in t["a"]:
                    k = op_const(a)
                    if k and "str" in k:
                        name = k["str"]
            for s in succ[b]:
                work.append(s)
        if name is not None:
            counts[(name, variant)] = counts.get((name, variant), 0) + 1
    return counts
