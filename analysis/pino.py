"""Pinocchio handler model: account slots (n-th AccountIterator::next_* call) and
canonicalisation of memory-mapped accessors to fields of loaded accounts."""
from . import cfg
from .ir import callee_path, AnchorMissing
from .prov import prov_of, strip

ITER = "pinocchio::utils::account_info_iter::AccountIterator::<'a>::"
LABELS = ("next", "next_mut", "next_signer", "next_signer_mut", "next_program_memo", "next_program_token",
          "next_program_token_or_token_2022", "next_program_system")


class Slot:
    def __init__(self, index, method, block, name, line):
        self.index = index
        self.method = method
        self.block = block
        self.name = name
        self.line = line

    def __repr__(self):
        return "slot%d:%s(%s)" % (self.index, self.name, self.method)


def slots(fn):
    """Account slots of a Pinocchio handler in order. Requires the next_* calls to be
    totally ordered by dominance (a straight-line labelling prologue)."""
    key = "pino_slots"
    if key in fn._cache:
        return fn._cache[key]
    calls = []
    for bi, t in fn.calls():
        p = callee_path(t) or ""
        if p.startswith(ITER) and p[len(ITER):] in LABELS:
            calls.append((bi, p[len(ITER):], t))
    # order by dominance
    def before(a, b):
        return cfg.dominates(fn, a, b)
    ordered = []
    for c in calls:
        pos = 0
        for i, o in enumerate(ordered):
            if before(o[0], c[0]):
                pos = i + 1
        ordered.insert(pos, c)
    for i in range(len(ordered) - 1):
        if not before(ordered[i][0], ordered[i + 1][0]):
            raise AnchorMissing("account labelling calls in %s are not a straight-line sequence" % fn.path)
    out = []
    for i, (bi, m, t) in enumerate(ordered):
        # the named local that finally receives this slot (`let whirlpool_info = iter.next_mut()?;`)
        name = _slot_name(fn, bi, t)
        out.append(Slot(i, m, bi, name, t["l"]))
    fn._cache[key] = out
    return out


def _slot_name(fn, bi, t):
    pv = prov_of(fn)
    want = None
    for l in range(fn.argc + 1, len(fn.locals)):
        n = fn.locals[l].get("n")
        if not n:
            continue
        for d in pv.defs.get(l, []):
            if d[2] is None:
                term = pv._site(d, 0)
                s = strip(term)
                if s[0] == "call" and len(s) > 3 and s[3] == bi and n not in ("val", "residual", "e", "v"):
                    want = n
    return want or ("slot@bb%d" % bi)


def slot_of_term(fn, t):
    """Slot object if the term is the n-th labelled account, else None."""
    s = strip(t)
    if s[0] == "call" and len(s) > 3 and s[1].startswith(ITER):
        for sl in slots(fn):
            if sl.block == s[3]:
                return sl
    return None


LOADERS = ("pinocchio::utils::account_load::load_account_mut", "pinocchio::utils::account_load::load_account",
           "pinocchio::utils::account_load::load_token_program_account")


def canon(fn, t):
    """Rewrite a PROV term of a Pinocchio handler:
         next_*#k(iter)?                  -> ('slot', name)
         load_account*(slot)?             -> ('acct', name)
         MemoryMappedX::field(acct)       -> ('field', ('acct', name), field)
    """
    if not isinstance(t, tuple) or not t:
        return t
    k = t[0]
    if k in ("q", "cast"):
        inner = canon(fn, t[1])
        if inner[0] in ("slot", "acct"):
            return inner
        return (k, inner) + t[2:]
    if k == "call":
        sl = slot_of_term(fn, t)
        if sl is not None:
            return ("slot", sl.name, sl.index)
        args = tuple(canon(fn, a) for a in t[2])
        if t[1] in LOADERS and len(args) == 1 and args[0][0] == "slot":
            return ("acct", args[0][1], args[0][2])
        if "::MemoryMapped" in t[1] and len(args) == 1 and t[1].startswith("pinocchio::state::"):
            return ("field", args[0], t[1].rsplit("::", 1)[-1])
        return ("call", t[1], args) + t[3:]
    if k == "field":
        return ("field", canon(fn, t[1]), t[2])
    if k == "phi":
        return ("phi", frozenset(canon(fn, x) for x in t[1]))
    if k in ("bin",):
        return (k, t[1], canon(fn, t[2]), canon(fn, t[3]))
    if k in ("un",):
        return (k, t[1], canon(fn, t[2]))
    if k in ("tuple", "array"):
        return (k, tuple(canon(fn, x) for x in t[1]))
    if k == "agg":
        return (k, t[1], t[2], tuple((n, canon(fn, x)) for n, x in t[3]))
    if k in ("index",):
        return (k, canon(fn, t[1]), canon(fn, t[2]))
    if k in ("payload", "variant"):
        return (k, canon(fn, t[1]), t[2])
    if k in ("discr", "len", "trybranch"):
        return (k, canon(fn, t[1]))
    return t


def cshow(t):
    """Compact printer for canonical Pinocchio terms."""
    from .prov import show
    k = t[0]
    if k == "slot":
        return t[1]
    if k == "acct":
        return "*" + t[1]
    if k == "field":
        return "%s.%s" % (cshow(t[1]), t[2])
    if k == "call":
        return "%s(%s)" % (t[1].rsplit("::", 1)[-1], ", ".join(cshow(a) for a in t[2]))
    if k == "q":
        return cshow(t[1]) + "?"
    if k == "cast":
        return cshow(t[1])
    if k == "bin":
        return "(%s %s %s)" % (cshow(t[2]), t[1], cshow(t[3]))
    if k == "phi":
        return "phi{%s}" % " | ".join(sorted(cshow(x) for x in t[1]))
    return show(t)
