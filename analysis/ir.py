"""Fact loader and basic MIR helpers.

Facts are produced by driver/ (wpfacts). Nothing here executes repository code.
"""
import json
import os
from functools import lru_cache


class Fn:
    __slots__ = ("rec", "path", "name", "file", "line", "locals", "argc", "blocks", "sig",
                 "self_ty", "trait", "kind", "promoted", "generic", "pub", "expn",
                 "_succ", "_pred", "_defs", "_cache", "facts")

    def __init__(self, rec, facts):
        self.rec = rec
        self.facts = facts
        self.path = rec["path"]
        self.name = rec.get("name", "")
        self.file = rec["file"]
        self.line = rec["line"]
        self.locals = rec["locals"]
        self.argc = rec["argc"]
        self.blocks = rec["blocks"]
        self.sig = rec.get("sig")
        self.self_ty = rec.get("self")
        self.trait = rec.get("trait")
        self.kind = rec["kind"]
        self.promoted = rec.get("promoted", [])
        self.generic = rec.get("generic", False)
        self.pub = rec.get("pub", False)
        self.expn = rec.get("x", 0)
        self._succ = None
        self._pred = None
        self._defs = None
        self._cache = {}

    def __repr__(self):
        return "<Fn %s>" % self.path

    def refresh(self):
        """Re-read the record after a canonicalisation pass rewrote it."""
        self.locals = self.rec["locals"]
        self.blocks = self.rec["blocks"]
        self.promoted = self.rec.get("promoted", [])
        self._succ = self._pred = self._defs = None
        self._cache = {}

    def promoted_fn(self, i):
        key = ("promoted", i)
        if key not in self._cache:
            rec = dict(self.promoted[i])
            rec.update(path="%s::promoted[%d]" % (self.path, i), kind="promoted", file=self.file, line=self.line)
            self._cache[key] = Fn(rec, self.facts)
        return self._cache[key]

    # ---- locals -------------------------------------------------------
    def local_name(self, l):
        return self.locals[l].get("n")

    def local_ty(self, l):
        return self.locals[l]["t"]

    def param_index(self, name):
        for i in range(1, self.argc + 1):
            if self.locals[i].get("n") == name:
                return i
        return None

    def param_names(self):
        return [self.locals[i].get("n") for i in range(1, self.argc + 1)]

    def loc(self, line=None):
        return "%s:%s" % (self.file, line if line else self.line)

    # ---- CFG ----------------------------------------------------------
    def succ(self):
        """Normal (non-unwind) successors per block."""
        if self._succ is None:
            s = []
            for bb in self.blocks:
                t = bb["t"]
                k = t["k"]
                if k == "goto":
                    s.append([t["t"]])
                elif k == "switch":
                    out = []
                    for v, b in t["ts"]:
                        if b not in out:
                            out.append(b)
                    if t["o"] not in out:
                        out.append(t["o"])
                    s.append(out)
                elif k == "call":
                    s.append([t["t"]] if t["t"] is not None else [])
                elif k in ("drop", "assert"):
                    s.append([t["t"]])
                else:
                    s.append([])
            self._succ = s
        return self._succ

    def pred(self):
        if self._pred is None:
            p = [[] for _ in self.blocks]
            for i, ss in enumerate(self.succ()):
                for j in ss:
                    p[j].append(i)
            self._pred = p
        return self._pred

    def calls(self):
        """Yield (block index, terminator) for each call."""
        for i, bb in enumerate(self.blocks):
            if bb["t"]["k"] in ("call", "tailcall"):
                yield i, bb["t"]

    def callee_paths(self):
        out = []
        for _, t in self.calls():
            f = t["f"]
            if "p" in f:
                out.append(f["p"])
        return out


def callee_path(term):
    return term["f"].get("p")


def callee_raw(term):
    f = term["f"]
    return f.get("raw", f.get("p"))


def op_place(op):
    if "cp" in op:
        return op["cp"]
    if "mv" in op:
        return op["mv"]
    return None


def op_const(op):
    return op.get("k")


def const_int(k, signed_hint=None):
    """Integer value of a scalar constant operand; interprets signed types."""
    if k is None or "v" not in k:
        return None
    v = int(k["v"])
    ty = k.get("ty", "")
    bits = {"i8": 8, "i16": 16, "i32": 32, "i64": 64, "i128": 128, "isize": 64}.get(ty)
    if bits and v >= 1 << (bits - 1):
        v -= 1 << bits
    return v


class Facts:
    def __init__(self, directory):
        self.dir = directory
        self.meta = json.load(open(os.path.join(directory, "meta.json")))
        self.crate = self.meta.get("crate", os.path.basename(directory.rstrip("/")))
        self.canon_log = []
        self.no_inline = set()
        texts = {}
        for name in ("mir.jsonl", "adts.json", "consts.json", "impls.json", "accounts.json"):
            p = os.path.join(directory, name)
            texts[name] = open(p).read() if os.path.exists(p) else None
        self._parse(texts)
        if not os.environ.get("VERIF_NO_CANON"):
            from . import canon
            # P1: items that merely moved / were renamed are analysed under their reference path
            amap = canon.alias_map(self.crate,
                                   {f.path: ([f.locals[i].get("t") for i in range(1, f.argc + 1)], f.locals[0]["t"], f.kind, canon.literal_fingerprint(f.rec))
                                    for f in self.fn_list if f.kind != "const"},
                                   {p: (a.get("kind"), [x["name"] for x in (a.get("fields") if "fields" in a else a.get("variants", []))])
                                    for p, a in self.adts.items() if a.get("file")},
                                   {p: {"v": c.get("v"), "ty": c.get("ty")} for p, c in self.consts.items() if "v" in c})
            if amap:
                texts = {k: (canon.apply_aliases_text(v, amap) if v is not None else None) for k, v in texts.items()}
                self._parse(texts)
                for new, old in sorted(amap.items()):
                    self.canon_log.append("moved/renamed: %s is analysed as %s" % (new, old))
            # P1b: two copies of one function merged into one: the removed copy's anchor reads the survivor
            for gone, kept in sorted(canon.merged_duplicates(self, self.crate, set(amap.values())).items()):
                self.fns[gone] = self.fns[kept]
                self.canon_log.append("merged duplicate: %s no longer exists, its callers use %s, which is analysed in its place" % (gone, kept))
            # P2: functions the reference tree does not have are spliced into their callers
            self.canon_log += canon.inline_new_functions(self, self.crate)
            # P2b: a local `From` impl used where the reference copies field by field is read in place, and a whole-value
            # store of a struct literal as the stores of its fields
            self.canon_log += canon.inline_conversions(self, self.crate)
            self.canon_log += canon.scalarise_whole_stores(self)
            # P2c: matches!(x, V(..)) is the comparison discriminant(x) == V
            self.canon_log += canon.recognise_matches(self)
            # P5: hand-written `if a > b { b } else { a }` is read as min(a, b)
            self.canon_log += canon.recognise_minmax(self)
            # P4: tuples built only to be matched on are replaced by their components
            self.canon_log += canon.scalarise_tuples(self)
            # P3: materialised booleans are threaded back into control flow
            self.canon_log += canon.thread_booleans(self)
        self._callers = None
        self._by_name = None
        self._canonical_param_names()

    def _parse(self, texts):
        self.fns = {}
        self.fn_list = []
        for line in texts["mir.jsonl"].splitlines():
            if not line:
                continue
            rec = json.loads(line)
            f = Fn(rec, self)
            # consts also carry bodies; key them separately to avoid clashes
            key = rec["path"] if rec["kind"] != "const" else "const " + rec["path"]
            self.fns[key] = f
            self.fn_list.append(f)
        self.adts = {a["path"]: a for a in json.loads(texts["adts.json"])}
        self.consts = {}
        for c in json.loads(texts["consts.json"]):
            self.consts[c["path"]] = c
        self.impls = json.loads(texts["impls.json"])
        self.accounts = {a["path"]: a for a in json.loads(texts["accounts.json"])} if texts.get("accounts.json") else {}

    def remove_fn(self, f):
        self.fn_list = [g for g in self.fn_list if g is not f]
        self.fns = {k: g for k, g in self.fns.items() if g is not f}
        self._callers = None
        self._by_name = None

    def _canonical_param_names(self):
        """The rules name parameters as they are spelled on the reference tree (specs/signatures.json, generated by
        tools/gen_signatures.py). A function whose parameters were merely renamed - same path, same arity, same types in the
        same positions - is analysed under the reference names, so that a parameter rename is not reported as a change."""
        verif = os.path.dirname(os.path.dirname(os.path.abspath(__file__)))
        sp = os.path.join(verif, "specs", "signatures.json")
        self.renamed_params = {}
        if not os.path.exists(sp):
            return
        try:
            table = json.load(open(sp)).get(self.meta.get("crate", os.path.basename(self.dir.rstrip("/"))), {})
        except Exception:
            return
        for f in self.fn_list:
            if f.kind == "const":
                continue
            ref = table.get(f.path)
            if not ref or len(ref) != f.argc:
                continue
            cur = [(f.locals[i].get("n"), f.locals[i].get("t")) for i in range(1, f.argc + 1)]
            if [t for _, t in cur] != [t for _, t in ref]:
                continue
            if [n for n, _ in cur] == [n for n, _ in ref]:
                continue
            if len({n for n, _ in ref}) != len(ref):
                continue
            for i, (rn, _) in enumerate(ref, 1):
                if rn and f.locals[i].get("n") and f.locals[i]["n"] != rn:
                    self.renamed_params[(f.path, rn)] = f.locals[i]["n"]
                    f.locals[i]["n"] = rn

    # ---- lookup -------------------------------------------------------
    def fn(self, path):
        return self.fns.get(path)

    def need_fn(self, path):
        f = self.fns.get(path)
        if f is None:
            raise AnchorMissing("function %s not found in facts" % path)
        return f

    def fns_matching(self, pred):
        return [f for f in self.fn_list if f.kind != "const" and pred(f)]

    def by_name(self, name):
        if self._by_name is None:
            d = {}
            for f in self.fn_list:
                if f.kind == "const":
                    continue
                d.setdefault(f.name, []).append(f)
            self._by_name = d
        return self._by_name.get(name, [])

    def const_value(self, path):
        c = self.consts.get(path)
        if c is None:
            return None
        if "v" in c:
            v = int(c["v"])
            bits = {"i8": 8, "i16": 16, "i32": 32, "i64": 64, "i128": 128, "isize": 64}.get(c["ty"])
            if bits and v >= 1 << (bits - 1):
                v -= 1 << bits
            return v
        return None

    def const_bytes(self, path):
        c = self.consts.get(path)
        if c is None:
            return None
        if "bytes" in c:
            return bytes.fromhex(c["bytes"])
        if "ptr_bytes" in c:
            return bytes.fromhex(c["ptr_bytes"])
        if "ptrs" in c and len(c["ptrs"]) == 1 and not c["ptrs"][0].startswith("fn:"):
            return bytes.fromhex(c["ptrs"][0])
        return None

    def adt(self, path):
        return self.adts.get(path)

    def need_adt(self, path):
        a = self.adts.get(path)
        if a is None:
            raise AnchorMissing("type %s not found in facts" % path)
        return a

    def adt_by_suffix(self, suffix):
        out = [a for p, a in self.adts.items() if p == suffix or p.endswith("::" + suffix)]
        return out

    # ---- call graph ---------------------------------------------------
    def callers(self):
        if self._callers is None:
            c = {}
            for f in self.fn_list:
                if f.kind == "const":
                    continue
                for bi, t in f.calls():
                    p = callee_path(t)
                    if p:
                        c.setdefault(p, []).append((f, bi))
                # closures are "called" from where they are constructed
                for bi, bb in enumerate(f.blocks):
                    for st in bb["s"]:
                        if st["k"] == "=":
                            agg = st["rv"].get("agg")
                            if agg and agg["k"] == "closure":
                                c.setdefault(agg["def"], []).append((f, bi))
                            # function items passed as values (map(f), fn pointers)
                            for o in _rv_operands(st["rv"]):
                                k = o.get("k") if isinstance(o, dict) else None
                                if k and "fn" in k:
                                    c.setdefault(k["fn"], []).append((f, bi))
                    t = bb["t"]
                    if t["k"] in ("call", "tailcall"):
                        for o in t["a"]:
                            k = o.get("k")
                            if k and "fn" in k:
                                c.setdefault(k["fn"], []).append((f, bi))
            self._callers = c
        return self._callers

    def callees_of(self, f):
        """Resolved callee paths + closures constructed + fn items referenced."""
        key = "callees"
        if key in f._cache:
            return f._cache[key]
        out = set()
        for _, t in f.calls():
            p = callee_path(t)
            if p:
                out.add(p)
                if t["f"].get("virt"):
                    out.update(self.virtual_targets(p))
            for o in t["a"]:
                k = o.get("k")
                if k and "fn" in k:
                    out.add(k["fn"])
        for bb in f.blocks:
            for st in bb["s"]:
                if st["k"] == "=":
                    agg = st["rv"].get("agg")
                    if agg and agg["k"] == "closure":
                        out.add(agg["def"])
                    for o in _rv_operands(st["rv"]):
                        k = o.get("k") if isinstance(o, dict) else None
                        if k and "fn" in k:
                            out.add(k["fn"])
        f._cache[key] = out
        return out

    def virtual_targets(self, trait_method_path):
        """All local impl methods for a trait method path `Trait::method`."""
        if "::" not in trait_method_path:
            return set()
        trait, method = trait_method_path.rsplit("::", 1)
        out = set()
        for f in self.fn_list:
            if f.trait == trait and f.name == method:
                out.add(f.path)
        return out

    def reachable_from(self, roots, stop=None):
        """Set of local function paths reachable through resolved calls."""
        seen = set()
        work = list(roots)
        while work:
            p = work.pop()
            if p in seen:
                continue
            seen.add(p)
            if stop and p in stop:
                continue
            f = self.fns.get(p)
            if f is None:
                continue
            for q in self.callees_of(f):
                if q not in seen:
                    work.append(q)
        return seen


def _rv_operands(rv):
    for key in ("use", "a", "b", "rep"):
        if key in rv and isinstance(rv[key], dict):
            yield rv[key]
    if "agg" in rv:
        for o in rv["ops"]:
            yield o


def rv_operands(rv):
    return list(_rv_operands(rv))


class AnchorMissing(Exception):
    pass
