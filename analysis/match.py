"""Small predicates over provenance terms used by the rules."""
from .prov import strip, leaves, subterms, show, field_chain


def is_param(t, name=None):
    t = strip(t)
    return t[0] == "param" and (name is None or t[1] == name)


def const_name(t):
    """Last path segment of a named constant term, else None."""
    t = strip(t)
    if t[0] == "const" and t[2]:
        return t[2].split("<")[0].rsplit("::", 1)[-1]
    return None


def const_val(t):
    t = strip(t)
    if t[0] == "const":
        return t[1]
    return None


def is_field(t, name, base_pred=None):
    t = strip(t)
    if t[0] != "field" or t[2] != name:
        return False
    return base_pred is None or base_pred(t[1])


def chain(t):
    """Dotted field chain string rooted at a parameter, e.g. 'ctx.accounts.whirlpool.fee_rate'."""
    c = field_chain(t)
    return ".".join(c) if c else None


def chain_ends(t, *suffix):
    c = field_chain(t)
    return bool(c) and len(c) >= len(suffix) and tuple(c[-len(suffix):]) == tuple(suffix)


def is_call(t, suffix):
    t = strip(t)
    return t[0] == "call" and (t[1] == suffix or t[1].endswith("::" + suffix) or t[1].endswith(suffix))


def call_args(t):
    t = strip(t)
    return t[2] if t[0] == "call" else ()


def same(a, b):
    return strip(a) == strip(b)


def any_leaf(t, pred):
    return any(pred(x) for x in leaves(t))


def all_leaves(t, pred):
    ls = leaves(t)
    return bool(ls) and all(pred(x) for x in ls)


def mentions(t, pred):
    return any(pred(s) for s in subterms(t))


def sh(t, n=300):
    s = show(t)
    return s if len(s) <= n else s[: n - 3] + "..."


def range_bounds(t):
    """(lo, hi, inclusive) for a range value term: RangeInclusive::new(lo, hi) or Range{start,end}."""
    t = strip(t)
    if t[0] == "call" and t[1].endswith("RangeInclusive::<Idx>::new") and len(t[2]) == 2:
        return t[2][0], t[2][1], True
    if t[0] == "agg" and t[1].endswith("ops::RangeInclusive"):
        d = dict(t[3])
        return d.get("start"), d.get("end"), True
    if t[0] == "agg" and t[1].endswith("ops::Range"):
        d = dict(t[3])
        return d.get("start"), d.get("end"), False
    return None


def fail_conditions(atom):
    """List of (op, a, b) under which the atom leads to failure. Expands
    `range.contains(x)` (failing when false) into its two bound violations."""
    fc = atom.fail_cond()
    if fc is not None:
        return [fc]
    t = atom.term
    if t[0] == "call" and t[1].endswith("::contains") and len(t[2]) == 2:
        rb = range_bounds(t[2][0])
        if rb is None:
            return []
        lo, hi, incl = rb
        x = t[2][1]
        inside_true = True  # true_* / false_* are relative to the stripped `contains` term
        # outcome when x is OUTSIDE the range:
        outside_fails = atom.false_fail if inside_true else atom.true_fail
        inside_fails = atom.true_fail if inside_true else atom.false_fail
        if outside_fails and not inside_fails:
            return [("Lt", x, lo), ("Gt" if incl else "Ge", x, hi)]
    return []


def ret_conditions(atom, value):
    """Same for atoms of bool-returning functions: comparisons under which `value` is returned."""
    rc = atom.ret_cond(value)
    return [rc] if rc is not None else []
