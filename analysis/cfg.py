"""E1: control-flow engine over MIR: reachability under cuts, dominators,
success/error exit classification, must-pass."""
from .ir import callee_path, op_place

ERR_ENUMS = ("errors::ErrorCode", "pinocchio::errors::WhirlpoolErrorCode", "anchor_lang::error::ErrorCode", "pinocchio::errors::AnchorErrorCode")

DIVERGING = (
    "core::panicking::", "std::rt::begin_panic", "core::option::unwrap_failed",
    "core::result::unwrap_failed", "core::option::expect_failed", "std::process::abort",
    "core::panicking::panic",
)


def is_diverging_call(t):
    return t["k"] == "call" and t["t"] is None


def reach(fn, start, cut_blocks=(), cut_edges=()):
    """Blocks reachable from `start` (list or int) without entering cut_blocks
    and without following cut_edges {(from,to)}."""
    succ = fn.succ()
    cut_blocks = set(cut_blocks)
    cut_edges = set(cut_edges)
    seen = set()
    work = list(start) if isinstance(start, (list, tuple, set)) else [start]
    while work:
        b = work.pop()
        if b in seen or b in cut_blocks:
            continue
        seen.add(b)
        for s in succ[b]:
            if (b, s) in cut_edges:
                continue
            if s not in seen and s not in cut_blocks:
                work.append(s)
    return seen


def return_blocks(fn):
    return [i for i, bb in enumerate(fn.blocks) if bb["t"]["k"] == "ret"]


def dominators(fn):
    """Immediate-dominator-free simple dominator sets (functions are small)."""
    key = "dom"
    if key in fn._cache:
        return fn._cache[key]
    n = len(fn.blocks)
    succ = fn.succ()
    pred = fn.pred()
    reachable = reach(fn, 0)
    order = []
    seen = set()

    def dfs(b):
        stack = [(b, iter(succ[b]))]
        seen.add(b)
        while stack:
            node, it = stack[-1]
            adv = False
            for s in it:
                if s not in seen:
                    seen.add(s)
                    stack.append((s, iter(succ[s])))
                    adv = True
                    break
            if not adv:
                order.append(node)
                stack.pop()
    dfs(0)
    rpo = list(reversed(order))
    allset = set(reachable)
    dom = {b: set(allset) for b in reachable}
    dom[0] = {0}
    changed = True
    while changed:
        changed = False
        for b in rpo:
            if b == 0:
                continue
            ps = [p for p in pred[b] if p in reachable]
            if not ps:
                continue
            new = set.intersection(*[dom[p] for p in ps]) | {b}
            if new != dom[b]:
                dom[b] = new
                changed = True
    fn._cache[key] = dom
    return dom


def dominates(fn, a, b):
    d = dominators(fn)
    return b in d and a in d[b]


# ---------------------------------------------------------------------------
# success / error exits

def _is_result_ty(t):
    return t.startswith("std::result::Result<") or t.startswith("core::result::Result<")


def err_assign_blocks(fn):
    """Blocks after which the return value is definitely an error:
    `_0 = Err(..)` aggregates, `from_residual` into `_0`, diverging calls."""
    key = "errblocks"
    if key in fn._cache:
        return fn._cache[key]
    out = set()
    ret_is_result = _is_result_ty(fn.locals[0]["t"])
    for i, bb in enumerate(fn.blocks):
        t = bb["t"]
        if t["k"] == "call":
            if t["t"] is None:
                out.add(i)  # diverges (panic)
                continue
            p = callee_path(t) or ""
            raw = t["f"].get("raw", p)
            if ("from_residual" in p or "from_residual" in raw) and t["d"]["l"] == 0 and "p" not in t["d"]:
                out.add(i)
                continue
        if t["k"] in ("unreachable", "abort", "resume"):
            out.add(i)
            continue
        if ret_is_result:
            last = None
            for st in bb["s"]:
                if st["k"] == "=" and st["p"]["l"] == 0 and "p" not in st["p"]:
                    last = st
            if last is not None:
                agg = last["rv"].get("agg")
                if agg and agg["k"] == "adt" and agg["adt"].endswith("result::Result") and agg["v"] == "Err":
                    out.add(i)
    fn._cache[key] = out
    return out


def success_reach(fn, start, cut_blocks=(), cut_edges=()):
    """Can a `Return` be reached from `start` without crossing an error-assign block
    (i.e. is there a success path)?"""
    errs = err_assign_blocks(fn) | set(cut_blocks)
    r = reach(fn, start, cut_blocks=errs, cut_edges=cut_edges)
    return any(fn.blocks[b]["t"]["k"] == "ret" for b in r)


def fail_only(fn, block):
    """True if no success path starts at `block`."""
    if block in err_assign_blocks(fn):
        return True
    return not success_reach(fn, block)


def error_codes_from(fn, block, enum_suffixes=ERR_ENUMS):
    """Error-enum variants constructed in the fail-only region starting at `block`.
    Stops at blocks that can still succeed."""
    seen = set()
    work = [block]
    codes = set()
    succ = fn.succ()
    while work:
        b = work.pop()
        if b in seen:
            continue
        seen.add(b)
        if not fail_only(fn, b):
            continue
        codes |= block_error_codes(fn, b, enum_suffixes)
        for s in succ[b]:
            work.append(s)
    return codes


def _walk_consts(obj, out):
    if isinstance(obj, dict):
        if "agg" in obj and obj["agg"].get("k") == "adt":
            out.append(("agg", obj["agg"]["adt"], obj["agg"]["v"]))
        if "k" in obj and isinstance(obj["k"], dict) and "ty" in obj["k"]:
            out.append(("const", obj["k"]["ty"], obj["k"]))
        for v in obj.values():
            _walk_consts(v, out)
    elif isinstance(obj, list):
        for v in obj:
            _walk_consts(v, out)


def block_error_codes(fn, b, enum_suffixes=ERR_ENUMS):
    bb = fn.blocks[b]
    found = []
    _walk_consts(bb["s"], found)
    _walk_consts(bb["t"], found)
    codes = set()
    for item in found:
        if item[0] == "agg" and any(item[1] == s or item[1].endswith("::" + s) for s in enum_suffixes):
            codes.add(item[2])
        elif item[0] == "const" and any(item[1] == s or item[1].endswith("::" + s) for s in enum_suffixes):
            k = item[2]
            adt = fn.facts.adts.get(k["ty"])
            if adt and "v" in k:
                for name, d in adt.get("discrs", []):
                    if d == k["v"]:
                        codes.add(name)
        elif item[0] == "const" and "::error::" in (item[2].get("c") or ""):
            # the SDK's errors are named string constants (constants::error::X)
            codes.add(item[2]["c"].rsplit("::", 1)[-1])
    return codes


# ---------------------------------------------------------------------------
# must-pass

def result_ok_edge(fn, call_block):
    """For a call whose destination holds a Result/Option/ControlFlow, find the
    edges that continue only when the call succeeded.

    Returns dict(kind=..., fail_edges=[(from,to)], ok_edges=[(from,to)]) or a
    dict with kind 'propagated' (result returned as the function's own result),
    'unwrap' (panics on failure), or None when the result is not branched on."""
    t = fn.blocks[call_block]["t"]
    dest = t["d"]
    if "p" in dest:
        return None
    d = dest["l"]
    if d == 0:
        return {"kind": "propagated", "fail_edges": [], "ok_edges": []}
    # follow the value through moves, Try::branch, unwrap/expect/map_err/ok_or
    cur = d
    blk = t["t"]
    visited = 0
    while blk is not None and visited < 12:
        visited += 1
        bb = fn.blocks[blk]
        # moves inside the block
        for st in bb["s"]:
            if st["k"] == "=" and "p" not in st["p"]:
                rv = st["rv"]
                if "use" in rv:
                    pl = op_place(rv["use"])
                    if pl and pl["l"] == cur and "p" not in pl:
                        cur = st["p"]["l"]
                if "discr" in rv and rv["discr"]["l"] == cur and "p" not in rv["discr"]:
                    # match on the result directly
                    dl = st["p"]["l"]
                    tt = bb["t"]
                    if tt["k"] == "switch" and op_place(tt["d"]) and op_place(tt["d"])["l"] == dl:
                        return _discr_edges(fn, blk, tt, fn.locals[cur]["t"])
        tt = bb["t"]
        if cur == 0 and tt["k"] in ("ret", "goto"):
            return {"kind": "propagated", "fail_edges": [], "ok_edges": []}
        if tt["k"] == "call":
            p = callee_path(tt) or ""
            raw = tt["f"].get("raw", p)
            uses = [op_place(a) for a in tt["a"]]
            uses_cur = any(u and u["l"] == cur and "p" not in u for u in uses)
            if uses_cur:
                nm = raw.rsplit("::", 1)[-1]
                if nm == "branch" and "Try" in raw or p.endswith("::branch"):
                    cur = tt["d"]["l"]
                    blk = tt["t"]
                    continue
                if nm in ("unwrap", "expect"):
                    return {"kind": "unwrap", "fail_edges": [], "ok_edges": []}
                if nm in ("map_err", "ok_or", "ok_or_else", "map", "and_then", "or_else"):
                    if "p" in tt["d"]:
                        return None
                    cur = tt["d"]["l"]
                    blk = tt["t"]
                    continue
                return None
            blk = tt["t"]
            continue
        if tt["k"] == "goto":
            blk = tt["t"]
            continue
        if tt["k"] == "drop":
            blk = tt["t"]
            continue
        if tt["k"] == "switch":
            return None
        break
    return None


def _discr_edges(fn, blk, tt, ty):
    # variant 0 is Ok / Continue / (None for Option!), variant 1 Err / Break / Some
    is_option = ty.startswith("std::option::Option<") or ty.startswith("core::option::Option<")
    ok_val = "1" if is_option else "0"
    ok_edges, fail_edges = [], []
    for v, b in tt["ts"]:
        (ok_edges if v == ok_val else fail_edges).append((blk, b))
    listed = {v for v, _ in tt["ts"]}
    other = (blk, tt["o"])
    # the `otherwise` edge stands for the remaining variant if only one is listed
    if ok_val not in listed:
        ok_edges.append(other)
    elif len(listed) < 2:
        fail_edges.append(other)
    return {"kind": "branch", "ok_edges": ok_edges, "fail_edges": fail_edges}


def must_pass_call(fn, call_block):
    """Decide: every success path of `fn` goes through the call in `call_block`
    and continues only when that call reported success.
    Returns (ok: bool, why: str)."""
    # 1. all success paths cross the call block
    if success_reach(fn, 0, cut_blocks=[call_block]):
        return False, "a success path avoids the call"
    info = result_ok_edge(fn, call_block)
    if info is None:
        return False, "result of the call is not branched on"
    if info["kind"] in ("propagated", "unwrap"):
        return True, info["kind"]
    for (a, b) in info["fail_edges"]:
        if fn.blocks[b]["t"]["k"] == "unreachable":
            continue
        if not fail_only(fn, b):
            return False, "failure arm of the call can still reach a success return"
    return True, "branch"


def bool_guard_edges(fn, call_block):
    """For a call returning bool: find the switch consuming it (possibly through Not)
    and return (true_edges, false_edges)."""
    t = fn.blocks[call_block]["t"]
    if "p" in t["d"]:
        return None
    cur = t["d"]["l"]
    neg = False
    blk = t["t"]
    for _ in range(6):
        if blk is None:
            return None
        bb = fn.blocks[blk]
        for st in bb["s"]:
            if st["k"] == "=" and "p" not in st["p"]:
                rv = st["rv"]
                if "use" in rv:
                    pl = op_place(rv["use"])
                    if pl and pl["l"] == cur and "p" not in pl:
                        cur = st["p"]["l"]
                if rv.get("un") == "Not":
                    pl = op_place(rv["a"])
                    if pl and pl["l"] == cur and "p" not in pl:
                        cur = st["p"]["l"]
                        neg = not neg
        tt = bb["t"]
        if tt["k"] == "switch":
            pl = op_place(tt["d"])
            if pl and pl["l"] == cur:
                tr, fl = [], []
                for v, b in tt["ts"]:
                    (fl if v == "0" else tr).append((blk, b))
                listed = {v for v, _ in tt["ts"]}
                if "0" in listed:
                    tr.append((blk, tt["o"]))
                else:
                    fl.append((blk, tt["o"]))
                if neg:
                    tr, fl = fl, tr
                return tr, fl
            return None
        if tt["k"] == "goto":
            blk = tt["t"]
            continue
        return None
    return None


def return_values_from(fn, block):
    """Kinds of values `_0` can hold at a Return reached from `block`, deciding only
    by the first assignment to `_0` met on each path: ('const', v) for scalar
    constants, ('other', block) otherwise, ('none',) if a return is reached
    without any assignment after `block`."""
    seen = set()
    work = [block]
    out = set()
    succ = fn.succ()
    # carriers: temporaries that exist only to hand the return value on (`t = false; .. _0 = move t`, as left behind by a spliced-in
    # helper's own return place): an assignment to one of them is an assignment to `_0`
    carriers = fn._cache.get("ret_carriers")
    if carriers is None:
        from .canon import _count_uses
        uses = _count_uses(fn.rec)

        def src(st):
            if st.get("k") == "=" and "p" not in st["p"] and "use" in st.get("rv", {}):
                o = st["rv"]["use"]
                pl = (o.get("mv") or o.get("cp")) if isinstance(o, dict) else None
                if pl is not None and "p" not in pl:
                    return pl["l"]
            return None
        carriers = {0}
        grew = True
        while grew:
            grew = False
            into = {}
            for bb_ in fn.blocks:
                for st in bb_["s"]:
                    x = src(st)
                    if x is not None and st["p"]["l"] in carriers:
                        into[x] = into.get(x, 0) + 1
            for x, n in into.items():
                # every read of x hands it on to a carrier
                if x > fn.argc and x not in carriers and uses.get(x, 0) == n and fn.locals[x]["t"] == fn.locals[0]["t"] and not fn.locals[x].get("n"):
                    carriers.add(x)
                    grew = True
        fn._cache["ret_carriers"] = carriers
    while work:
        b = work.pop()
        if b in seen:
            continue
        seen.add(b)
        bb = fn.blocks[b]
        assigned = None
        for st in bb["s"]:
            if st["k"] == "=" and st["p"]["l"] in carriers and "p" not in st["p"]:
                o = st["rv"].get("use") if "use" in st["rv"] else None
                pl = (o.get("mv") or o.get("cp")) if isinstance(o, dict) else None
                if pl is not None and "p" not in pl and pl["l"] in carriers:
                    continue    # the value is only handed on
                assigned = st
                break
        if assigned is not None:
            rv = assigned["rv"]
            k = rv.get("use", {}).get("k") if "use" in rv else None
            if k is not None and "v" in k:
                out.add(("const", int(k["v"])))
            else:
                out.add(("other", b))
            continue
        t = bb["t"]
        if t["k"] == "call" and t["d"]["l"] in carriers and "p" not in t["d"]:
            out.add(("other", b))
            continue
        if t["k"] == "ret":
            out.add(("none",))
            continue
        for s2 in succ[b]:
            work.append(s2)
    return out


def byte_match_paths(fn, pv):
    """Decode a `match bytes { CONST_A => .., CONST_B => .. }` lowered to per-index switches.
    Returns list of (bytes, target block) for every complete chain starting at index 0."""
    from .prov import strip
    def idx_of(term):
        t = strip(term)
        if t[0] == "index" and t[2][0] == "const" and isinstance(t[2][1], int):
            return t[2][1]
        return None
    out = []
    for bi, bb in enumerate(fn.blocks):
        t = bb["t"]
        if t["k"] != "switch" or t.get("dt") != "u8":
            continue
        if idx_of(pv.operand(t["d"], bi, len(bb["s"]))) != 0:
            continue
        def walk(b, acc):
            tt = fn.blocks[b]["t"]
            if tt["k"] == "switch" and tt.get("dt") == "u8" and idx_of(pv.operand(tt["d"], b, len(fn.blocks[b]["s"]))) == len(acc):
                for v, tgt in tt["ts"]:
                    walk(tgt, acc + [int(v)])
            else:
                out.append((bytes(acc), b))
        walk(bi, [])
    return out


def result_checked(fn, call_block):
    """The call's Result is not dropped: it is returned, unwrapped, or branched on with the
    failure arm leading only to failure. (Unlike must_pass_call this does not require every
    success path of fn to cross the call: used for calls inside loops / branches.)"""
    info = result_ok_edge(fn, call_block)
    if info is None:
        return False
    if info["kind"] in ("propagated", "unwrap"):
        return True
    for (a, b) in info["fail_edges"]:
        if fn.blocks[b]["t"]["k"] == "unreachable":
            continue
        if not fail_only(fn, b):
            return False
    return True
