#!/bin/sh
# Build the fact extractor and prime the dependency cache (offline).
set -e
cd "$(dirname "$0")"
export CARGO_NET_OFFLINE=true
(cd driver && cargo build --offline 2>&1 | tail -3)
./check prime
