#!/usr/bin/env python3
"""Confirm a sub-agent's change in a scratch worktree of my own. usage: confirm_seed.py <dir> <n> [--benign]
<dir> holds patch<n>.diff, meta<n>.json (with "demo_cmd") and demo<n>.diff (the demonstration, applied on top of HEAD).
Steps (worktree /tmp/wt/confirm, detached at /repo HEAD, reset before and after):
  1. demo only            -> demo_cmd must exit 0
  2. demo + patch         -> demo_cmd must exit non-zero
  3. patch only           -> cargo test --workspace --offline: 0 failed, >= 654 passed
--benign: only step 3 (and the patch must apply)."""
import json, os, re, subprocess, sys
WT = os.environ.get("CONFIRM_WT", "/tmp/wt/confirm")


def sh(cmd, **kw):
    return subprocess.run(cmd, shell=True, cwd=WT, capture_output=True, text=True, **kw)


def reset():
    sh("git checkout -q -- . && git clean -fdq -e target")


def main():
    d, n = os.path.abspath(sys.argv[1]), sys.argv[2]
    benign = "--benign" in sys.argv
    if not os.path.exists(WT):
        subprocess.run(["git", "-C", "/repo", "worktree", "add", "--detach", WT], check=True, capture_output=True)
        subprocess.run(["cp", "-r", "/repo/target", WT + "/target"], check=True)
    reset()
    patch = os.path.join(d, "patch%s.diff" % n)
    meta = json.load(open(os.path.join(d, "meta%s.json" % n)))
    out = {"patch": patch}
    try:
        if not benign:
            demo = os.path.join(d, "demo%s.diff" % n)
            cmd = meta["demo_cmd"]
            r = sh("git apply --whitespace=nowarn %s" % demo)
            if r.returncode:
                print("DEMO DOES NOT APPLY", r.stderr[:500]); return 3
            r = sh(cmd, timeout=3000)
            out["demo_without_patch_rc"] = r.returncode
            if r.returncode != 0:
                print("demo fails WITHOUT the change:\n", (r.stdout + r.stderr)[-1500:]); return 1
            r = sh("git apply --whitespace=nowarn %s" % patch)
            if r.returncode:
                print("PATCH DOES NOT APPLY on demo", r.stderr[:500]); return 3
            r = sh(cmd, timeout=3000)
            out["demo_with_patch_rc"] = r.returncode
            if r.returncode == 0:
                print("demo passes WITH the change"); return 1
            out["demo_with_patch_tail"] = (r.stdout + r.stderr)[-600:]
            reset()
        r = sh("git apply --whitespace=nowarn %s" % patch)
        if r.returncode:
            print("PATCH DOES NOT APPLY", r.stderr[:500]); return 3
        r = sh("cargo test --workspace --offline --no-fail-fast 2>&1", timeout=6000)
        txt = r.stdout
        passed = sum(int(x) for x in re.findall(r"test result: \w+\. (\d+) passed", txt))
        failed = sum(int(x) for x in re.findall(r"test result: \w+\. \d+ passed; (\d+) failed", txt))
        out["suite"] = {"passed": passed, "failed": failed, "rc": r.returncode}
        if r.returncode != 0 or failed or passed < 654:
            print("SUITE NOT GREEN", out["suite"], txt[-1500:]); return 1
        print("CONFIRMED", json.dumps(out)[:900])
        return 0
    finally:
        reset()


if __name__ == "__main__":
    sys.exit(main())
