#!/usr/bin/env python3
"""Apply a textual mutation to /repo, run checks, restore. usage:
   trymut.py 'C19,C04' path/in/repo 'old text' 'new text' [count]"""
import subprocess, sys, os, tempfile
os.environ['VERIF_EVIDENCE_DIR'] = tempfile.mkdtemp(prefix='wpverif-ev-')
import atexit, shutil
atexit.register(shutil.rmtree, os.environ['VERIF_EVIDENCE_DIR'], True)
props, rel, old, new = sys.argv[1:5]
p = os.path.join('/repo', rel)
src = open(p).read()
if old not in src:
    print("OLD TEXT NOT FOUND"); sys.exit(3)
try:
    open(p, 'w').write(src.replace(old, new, 1))
    for prop in props.split(','):
        r = subprocess.run(['/verif/check', prop], capture_output=True, text=True)
        lines = [l for l in r.stdout.splitlines() if l.startswith(('VIOLATION', '  violation', 'ANALYSIS', 'KNOWN')) or l.startswith(prop + ':') or l.startswith('    ')]
        print("rc=%d" % r.returncode)
        print("\n".join(lines[:40]))
        if r.returncode not in (0, 1):
            print(r.stdout[-2000:], r.stderr[-2000:])
finally:
    open(p, 'w').write(src)
    subprocess.run(['git', '-C', '/repo', 'checkout', '--', rel])
