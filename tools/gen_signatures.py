#!/usr/bin/env python3
"""Record the parameter names and types of every function of the reference tree (specs/signatures.json).
Run on the unchanged /repo only; the table lets the loader see through pure parameter renames."""
import json, os, sys
sys.path.insert(0, os.path.dirname(os.path.dirname(os.path.abspath(__file__))))
from analysis import extract
from analysis.ir import Facts
out = {}
for crate, d in (("whirlpool", extract.program_facts()), ("orca_whirlpools_core", extract.sdk_facts())):
    sp = os.path.join(os.path.dirname(os.path.dirname(os.path.abspath(__file__))), "specs", "signatures.json")
    if os.path.exists(sp):
        os.rename(sp, sp + ".bak")    # load without canonicalisation
    try:
        F = Facts(d)
    finally:
        if os.path.exists(sp + ".bak"):
            os.rename(sp + ".bak", sp)
    t = {}
    for f in F.fn_list:
        if f.kind == "const" or f.argc == 0:
            continue
        t[f.path] = [[f.locals[i].get("n"), f.locals[i].get("t")] for i in range(1, f.argc + 1)]
    out[crate] = t
os.makedirs(os.path.join(os.path.dirname(os.path.dirname(os.path.abspath(__file__))), "specs"), exist_ok=True)
json.dump(out, open(os.path.join(os.path.dirname(os.path.dirname(os.path.abspath(__file__))), "specs", "signatures.json"), "w"), indent=0, sort_keys=True)
print({k: len(v) for k, v in out.items()})
