#!/usr/bin/env python3
"""Regression matrix over the two corpora, without touching /repo:
   seeded/**/patch*.diff   changes that break a property       -> must be reported (by the target property's check)
   benign/**/patch*.diff   behaviour-preserving refactorings   -> must be silent under all 20 checks
Facts of every patched tree are extracted once into .cache/patchfacts/<sha of patch + driver> (scratch copy of /repo under the
system temp directory, same driver, nothing executed) and reused, so that a rule change can be re-evaluated against every patch
in minutes.
usage: matrix.py extract [filter..]         build missing facts (serial, shares the cargo target dir)
       matrix.py run [-j N] [filter..]      run all 20 rule modules on every patch with facts; writes matrix/RESULTS.json
       matrix.py show [filter..]            print the last results (misses and false alarms first)"""
import glob, hashlib, json, os, re, shutil, subprocess, sys, tempfile, time
V = os.path.dirname(os.path.dirname(os.path.abspath(__file__)))
sys.path.insert(0, V)
sys.dont_write_bytecode = True
STORE = os.path.join(V, ".cache", "patchfacts")
RES = os.path.join(V, "matrix", "RESULTS.json")


def patches(filters):
    out = []
    for kind, root in (("seed", "seeded"), ("benign", "benign")):
        for p in sorted(glob.glob(os.path.join(V, root, "**", "patch*.diff"), recursive=True)):
            rel = os.path.relpath(p, V)
            if filters and not any(f in rel for f in filters):
                continue
            d = os.path.dirname(p)
            k = re.search(r"patch(\d*)\.diff", p).group(1)
            meta = {}
            for mp in (os.path.join(d, "meta%s.json" % k),):
                if os.path.exists(mp):
                    try:
                        meta = json.load(open(mp))
                    except Exception:
                        pass
            target = meta.get("property") or next((x for x in rel.split("/") if re.fullmatch(r"C\d\d", x)), None) or \
                (re.search(r"(C\d\d)", rel).group(1) if re.search(r"(C\d\d)", rel) else None)
            out.append({"kind": kind, "patch": p, "rel": rel, "target": target, "summary": meta.get("summary", ""), "mkind": meta.get("kind")})
    return out


def sha(p):
    h = hashlib.sha256(open(p, "rb").read())
    drv = os.path.join(V, ".cache", "driver_main_v1.rs")   # facts format version of the store (additive driver changes keep it)
    if not os.path.exists(drv):
        drv = os.path.join(V, "driver", "src", "main.rs")
    h.update(open(drv, "rb").read())
    return h.hexdigest()[:20]


def facts_dir(p):
    return os.path.join(STORE, sha(p))


def extract_one(p):
    from analysis import extract
    d = facts_dir(p)
    if os.path.exists(os.path.join(d, "OK")):
        return True
    base = os.path.join(tempfile.gettempdir(), "wpverif-matrix-%d" % os.getpid())
    root = os.path.join(base, "repo")
    try:
        os.makedirs(root, exist_ok=True)
        subprocess.run(["rsync", "-a", "--delete", "--exclude", "/target", "--exclude", ".git", "--exclude", "node_modules",
                        extract.REPO.rstrip("/") + "/", root + "/"], check=True)
        r = subprocess.run(["git", "apply", "--whitespace=nowarn", "--unsafe-paths", "--directory=" + root, p], capture_output=True, text=True, cwd="/")
        if r.returncode != 0:
            r = subprocess.run(["patch", "-p1", "-s", "-i", p], cwd=root, capture_output=True, text=True)
            if r.returncode != 0:
                print("DOES NOT APPLY", p, r.stdout[-300:], r.stderr[-300:])
                return False
        shutil.rmtree(d, ignore_errors=True)
        os.makedirs(d)
        try:
            extract.program_facts(repo=root, scratch_out=os.path.join(d, "program"))
            txt = open(p).read()
            if "rust-sdk/" in txt:
                extract.sdk_facts(repo=root, scratch_out=os.path.join(d, "sdk"))
        except extract.AnalysisIncomplete as e:
            print("DOES NOT COMPILE", p, str(e)[-400:])
            return False
        shutil.rmtree(os.path.join(d, "sdkview"), ignore_errors=True)
        open(os.path.join(d, "OK"), "w").write("ok\n")
        return True
    finally:
        shutil.rmtree(base, ignore_errors=True)


def run_one(args):
    p, props = args
    import importlib
    from analysis import extract, report
    from analysis.ir import Facts, AnchorMissing
    d = facts_dir(p)
    t0 = time.time()
    facts = Facts(os.path.join(d, "program", "whirlpool"))
    sdkp = os.path.join(d, "sdk", "orca_whirlpools_core")
    sdk = Facts(sdkp if os.path.exists(sdkp) else extract.sdk_facts())
    fired = {}
    for prop in props:
        mod = importlib.import_module("rules.%s" % prop)
        from rules import crosschecks as _cx
        run = report.Run(prop, "quick", facts, sdk=sdk if (getattr(mod, "NEEDS_SDK", False) or prop in _cx.NEEDS_SDK) else None)
        for rule in mod.RULES:
            n = len(run.results)
            try:
                rule(run)
            except AnchorMissing as e:
                run.missing(rule.__name__.split("_")[0], "anchor", str(e))
            except Exception as e:
                run.missing(rule.__name__.split("_")[0], "rule-crashed", "%s: %s" % (type(e).__name__, e))
            if len(run.results) == n:
                run.missing(rule.__name__.split("_")[0], "no-instances", "no instance")
        from rules import crosschecks
        crosschecks.apply(run, prop)
        keys = []
        for r in run.results:
            if r.status != "pass" and r.key not in keys:
                keys.append(r.key)
        if keys:
            fired[prop] = keys[:8]
    return p, fired, facts.canon_log + sdk.canon_log, round(time.time() - t0, 1)


def main():
    cmd = sys.argv[1] if len(sys.argv) > 1 else "show"
    args = sys.argv[2:]
    jobs = 12
    if "-j" in args:
        i = args.index("-j")
        jobs = int(args[i + 1])
        del args[i:i + 2]
    props = ["C%02d" % i for i in range(1, 21)]
    ps = patches(args)
    if cmd == "extract":
        for i, e in enumerate(ps):
            ok = extract_one(e["patch"])
            print("[%d/%d] %s %s" % (i + 1, len(ps), e["rel"], "ok" if ok else "FAILED"), flush=True)
        return
    if cmd == "run":
        from concurrent.futures import ProcessPoolExecutor
        from analysis import extract
        extract.sdk_facts()
        have = [e for e in ps if os.path.exists(os.path.join(facts_dir(e["patch"]), "OK"))]
        print("%d patches, %d with facts" % (len(ps), len(have)), flush=True)
        res = json.load(open(RES)) if os.path.exists(RES) else {}
        by = {e["patch"]: e for e in have}
        with ProcessPoolExecutor(jobs) as ex:
            for p, fired, canon, dt in ex.map(run_one, [(e["patch"], props) for e in have]):
                e = by[p]
                res[e["rel"]] = {"kind": e["kind"], "target": e["target"], "mkind": e["mkind"], "summary": e["summary"][:300], "fired": fired, "canon": canon}
                verdict = ("caught" if e["target"] in fired else ("caught-by-other" if fired else "MISSED")) if e["kind"] == "seed" else ("silent" if not fired else "FALSE-ALARM")
                print("%-40s %-16s %5.1fs %s" % (e["rel"], verdict, dt, " ".join("%s:%s" % (k, v[0].split("/", 1)[1]) for k, v in sorted(fired.items()))[:160]), flush=True)
        os.makedirs(os.path.dirname(RES), exist_ok=True)
        json.dump(res, open(RES, "w"), indent=1, sort_keys=True)
    res = json.load(open(RES)) if os.path.exists(RES) else {}
    sel = {k: v for k, v in res.items() if not args or any(a in k for a in args)}
    seeds = {k: v for k, v in sel.items() if v["kind"] == "seed"}
    ben = {k: v for k, v in sel.items() if v["kind"] == "benign"}
    missed = [k for k, v in seeds.items() if not v["fired"]]
    other = [k for k, v in seeds.items() if v["fired"] and v["target"] not in v["fired"]]
    fa = [k for k, v in ben.items() if v["fired"]]
    print("seeds: %d, reported %d (own check %d), missed %d" % (len(seeds), len(seeds) - len(missed), len(seeds) - len(missed) - len(other), len(missed)))
    for k in missed:
        print("   MISSED", k, seeds[k]["summary"][:140])
    for k in other:
        print("   only-by-other", k, sorted(seeds[k]["fired"]))
    print("benign: %d, silent %d, false alarms %d" % (len(ben), len(ben) - len(fa), len(fa)))
    for k in fa:
        print("   FALSE-ALARM", k, ben[k]["mkind"], {p: [x.split("/", 1)[1] for x in v[:3]] for p, v in ben[k]["fired"].items()})


if __name__ == "__main__":
    main()
