#!/usr/bin/env python3
"""Prepare scratch worktrees for a sub-agent campaign. usage: r3_prepare.py <tag> C01 C02 ...
For each property: git worktree /tmp/wt/<tag>-<id> (detached at /repo HEAD, with a copy of /repo/target to warm the build),
/tmp/wt/<tag>-<id>.property.json (that property's record only) and /tmp/wt/<tag>-<id>.already.txt (one-line summaries of
changes earlier agents already proposed for it: taken from seeded/*/meta*.json, i.e. agent-written, nothing about the checks).
Output directory for the agent: /tmp/wt/<tag>-<id>.out/"""
import glob, json, os, subprocess, sys, shutil
V = os.path.dirname(os.path.dirname(os.path.abspath(__file__)))
tag = sys.argv[1]
props = {json.loads(l)["id"]: json.loads(l) for l in open(os.path.join(V, "properties.jsonl"))}
os.makedirs("/tmp/wt", exist_ok=True)
for pid in sys.argv[2:]:
    wt = "/tmp/wt/%s-%s" % (tag, pid)
    if not os.path.exists(wt):
        subprocess.run(["git", "-C", "/repo", "worktree", "add", "--detach", wt], check=True, capture_output=True)
        if os.path.exists("/repo/target"):
            subprocess.run(["cp", "-r", "/repo/target", wt + "/target"], check=True)
    json.dump(props[pid], open(wt + ".property.json", "w"), indent=1)
    lines = []
    for m in sorted(glob.glob(os.path.join(V, "seeded", pid, "**", "meta*.json"), recursive=True)):
        try:
            d = json.load(open(m))
            lines.append("- [%s] %s" % (", ".join(os.path.basename(f) for f in d.get("files", [])), d.get("summary", "")))
        except Exception:
            pass
    open(wt + ".already.txt", "w").write("\n".join(lines) + "\n")
    os.makedirs(wt + ".out", exist_ok=True)
    print(wt)
