#!/usr/bin/env python3
"""Apply a seeded patch to /repo, run checks, undo. usage: tryseed.py <patch.diff> [C01,C02,...|all]
Prints, per check, rc and the violation keys. /repo is restored afterwards (git apply -R, then checkout)."""
import subprocess, sys, os, tempfile
os.environ['VERIF_EVIDENCE_DIR'] = tempfile.mkdtemp(prefix='wpverif-ev-')
import atexit, shutil
atexit.register(shutil.rmtree, os.environ['VERIF_EVIDENCE_DIR'], True)
import re
patch = os.path.abspath(sys.argv[1])
props = sys.argv[2] if len(sys.argv) > 2 else "all"
props = ["C%02d" % i for i in range(1, 21)] if props == "all" else props.split(",")
st = subprocess.run(["git", "-C", "/repo", "status", "--porcelain"], capture_output=True, text=True).stdout.strip()
if st:
    print("REPO NOT CLEAN:\n" + st); sys.exit(3)
r = subprocess.run(["git", "-C", "/repo", "apply", "--whitespace=nowarn", patch], capture_output=True, text=True)
if r.returncode != 0:
    print("PATCH DOES NOT APPLY:", r.stderr[:2000]); sys.exit(3)
fired = {}
try:
    from concurrent.futures import ThreadPoolExecutor
    # prime the fact cache once, then run the checks in parallel
    subprocess.run(["/verif/check", "prime"], capture_output=True, text=True)
    def one(p):
        return p, subprocess.run(["/verif/check", p], capture_output=True, text=True)
    with ThreadPoolExecutor(8) as ex:
        for p, r in ex.map(one, props):
            keys = re.findall(r"^  violation (\S+)", r.stdout, re.M)
            if r.returncode == 0 and not keys:
                continue
            fired[p] = (r.returncode, keys)
            print("%s rc=%d %s" % (p, r.returncode, " ".join(keys[:12])))
            if r.returncode not in (0, 1):
                print(r.stdout[-1500:], r.stderr[-1500:])
    if not fired:
        print("NO CHECK FIRED")
finally:
    subprocess.run(["git", "-C", "/repo", "apply", "-R", "--whitespace=nowarn", patch], capture_output=True)
    subprocess.run(["git", "-C", "/repo", "checkout", "--", "."], capture_output=True)
    st = subprocess.run(["git", "-C", "/repo", "status", "--porcelain"], capture_output=True, text=True).stdout.strip()
    if st:
        print("WARNING repo still dirty:\n" + st)
