#!/usr/bin/env python3
"""Which functions of the program (reachable from the dispatch entries and Pinocchio routes) and of the SDK does no rule ever
look at?  Runs all 20 rule modules in-process on the current facts with a recording Facts object and prints the functions whose
body was never fetched by any rule/engine, grouped by file.  A diagnostic for finding blind spots; not part of any verdict.
usage: coverage.py [--sdk] [--all]"""
import importlib, os, sys
V = os.path.dirname(os.path.dirname(os.path.abspath(__file__)))
sys.path.insert(0, V)
sys.dont_write_bytecode = True
from analysis import extract, report, program  # noqa
from analysis.ir import Facts, Fn, AnchorMissing  # noqa

SEEN = {}


class RecFn(Fn):
    __slots__ = ()


def install():
    # record every function for which an engine builds provenance, dominators or a boolean flow
    from analysis import prov, cfg, preach
    oi = prov.Prov.__init__

    def init(self, fn, *a, **k):
        SEEN.setdefault(fn.path, set()).add(CUR[0])
        return oi(self, fn, *a, **k)
    prov.Prov.__init__ = init
    od = cfg.dominators

    def dom(fn):
        SEEN.setdefault(fn.path, set()).add(CUR[0])
        return od(fn)
    cfg.dominators = dom


CUR = ["-"]


def main():
    install()
    facts = Facts(extract.program_facts())
    sdk = Facts(extract.sdk_facts())
    facts.callers(); sdk.callers()
    for f in facts.fn_list + sdk.fn_list:
        if f.kind != 'const':
            (facts if f.facts is facts else sdk).callees_of(f)
    SEEN.clear()
    for i in range(1, 21):
        prop = "C%02d" % i
        CUR[0] = prop
        mod = importlib.import_module("rules.%s" % prop)
        run = report.Run(prop, "quick", facts, sdk=sdk if getattr(mod, "NEEDS_SDK", False) else None)
        for rule in mod.RULES:
            try:
                rule(run)
            except Exception as e:
                print("rule crashed", prop, rule.__name__, e)
    CUR[0] = "-"
    seen = {p: s for p, s in SEEN.items() if s - {"-"}}
    which = sdk if "--sdk" in sys.argv else facts
    if "--sdk" in sys.argv:
        cand = [f for f in which.fn_list if f.kind in ("fn", "closure") and "/tests/" not in f.file and "test" not in f.path.split("::")[0:-1]
                and f.file.startswith("/repo/rust-sdk")]
    else:
        roots = []
        for e in program.entries(facts):
            roots.append(e.fn.path)
            if e.routed:
                roots.append(e.routed)
        reach = facts.reachable_from(roots)
        cand = [facts.fns[p] for p in reach if p in facts.fns and facts.fns[p].kind != "const"]
        if "--all" in sys.argv:
            cand = [f for f in facts.fn_list if f.kind != "const"]
        cand = [f for f in cand if f.file.startswith("programs/") or f.file.startswith("/repo/programs")]
    cand = [f for f in cand if not f.expn and "test" not in f.file.rsplit("/", 1)[-1] and "/tests/" not in f.file]
    byfile = {}
    n_seen = 0
    for f in cand:
        if f.path in seen:
            n_seen += 1
            continue
        byfile.setdefault(f.file, []).append(f)
    print("candidate functions: %d, looked at by some rule: %d, never looked at: %d" % (len(cand), n_seen, len(cand) - n_seen))
    for file in sorted(byfile):
        print(file)
        for f in sorted(byfile[file], key=lambda f: f.line):
            print("   %5d  %-4d blocks  %s" % (f.line, len(Fn.__dict__["blocks"].__get__(f) if False else f.rec["blocks"]), f.path))


if __name__ == "__main__":
    main()
