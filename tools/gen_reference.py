#!/usr/bin/env python3
"""Record the reference tree's functions and types (specs/reference.json): per crate, every function (parameter names and
types, return type, visibility, file, the functions that call it) and every ADT (field names).  Run on the unchanged /repo only.
The loader uses the table to recognise what a later tree merely moved, renamed or newly introduced (analysis/canon.py)."""
import json, os, sys
V = os.path.dirname(os.path.dirname(os.path.abspath(__file__)))
sys.path.insert(0, V)
os.environ["VERIF_NO_CANON"] = "1"
from analysis import extract
from analysis.ir import Facts
from analysis import canon
out = {}
for crate, d in (("whirlpool", extract.program_facts()), ("orca_whirlpools_core", extract.sdk_facts())):
    F = Facts(d)
    fns = {}
    callers = F.callers()
    for f in F.fn_list:
        if f.kind == "const":
            continue
        fns[f.path] = {"params": [[f.locals[i].get("n"), f.locals[i].get("t")] for i in range(1, f.argc + 1)],
                       "ret": f.locals[0]["t"], "pub": bool(f.pub), "file": f.file, "kind": f.kind, "x": f.expn, "lits": canon.literal_fingerprint(f.rec),
                       "callers": sorted({c.path for c, _ in callers.get(f.path, [])})}
    adts = {}
    for p, a in F.adts.items():
        if a.get("file"):
            names = [fl["name"] for fl in a.get("fields", [])] if "fields" in a else [v["name"] for v in a.get("variants", [])]
            adts[p] = {"kind": a.get("kind"), "names": names}
    consts = {p: {"v": c.get("v"), "ty": c.get("ty")} for p, c in F.consts.items() if "v" in c}
    out[crate] = {"fns": fns, "adts": adts, "consts": consts}
json.dump(out, open(os.path.join(V, "specs", "reference.json"), "w"), indent=0, sort_keys=True)
print({k: (len(v["fns"]), len(v["adts"])) for k, v in out.items()})
