#!/usr/bin/env python3
"""Evaluate catalogue entries whose `expect` is "?" (or all with --all): apply each to a scratch copy,
run the first listed property's rules and record the first reported key. Entries that stay silent get
expect=null only when marked "benign": true; otherwise they are printed as MISSED for triage."""
import json, os, sys, importlib
sys.path.insert(0, os.path.dirname(os.path.dirname(os.path.abspath(__file__))))
sys.dont_write_bytecode = True
from analysis import selftest as st
import importlib.util, importlib.machinery
spec = importlib.util.spec_from_loader("checkmod", importlib.machinery.SourceFileLoader("checkmod", os.path.join(st.VERIF, "check")))
checkmod = importlib.util.module_from_spec(spec); spec.loader.exec_module(checkmod)
cat = json.load(open(st.CATALOGUE))
todo = [e for e in cat["entries"] if e.get("expect") == "?" or "--all" in sys.argv]
only = [a for a in sys.argv[1:] if not a.startswith("--")]
if only:
    todo = [e for e in cat["entries"] if e["id"] in only]
for e in todo:
    prop = e["props"][0]
    saved = e.get("expect")
    if e.get("benign"):
        # a benign edit must be silent under every listed property
        e["expect"] = None
        json.dump(cat, open(st.CATALOGUE, "w"), indent=1)
        bad = []
        for pr in e["props"]:
            r = st.run(pr, 0, checkmod.run_rules, only=[e["id"]])
            if r["failed"] or r["stale"]:
                bad.append((pr, (r["failed"] or r["stale"])[0]))
        print(e["id"], "silent (benign) under", e["props"] if not bad else "OVER-EAGER/ERROR %s" % bad)
        continue
    e["expect"] = "?"
    json.dump(cat, open(st.CATALOGUE, "w"), indent=1)
    r = st.run(prop, 0, checkmod.run_rules, only=[e["id"]])
    msg = (r["failed"] or r["stale"] or ["?"])[0]
    if r["stale"]:
        print(e["id"], "STALE"); e["expect"] = saved; continue
    if "reported as" in str(msg):
        key = str(msg).split("reported as ['")[1].split("'")[0]
        e["expect"] = key
        print(e["id"], "->", key)
    elif "not reported" in str(msg):
        if e.get("benign"):
            e["expect"] = None
            print(e["id"], "silent (benign)")
        else:
            e["expect"] = "?"
            print(e["id"], "MISSED", e["file"], repr(e["old"][:70]), "=>", repr(e["new"][:70]))
    else:
        print(e["id"], "ERROR", msg); e["expect"] = saved
    json.dump(cat, open(st.CATALOGUE, "w"), indent=1)
