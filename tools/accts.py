#!/usr/bin/env python3
import sys, os
sys.path.insert(0, os.path.dirname(os.path.dirname(os.path.abspath(__file__))))
from analysis.ir import Facts
from analysis import accounts
F = Facts(sys.argv[1])
for name in sys.argv[2:]:
    s = accounts.by_name(F, name)
    print("==", s.path, s.instruction_args)
    for f in s.fields:
        print("  ", f.describe())
