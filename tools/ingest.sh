#!/bin/bash
# ingest.sh <tag> Cxx ... : copy a finished sub-agent's output (/tmp/wt/<tag>-Cxx.out) into seeded/Cxx/<tag>/, extract facts of the
# patched trees (scratch copy, nothing executed) and run all 20 rule modules on them.
tag=$1; shift
for id in "$@"; do
  src=/tmp/wt/$tag-$id.out
  dst=/verif/seeded/$id/$tag
  mkdir -p $dst
  for f in $src/patch*.diff $src/demo*.diff $src/meta*.json $src/demo*.md; do [ -f "$f" ] && cp "$f" $dst/; done
done
cd /verif
args=""; for id in "$@"; do args="$args seeded/$id/$tag/"; done
python3 tools/matrix.py extract $args | tail -n +1
python3 tools/matrix.py run -j 6 $args | grep -v "^benign\|^seeds\|^   \|patches," 
