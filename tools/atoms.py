#!/usr/bin/env python3
import sys, os
sys.path.insert(0, os.path.dirname(os.path.dirname(os.path.abspath(__file__))))
from analysis.ir import Facts
from analysis.atoms import atoms
facts = Facts(sys.argv[1])
for f in facts.fn_list:
    if f.kind != 'const' and (f.path == sys.argv[2] or f.path.endswith(sys.argv[2])):
        print('===', f.path)
        for a in atoms(f):
            print('  bb%d %s' % (a.block, a.describe()[:400]))
