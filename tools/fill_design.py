#!/usr/bin/env python3
"""Rewrite the generated parts of DESIGN.md §10 (seed table, catalogue counts) from seeded/RESULTS.json and selftest/catalogue.json."""
import json, os, re
V = os.path.dirname(os.path.dirname(os.path.abspath(__file__)))
p = os.path.join(V, "DESIGN.md")
s = open(p).read()
mres = json.load(open(os.path.join(V, "matrix", "RESULTS.json")))
res = {}
for rel, v in mres.items():
    if v["kind"] != "seed":
        continue
    m = re.match(r"seeded/(C\d\d)/(?:(r\d)/)?patch(\d*)\.diff", rel)
    if not m:
        continue
    rnd, k = m.group(2), m.group(3) or "1"
    sid = "%s/%s" % (m.group(1), k if not rnd else "%s-%s" % (rnd, k))
    meta = {}
    mp = os.path.join(V, os.path.dirname(rel), "meta%s.json" % m.group(3))
    if os.path.exists(mp):
        try:
            meta = json.load(open(mp))
        except Exception:
            pass
    res[sid] = {"files": meta.get("files", []), "summary": v.get("summary") or meta.get("summary", ""), "fired": v["fired"], "caught": bool(v["fired"]),
                "caught_by_own_check": v["target"] in v["fired"]}
rows = ["| seed | files changed | what the change does | reported by (first keys) |", "|---|---|---|---|"]
for k in sorted(res):
    v = res[k]
    files = ", ".join(os.path.basename(f) for f in v.get("files", [])[:3])
    summ = (v.get("summary") or "").replace("|", "/")
    if len(summ) > 230:
        summ = summ[:227] + "..."
    fired = "; ".join("%s: %s" % (c, ", ".join(x.split("/", 1)[1] for x in ks[:2])) for c, ks in sorted(v["fired"].items())) or "**not reported**"
    rows.append("| %s | %s | %s | %s |" % (k, files, summ, fired))
n = len(res)
caught = sum(1 for v in res.values() if v["caught"])
own = sum(1 for v in res.values() if v["caught_by_own_check"])
table = "\n".join(rows) + "\n\nTotals on the current rules: %d of %d seeded changes reported, %d of them by the target property's own check.\n" % (caught, n, own)
begin, end = "<!-- SEED_TABLE_BEGIN -->", "<!-- SEED_TABLE_END -->"
if begin in s:
    s = s[:s.index(begin) + len(begin)] + "\n" + table + s[s.index(end):]
else:
    s = s.replace("SEED_TABLE\n", begin + "\n" + table + end + "\n")
cat = json.load(open(os.path.join(V, "selftest", "catalogue.json")))["entries"]
m = sum(1 for e in cat if e.get("expect"))
b = sum(1 for e in cat if not e.get("expect"))
s = re.sub(r"holds (?:CAT_N|\d+) entries: (?:CAT_M|\d+) seeded edits", "holds %d entries: %d seeded edits" % (len(cat), m), s)
s = re.sub(r"report it\) and (?:CAT_B|\d+) behaviour-preserving edits", "report it) and %d behaviour-preserving edits" % b, s)
open(p, "w").write(s)
print("seeds %d caught %d own %d; catalogue %d (%d mutants, %d benign)" % (n, caught, own, len(cat), m, b))
