#!/usr/bin/env python3
"""Record the pinned tree's unconditional refusals (specs/guards.json) with the properties whose rules read each function. Run on the
unchanged /repo only."""
import importlib, json, os, sys
V = os.path.dirname(os.path.dirname(os.path.abspath(__file__)))
sys.path.insert(0, V)
sys.dont_write_bytecode = True
from analysis import extract, report
from analysis.ir import Facts, AnchorMissing
from rules import guardcensus, crosschecks
facts = Facts(extract.program_facts())
sdk = Facts(extract.sdk_facts())
touched = {}
for i in range(1, 21):
    prop = "C%02d" % i
    mod = importlib.import_module("rules." + prop)
    run = report.Run(prop, "quick", facts, sdk=sdk)
    for rule in mod.RULES:
        try:
            rule(run)
        except AnchorMissing:
            pass
    crosschecks.apply(run, prop)
    for p in run.fns_touched:
        touched.setdefault(p, set()).add(prop)
out = {}
for F in (facts, sdk):
    tab = {}
    for fn in F.fn_list:
        if fn.kind == "const" or fn.expn or fn.path not in touched:
            continue
        codes = guardcensus.must_pass_refusals(fn, depth=0)
        if codes:
            tab[fn.path] = {"codes": codes, "props": sorted(touched[fn.path])}
    out[F.crate] = tab
json.dump(out, open(os.path.join(V, "specs", "guards.json"), "w"), indent=0, sort_keys=True)
print({k: (len(v), sum(sum(x["codes"].values()) for x in v.values())) for k, v in out.items()})
from rules import acctcensus
c = acctcensus.census(facts)
json.dump(c, open(os.path.join(V, "specs", "accounts_census.json"), "w"), indent=0, sort_keys=True)
print("account structs", len(c), "fields", sum(len(v) for v in c.values()))
from analysis import writes
facts._mut_sigs = None
facts._recording = True
ms = writes.mutator_signatures(facts)
json.dump({facts.crate: {p: [adt, {f: list(v) for f, v in sig.items()}] for p, (adt, sig) in ms.items()}}, open(os.path.join(V, "specs", "mutators.json"), "w"), indent=0, sort_keys=True)
print("mutator signatures", len(ms))
