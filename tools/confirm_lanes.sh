#!/bin/bash
# confirm_lanes.sh <tag> <lanes>: confirm every seed of round <tag> (demo passes without the change, fails with it; suite green)
# in <lanes> parallel scratch worktrees; results in seeded/CONFIRM_<tag>.txt
cd "$(dirname "$0")/.." || exit 2
tag=$1; lanes=${2:-4}
out=seeded/CONFIRM_$tag.txt
: > $out
ls -d seeded/C??/$tag | while read d; do for k in 1 2 3; do [ -f $d/patch$k.diff ] && echo "$d $k"; done; done > /tmp/wt/confirm_$tag.list
for lane in $(seq 1 $lanes); do
  (
    awk -v l=$lane -v n=$lanes 'NR % n == l % n' /tmp/wt/confirm_$tag.list | while read d k; do
      r=$(CONFIRM_WT=/tmp/wt/confirm$lane tools/confirm_seed.py $d $k 2>&1 | tail -1 | cut -c1-400)
      echo "$d/$k $r" >> $out
    done
  ) &
done
wait
echo DONE >> $out
