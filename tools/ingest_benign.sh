#!/bin/bash
# ingest_benign.sh <tag> Cxx ... : copy a finished refactoring agent's output (/tmp/wt/<tag>-Cxx.out) into benign/<tag>-Cxx/, extract
# facts of the patched trees (scratch copy) and run all 20 rule modules on them.
tag=$1; shift
args=""
for id in "$@"; do
  src=/tmp/wt/$tag-$id.out
  dst=/verif/benign/$tag-$id
  mkdir -p $dst
  for f in $src/patch*.diff $src/meta*.json; do [ -f "$f" ] && cp "$f" $dst/; done
  args="$args benign/$tag-$id/"
done
cd /verif
python3 tools/matrix.py extract $args | grep -v " ok$"
python3 tools/matrix.py run -j 6 $args | grep "^benign/" 
