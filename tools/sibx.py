#!/usr/bin/env python3
"""Compare a program function with an SDK function: sibx.py <prog fn> <sdk fn> [keys]"""
import sys, os
sys.path.insert(0, os.path.dirname(os.path.dirname(os.path.abspath(__file__))))
from analysis.ir import Facts
from analysis import siblings as S, extract
P = Facts(extract.program_facts())
K = Facts(extract.sdk_facts())
a, b = P.fn(sys.argv[1]), K.fn(sys.argv[2])
from rules.C20 import NORM_P, NORM_S
sa, sb = S.summary(a, S.Norm(**NORM_P)), S.summary(b, S.Norm(**NORM_S))
keys = sys.argv[3].split(',') if len(sys.argv) > 3 else ("atoms", "calls", "returns", "stores")
for k, oa, ob in S.diff(sa, sb, keys):
    print("==", k)
    for x in oa: print("  P only:", x[:600])
    for x in ob: print("  S only:", x[:600])
print("same:", {k: len(sa[k] & sb[k]) for k in keys})
