#!/usr/bin/env python3
"""Regenerate MANIFEST.json from the rule modules present under rules/."""
import importlib
import json
import os
import sys

VERIF = os.path.dirname(os.path.dirname(os.path.abspath(__file__)))
sys.path.insert(0, VERIF)
sys.dont_write_bytecode = True

props = [json.loads(l) for l in open(os.path.join(VERIF, "properties.jsonl"))]

NOT_YET = "check not built yet; planned structural rules are in DESIGN.md section 5"

checks = []
na = []
for p in props:
    pid = p["id"]
    path = os.path.join(VERIF, "rules", pid + ".py")
    if not os.path.exists(path):
        na.append({"property_id": pid, "reason": NOT_YET})
        continue
    mod = importlib.import_module("rules." + pid)
    claim = getattr(mod, "CLAIM", None)
    if claim is None:
        doc = (mod.__doc__ or "").strip()
        claim = " ".join(doc.split())
    if getattr(mod, "NOT_APPLICABLE", None):
        na.append({"property_id": pid, "reason": mod.NOT_APPLICABLE})
        continue
    checks.append({
        "property_id": pid,
        "quick_cmd": "./check %s --tier quick" % pid,
        "thorough_cmd": "./check %s --tier thorough" % pid,
        "evidence_file": "/verif/evidence/%s.json" % pid,
        "replay_cmd_template": "./check %s --replay {path}" % pid,
        "engine": "wpfacts+rules",
        "technique": getattr(mod, "TECHNIQUE", "static analysis: custom rustc_private MIR/AST fact extractor + repository-specific dataflow / dominance / who-may-write / layout rules"),
        "level_claimed": {
            "category": "other",
            "text": claim,
            "design_ref": "DESIGN.md section 5, " + pid,
        },
        "level_note": "Exact decision of the listed structural clauses only (necessary conditions of the property); the numerical / history-level "
                      "content of the statement is not decided. Trusted base: rustc nightly front end, anchor-lang 0.32.1 constraint semantics, "
                      "SPL token program semantics, the wpfacts driver and the PROV transparent-wrapper table.",
    })

m = {
    "version": 1,
    "setup_cmd": "cd /verif && ./setup.sh",
    "hooks": {
        "guard": "orca_so_whirlpools_verif",
        "enable": "none needed: the analyser is a rustc driver and reads private modules directly; no source hooks are committed",
        "baseline_off_cmd": "cd /repo && cargo test --workspace --no-fail-fast --offline",
        "source_commits": [],
        "add_only": True,
    },
    "engines": [
        {"name": "wpfacts", "path": "driver/", "kind_free_text": "rustc_private fact extractor (expanded-AST account attributes, MIR with resolved callees, layouts, evaluated consts)",
         "serves_properties": [c["property_id"] for c in checks]},
        {"name": "rules", "path": "analysis/ rules/", "kind_free_text": "Python engines: CFG/dominance/must-pass, value provenance, predicated reachability (boolean CCP), guard atoms, who-may-write, layout, Anchor constraints",
         "serves_properties": [c["property_id"] for c in checks]},
    ],
    "checks": checks,
    "not_applicable": na,
    "notes": "Technique family: static analysis only. `./check Cxx` exits 0/1 per the interface; exit 2 = ANALYSIS-INCOMPLETE (tree does not type-check) or CHECKER-SELFTEST-FAILED.",
}
json.dump(m, open(os.path.join(VERIF, "MANIFEST.json"), "w"), indent=1)
print("checks:", [c["property_id"] for c in checks])
print("not applicable:", [n["property_id"] for n in na])
