#!/usr/bin/env python3
"""Regenerate MANIFEST.json from the rule modules present under rules/."""
import importlib
import json
import os
import sys

VERIF = os.path.dirname(os.path.dirname(os.path.abspath(__file__)))
sys.path.insert(0, VERIF)
sys.dont_write_bytecode = True

props = [json.loads(l) for l in open(os.path.join(VERIF, "properties.jsonl"))]

NOT_YET = "check not built yet; planned structural rules are in DESIGN.md section 5"

BASE = ("static analysis over facts from a custom rustc_private driver (MIR with resolved callees, expanded #[account] attributes, layouts, evaluated constants), "
        "canonicalised before the rules run (inlining of helpers new to the tree and of listed single-role helpers, jump threading of materialised booleans, "
        "min/max recognition, moved-item aliasing, local conversions / plain setters read in place, whole-value stores as field stores, matches! as discriminant comparison); "
        "plus, for the functions and account structs each property reads, a census of the unconditional refusals and of the account-constraint kinds recorded on the pinned tree: ")
TECHNIQUE = {
    "C01": "who-may-call / reachability of the pool-signed transfer helpers from the 66 dispatch entries, read-reset-pay ordering by dominance, rounding-polarity tables by context-specialised constant propagation, floor-form call checks",
    "C02": "context-specialised boolean constant propagation (4 swap contexts) over inlined wrappers to the rounding flag of each curve primitive; increment-site reachability per flag; value-provenance matching of the remainder test against the incremented quotient; per-arm provenance of enum matches",
    "C03": "guard-atom extraction with error codes per context, dominance of the slippage / limit failures over every state-changing call, value provenance of thresholds, limits and loop accumulators",
    "C04": "Anchor constraint parsing (expanded AST) + linkage graph from mutated account to the signer's address source; who-may-write sets for authority and rate fields; dominance of the position-authority helper over the first effect; Pinocchio slot labelling vs Anchor struct; layout equality with SPL Pod types",
    "C05": "who-may-write sets for liquidity fields; argument-name consistency and value provenance at the four uses of one liquidity delta; guard atoms of the range test; per-arm return values",
    "C06": "value provenance of the fee split (floor forms, subtraction before growth), side tables of the settlement by context-specialised provenance, read-before-reset ordering, event field provenance",
    "C07": "taint-style discipline rule (growth accumulators only through wrapping ops), case-table decision of growth-inside by assuming guard atoms, index/side consistency of provenance terms, dominance order inside the swap loop",
    "C08": "guard atoms + per-case call arguments of the token-delta case split in both implementations, sign provenance of the liquidity delta through the handlers, threshold checks dominating transfers",
    "C09": "shape extraction of both tick ladders from MIR (masks, literals, step primitive, shifts), big-decimal audit of the literals, constant propagation of the extracted ladder at the published bounds, derivation checks of the inverse's constants, per-assumption return values of the final choice",
    "C10": "must-pass checks of the tick-array loaders (owner, length, discriminator, pool key), sibling comparison of the three search implementations, guard atoms and hand-over terms of the sequence search, loop-cursor provenance",
    "C11": "guard atoms and value provenance of reward accrual, collection (min(owed, vault), remainder stored), emission change (settle first, vault covers a day), case table of reward growth inside per index, wrap discipline",
    "C12": "layout equality (offsets/sizes from layout_of vs Borsh order) between memory-mapped views and Anchor account types, discriminator equality, accessor/setter field provenance, dispatch-table bijection, sibling comparison of 16 ported function pairs",
    "C13": "evaluated-constant relations of the dynamic encoding, pairing of rotate direction / bitmap update / written length under the same guard in both implementations, byte-offset formula provenance, resize/rent case table, account wiring by argument names",
    "C14": "clamp dominance on every non-constant return, case table of the reference update by assumed guard atoms, gate atoms dominating the swap engine in four handlers, ordering by dominance (reference update before range sizing; refresh before every step), formula and constant provenance",
    "C15": "Anchor constraint parsing per token account / mint / program field with role classification, seeds and has_one linkage, loader must-pass checks, Pinocchio verify_* calls matched one-to-one against the Anchor struct and dominating the first effect",
    "C16": "context-specialised value provenance of the transfer-fee wrapping around the curve swap (which mint, which amount, which side of the equality), helper formulas, Pinocchio TLV reader layouts and epoch selection",
    "C17": "per-context (8) call-site provenance of both legs (pool, tick sequence, limit, direction, oracle state), coupling of the intermediate amount, equality guard dominating all effects, settlement argument positions",
    "C18": "who-may-write of the range fields dominated by the range validator, guard atoms of close / lock / transfer-locked paths, bitmap update provenance, validator rejection set in both implementations",
    "C19": "dominance of `value > BOUND` (evaluated constants) over every store of a bounded field, who-may-write / whole-value overwrite sets, validator case table, supported-mint decision per extension variant with resolved callee paths",
    "C20": "the same extractor on the SDK (compiled in place with a signature-only ethnum stand-in): constant and ladder equality with the program, sibling comparison of 15 literal ports, context-specialised polarity / dispatch / bookkeeping tables of the independent swap implementation, quote wiring",
}

checks = []
na = []
for p in props:
    pid = p["id"]
    path = os.path.join(VERIF, "rules", pid + ".py")
    if not os.path.exists(path):
        na.append({"property_id": pid, "reason": NOT_YET})
        continue
    mod = importlib.import_module("rules." + pid)
    claim = getattr(mod, "CLAIM", None)
    if claim is None:
        doc = (mod.__doc__ or "").strip()
        claim = " ".join(doc.split())
    if getattr(mod, "NOT_APPLICABLE", None):
        na.append({"property_id": pid, "reason": mod.NOT_APPLICABLE})
        continue
    checks.append({
        "property_id": pid,
        "quick_cmd": "./check %s --tier quick" % pid,
        "thorough_cmd": "./check %s --tier thorough" % pid,
        "evidence_file": "/verif/evidence/%s.json" % pid,
        "replay_cmd_template": "./check %s --replay {path}" % pid,
        "engine": "wpfacts+rules",
        "technique": BASE + getattr(mod, "TECHNIQUE", TECHNIQUE[pid]),
        "level_claimed": {
            "category": "other",
            "text": claim,
            "design_ref": "DESIGN.md section 5, " + pid,
        },
        "level_note": "Exact decision of the listed structural clauses only (necessary conditions of the property); the numerical / history-level "
                      "content of the statement is not decided. Trusted base: rustc nightly front end, anchor-lang 0.32.1 constraint semantics, "
                      "SPL token program semantics, the wpfacts driver and the PROV transparent-wrapper table.",
    })

m = {
    "version": 1,
    "setup_cmd": "cd /verif && ./setup.sh",
    "hooks": {
        "guard": "orca_so_whirlpools_verif",
        "enable": "none needed: the analyser is a rustc driver and reads private modules directly; no source hooks are committed",
        "baseline_off_cmd": "cd /repo && cargo test --workspace --no-fail-fast --offline",
        "source_commits": [],
        "add_only": True,
    },
    "engines": [
        {"name": "wpfacts", "path": "driver/", "kind_free_text": "rustc_private fact extractor (expanded-AST account attributes, MIR with resolved callees, layouts, evaluated consts)",
         "serves_properties": [c["property_id"] for c in checks]},
        {"name": "rules", "path": "analysis/ rules/", "kind_free_text": "Python engines: CFG/dominance/must-pass, value provenance, predicated reachability (boolean CCP), guard atoms, who-may-write, layout, Anchor constraints",
         "serves_properties": [c["property_id"] for c in checks]},
    ],
    "checks": checks,
    "not_applicable": na,
    "notes": "Technique family: static analysis only. `./check Cxx` exits 0/1 per the interface; exit 2 = ANALYSIS-INCOMPLETE (tree does not type-check) or CHECKER-SELFTEST-FAILED.",
}
json.dump(m, open(os.path.join(VERIF, "MANIFEST.json"), "w"), indent=1)
print("checks:", [c["property_id"] for c in checks])
print("not applicable:", [n["property_id"] for n in na])
