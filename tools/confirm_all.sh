#!/bin/sh
# Confirm every round-3 seed (demo passes without the change, fails with it; the suite stays green): results in seeded/CONFIRM_r3.txt
cd "$(dirname "$0")/.." || exit 2
out=seeded/CONFIRM_r3.txt
: > $out
for d in seeded/C??/r3; do
  for k in 1 2 3; do
    [ -f $d/patch$k.diff ] || continue
    r=$(tools/confirm_seed.py $d $k 2>&1 | tail -1 | cut -c1-400)
    echo "$d/$k $r" >> $out
  done
done
echo DONE >> $out
