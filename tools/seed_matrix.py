#!/usr/bin/env python3
"""Run every seeded change under /verif/seeded against every check and write seeded/RESULTS.json.
/repo is patched and restored for each (see tryseed.py)."""
import json, os, re, subprocess, sys, glob
V = os.path.dirname(os.path.dirname(os.path.abspath(__file__)))
out = {}
for d in sorted(glob.glob(os.path.join(V, "seeded", "C??"))):
    pid = os.path.basename(d)
    for n, (pf, mf) in enumerate((("patch.diff", "meta.json"), ("patch2.diff", "meta2.json")), 1):
        p = os.path.join(d, pf)
        if not os.path.exists(p):
            continue
        meta = {}
        try:
            meta = json.load(open(os.path.join(d, mf)))
        except Exception:
            pass
        r = subprocess.run([os.path.join(V, "tools", "tryseed.py"), p, "all"], capture_output=True, text=True)
        fired = {}
        for line in r.stdout.splitlines():
            m = re.match(r"^(C\d\d) rc=(\d) (.*)$", line)
            if m:
                fired[m.group(1)] = m.group(3).split()[:6]
        out["%s/%d" % (pid, n)] = {"target": pid, "summary": meta.get("summary", ""), "files": meta.get("files", []), "fired": fired,
                                    "caught_by_own_check": pid in fired, "caught": bool(fired)}
        print(pid, n, sorted(fired) or "MISSED", flush=True)
json.dump(out, open(os.path.join(V, "seeded", "RESULTS.json"), "w"), indent=1)
print("caught %d / %d; by own check %d" % (sum(v["caught"] for v in out.values()), len(out), sum(v["caught_by_own_check"] for v in out.values())))
