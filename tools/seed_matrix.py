#!/usr/bin/env python3
"""Run every seeded change under /verif/seeded against every check and write seeded/RESULTS.json.
/repo is patched and restored for each (see tryseed.py)."""
import json, os, re, subprocess, sys, glob
V = os.path.dirname(os.path.dirname(os.path.abspath(__file__)))
out = {}
RES = os.path.join(V, "seeded", "RESULTS.json")
if len(sys.argv) > 1 and os.path.exists(RES):
    out = json.load(open(RES))   # partial re-run: keep the other entries
for d in sorted(glob.glob(os.path.join(V, "seeded", "C??"))):
    pid = os.path.basename(d)
    cands = [("%d" % n, os.path.join(d, pf), os.path.join(d, mf)) for n, (pf, mf) in enumerate((("patch.diff", "meta.json"), ("patch2.diff", "meta2.json")), 1)]
    cands += [("r2-%d" % n, os.path.join(d, "r2", pf), os.path.join(d, "r2", mf)) for n, (pf, mf) in
              enumerate((("patch.diff", "meta.json"), ("patch2.diff", "meta2.json"), ("patch3.diff", "meta3.json")), 1)]
    only = [a for a in sys.argv[1:] if not a.startswith("-")]
    for n, p, mfp in cands:
        if not os.path.exists(p):
            continue
        if only and not any(o in "%s/%s" % (pid, n) for o in only):
            continue
        meta = {}
        try:
            meta = json.load(open(mfp))
        except Exception:
            pass
        r = subprocess.run([os.path.join(V, "tools", "tryseed.py"), p, "all"], capture_output=True, text=True)
        fired = {}
        for line in r.stdout.splitlines():
            m = re.match(r"^(C\d\d) rc=(\d) (.*)$", line)
            if m:
                fired[m.group(1)] = m.group(3).split()[:6]
        out["%s/%s" % (pid, n)] = {"target": pid, "summary": meta.get("summary", ""), "files": meta.get("files", []), "fired": fired,
                                    "caught_by_own_check": pid in fired, "caught": bool(fired)}
        print(pid, n, sorted(fired) or "MISSED", flush=True)
json.dump(out, open(RES, "w"), indent=1, sort_keys=True)
print("caught %d / %d; by own check %d" % (sum(v["caught"] for v in out.values()), len(out), sum(v["caught_by_own_check"] for v in out.values())))
