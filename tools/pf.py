#!/usr/bin/env python3
"""Run rule modules on the stored facts of one patch (see matrix.py): pf.py <patch.diff> C02 [C06 ...]; prints canonicalisation log and violations."""
import importlib, os, sys
V = os.path.dirname(os.path.dirname(os.path.abspath(__file__)))
sys.path.insert(0, V); sys.path.insert(0, os.path.join(V, "tools"))
sys.dont_write_bytecode = True
import matrix
from analysis import extract, report
from analysis.ir import Facts, AnchorMissing
p = os.path.abspath(sys.argv[1])
if not os.path.exists(os.path.join(matrix.facts_dir(p), "OK")):
    matrix.extract_one(p)
d = matrix.facts_dir(p)
facts = Facts(os.path.join(d, "program", "whirlpool"))
sdkp = os.path.join(d, "sdk", "orca_whirlpools_core")
sdk = Facts(sdkp if os.path.exists(sdkp) else extract.sdk_facts())
for l in facts.canon_log + sdk.canon_log:
    print("CANON:", l)
for prop in sys.argv[2:]:
    mod = importlib.import_module("rules.%s" % prop)
    from rules import crosschecks as _cx
    run = report.Run(prop, "quick", facts, sdk=sdk if (getattr(mod, "NEEDS_SDK", False) or prop in _cx.NEEDS_SDK) else None)
    for rule in mod.RULES:
        try:
            rule(run)
        except AnchorMissing as e:
            run.missing(rule.__name__.split("_")[0], "anchor", str(e))
    from rules import crosschecks
    crosschecks.apply(run, prop)
    bad = [r for r in run.results if r.status != "pass"]
    print("%s: %d results, %d not passing" % (prop, len(run.results), len(bad)))
    for r in bad:
        print("  ", r.key, "\n      ", (r.msg or "")[:500], "\n       at", r.loc, ("\n       expected %s\n       found %s" % (r.expected, r.found)) if r.expected or r.found else "")
