#!/usr/bin/env python3
import sys, os
sys.path.insert(0, os.path.dirname(os.path.dirname(os.path.abspath(__file__))))
from analysis import extract
print(extract.sdk_facts() if len(sys.argv) > 1 and sys.argv[1] == 'sdk' else extract.program_facts())
