#!/bin/sh
# Run every quick check on /repo's current tree; non-zero exit if any check does. Use before committing evidence.
cd "$(dirname "$0")/.." || exit 2
rc=0
for i in 01 02 03 04 05 06 07 08 09 10 11 12 13 14 15 16 17 18 19 20; do
  out=$(./check C$i) || { rc=1; echo "$out" | grep -A3 violation | head -20; }
  echo "$out" | tail -1
done
exit $rc
