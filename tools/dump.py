#!/usr/bin/env python3
"""Debug helper: print a function's calls / switches with provenance terms."""
import sys, os
sys.path.insert(0, os.path.dirname(os.path.dirname(os.path.abspath(__file__))))
from analysis.ir import Facts, callee_path
from analysis.prov import prov_of, show
from analysis import cfg

def main():
    d = sys.argv[1]
    pat = sys.argv[2]
    facts = Facts(d)
    for f in facts.fn_list:
        if f.kind == 'const' and not pat.startswith('const '): continue
        if not (f.path == pat or f.path.endswith(pat)): continue
        print("=== %s %s:%d params=%s" % (f.path, f.file, f.line, f.param_names()))
        pv = prov_of(f)
        errs = cfg.err_assign_blocks(f)
        for bi, bb in enumerate(f.blocks):
            if bb['c']: continue
            for si, st in enumerate(bb['s']):
                if st['k'] == '=' and ('p' in st['p']):
                    print("  bb%d.%d  STORE %s := %s   (l%d)" % (bi, si, show(pv.place(st['p'], bi, si)), show(pv._rvalue(st['rv'], bi, si, 0)), st['l']))
            t = bb['t']
            if t['k'] == 'call':
                args = [show(pv.operand(a, bi, len(bb['s']))) for a in t['a']]
                print("  bb%d  CALL %s(%s) -> bb%s  l%d %s" % (bi, callee_path(t) or '<ind>', ', '.join(args), t['t'], t['l'], 'ERR' if bi in errs else ''))
            elif t['k'] == 'switch':
                print("  bb%d  SWITCH %s  %s else bb%d  l%d" % (bi, show(pv.operand(t['d'], bi, len(bb['s']))), t['ts'], t['o'], t['l']))
            elif t['k'] == 'ret':
                print("  bb%d  RET %s" % (bi, show(pv.local(0, bi, len(bb['s'])))))
            elif t['k'] == 'assert':
                print("  bb%d  ASSERT %s" % (bi, t['m']))
            elif bi in errs:
                print("  bb%d  ERRBLOCK" % bi)
main()
