#!/usr/bin/env python3
"""Prepare scratch worktrees for a refactoring (behaviour-preserving) sub-agent campaign. usage: benign_prepare.py <tag> C01 C02 ...
Like r3_prepare.py; the "already" list is taken from benign/*-<id>/meta*.json (agent-written summaries, nothing about the checks)."""
import glob, json, os, subprocess, sys
V = os.path.dirname(os.path.dirname(os.path.abspath(__file__)))
tag = sys.argv[1]
props = {json.loads(l)["id"]: json.loads(l) for l in open(os.path.join(V, "properties.jsonl"))}
tmpl = open(os.path.join(V, "tools", "prompts", "benign_n5.md")).read()
os.makedirs("/tmp/wt", exist_ok=True)
for pid in sys.argv[2:]:
    wt = "/tmp/wt/%s-%s" % (tag, pid)
    if not os.path.exists(wt):
        subprocess.run(["git", "-C", "/repo", "worktree", "add", "--detach", wt], check=True, capture_output=True)
        if os.path.exists("/repo/target"):
            subprocess.run(["cp", "-r", "/repo/target", wt + "/target"], check=True)
    json.dump(props[pid], open(wt + ".property.json", "w"), indent=1)
    lines = []
    for m in sorted(glob.glob(os.path.join(V, "benign", "*-" + pid, "meta*.json"))):
        try:
            d = json.load(open(m))
            lines.append("- [%s] (%s) %s" % (", ".join(os.path.basename(f) for f in d.get("files", [])), d.get("kind", "?"), d.get("summary", "")))
        except Exception:
            pass
    open(wt + ".already.txt", "w").write("\n".join(lines) + "\n")
    os.makedirs(wt + ".out", exist_ok=True)
    t = tmpl.replace("WT", wt)
    if "git stash" not in t:
        t = t.replace("/root/.claude.", "/root/.claude. Do not use `git stash` (the stash is shared between worktrees).", 1)
    open(wt + ".task.md", "w").write(t)
    print(wt, len(lines))
