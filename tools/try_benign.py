#!/usr/bin/env python3
"""Run every check against each behaviour-preserving patch of a directory (patch<k>.diff + meta<k>.json) and record which checks
raise an alarm (each one is a false alarm to be fixed in the checker). usage: try_benign.py <dir> [...]  -> <dir>/RESULT.json"""
import glob, json, os, re, subprocess, sys
V = os.path.dirname(os.path.dirname(os.path.abspath(__file__)))
for d in sys.argv[1:]:
    out = {}
    for p in sorted(glob.glob(os.path.join(d, "patch*.diff"))):
        k = re.search(r"patch(\d+)\.diff", p).group(1)
        meta = {}
        try:
            meta = json.load(open(os.path.join(d, "meta%s.json" % k)))
        except Exception:
            pass
        r = subprocess.run([os.path.join(V, "tools", "tryseed.py"), p, "all"], capture_output=True, text=True)
        fired = {}
        for line in r.stdout.splitlines():
            m = re.match(r"^(C\d\d) rc=(\d) (.*)$", line)
            if m:
                fired[m.group(1)] = m.group(3).split()
        if "DOES NOT APPLY" in r.stdout or "NOT CLEAN" in r.stdout:
            fired = {"ERROR": [r.stdout[:200]]}
        out[k] = {"kind": meta.get("kind"), "summary": meta.get("summary"), "files": meta.get("files"), "fired": fired}
        print(os.path.basename(d.rstrip("/")), k, meta.get("kind"), "->", fired or "silent", flush=True)
    json.dump(out, open(os.path.join(d, "RESULT.json"), "w"), indent=1)
