#!/usr/bin/env python3
import sys, os
sys.path.insert(0, os.path.dirname(os.path.dirname(os.path.abspath(__file__))))
from analysis.ir import Facts
from analysis import siblings as S
F = Facts(sys.argv[1])
a, b = F.fn(sys.argv[2]), F.fn(sys.argv[3])
n = S.Norm()
sa, sb = S.summary(a, n), S.summary(b, n)
keys = sys.argv[4].split(',') if len(sys.argv) > 4 else ("atoms", "calls", "returns")
for k, oa, ob in S.diff(sa, sb, keys):
    print("==", k)
    for x in oa: print("  A only:", x[:600])
    for x in ob: print("  B only:", x[:600])
print("same:", {k: len(sa[k] & sb[k]) for k in keys})
