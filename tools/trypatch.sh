#!/bin/sh
# usage: trypatch.sh <patch> Cxx [Cyy ...] : apply, show canonicalisation log + violations of the named checks, revert
P=$1; shift
git -C /repo apply --whitespace=nowarn "$P" || exit 3
export VERIF_EVIDENCE_DIR=/tmp/wpverif-ev-try; mkdir -p $VERIF_EVIDENCE_DIR
python3 - <<'PY'
import sys
sys.path.insert(0,'/verif')
from analysis import extract
from analysis.ir import Facts
F=Facts(extract.program_facts())
for l in F.canon_log: print("CANON:", l)
PY
for c in "$@"; do /verif/check $c 2>&1 | grep -A3 "  violation\|^C[0-9][0-9]:" | cut -c1-600; done
git -C /repo apply -R --whitespace=nowarn "$P"; git -C /repo checkout -- .
