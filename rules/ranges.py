"""Interval tests read as polynomial bounds (shared by C10.R3 / C13.R7 and the Anchor~Pinocchio pair of C12.R5)."""
from analysis import cfg, atoms as A
from analysis.prov import prov_of, strip, subterms, show
from analysis.match import is_param, is_call
from analysis.poly import poly

def search_range_bounds(fn, shifted):
    """The interval test of in_search_range under `shifted`, as {"Ge": poly, "Lt": poly} over S = start_tick_index() and
    T = tick_spacing: every comparison of tick_index on the way to / in the returned value (&&-chains, returned comparisons,
    Range::contains), bounds evaluated as polynomials, mutable bounds as initial value plus their once-executed updates."""
    pv = prov_of(fn, {"shifted": shifted}, cut=True)
    has_loop = any(b in cfg.reach(fn, s_) for b in range(len(fn.blocks)) for s_ in fn.succ()[b])
    why = []

    def expand(t, depth=0):
        t = strip(t)
        if t[0] == "var" and depth < 6:
            ds = [strip(d) for (_, _, d) in pv.var_defs(t[2])]
            inits = [d for d in ds if not any(x[0] == "var" and x[2] == t[2] for x in subterms(d))]
            upd = [d for d in ds if d not in inits]
            if len(inits) != 1 or has_loop:
                why.append("bound %s has %d initial values" % (show(t), len(inits)))
                return t
            out = expand(inits[0], depth + 1)
            for u in upd:
                if u[0] == "bin" and (u[1].startswith("Add") or u[1].startswith("Sub")) and strip(u[2]) == t:
                    out = ("bin", u[1], out, expand(u[3], depth + 1))
                else:
                    why.append("bound %s updated by %s" % (show(t), show(u)))
            return out
        if t[0] == "bin":
            return ("bin", t[1], expand(t[2], depth), expand(t[3], depth))
        return t

    def atom(t):
        t = strip(t)
        if is_call(t, "start_tick_index"):
            return "S"
        if t[0] == "param" and t[1] == "tick_spacing":
            return "T"
        return show(t, True)

    def bound(t):
        return poly(expand(t), atom)

    cmps = []
    def add(op, a, b):
        a_, b_ = strip(a), strip(b)
        if is_param(a_, "tick_index"):
            pass
        elif is_param(b_, "tick_index"):
            op = {"Ge": "Le", "Gt": "Lt", "Le": "Ge", "Lt": "Gt"}.get(op, op)
            a_, b_ = b_, a_
        else:
            return
        p = bound(b_)
        if op in ("Gt", "Le"):
            p = dict(p)
            p[()] = p.get((), 0) + 1
            p = {m: c for m, c in p.items() if c}
            op = "Ge" if op == "Gt" else "Lt"
        if op in ("Ge", "Lt"):
            cmps.append((op, p))
        else:
            why.append("tick_index compared with %s" % op)

    def scan(t):
        for x in subterms(t):
            if x[0] == "bin" and x[1] in ("Ge", "Gt", "Le", "Lt", "Eq", "Ne"):
                add(x[1], x[2], x[3])
            elif x[0] == "call" and x[1].endswith("::contains") and len(x[2]) == 2 and is_param(strip(x[2][1]), "tick_index"):
                r = strip(x[2][0])
                if r[0] == "agg" and r[1].endswith("Range"):
                    f = dict(r[3])
                    add("Ge", x[2][1], f["start"]); add("Lt", x[2][1], f["end"])
                elif r[0] == "call" and r[1].split("<")[0].endswith("RangeInclusive::new") or (r[0] == "agg" and r[1].endswith("RangeInclusive")):
                    lo_, hi_ = (r[2][0], r[2][1]) if r[0] == "call" else (dict(r[3])["start"], dict(r[3])["end"])
                    add("Ge", x[2][1], lo_); add("Le", x[2][1], hi_)
                else:
                    why.append("contains on %s" % show(r)[:60])
    for at in A.atoms(fn, {"shifted": shifted}, cut=True):
        c = at.cond()
        if c:
            add(c[0], c[1], c[2])
    for bi, bb in enumerate(fn.blocks):
        if bb["t"]["k"] == "ret" and pv.flow.state_in[bi] is not None:
            scan(pv.local(0, bi, len(bb["s"])))
    got = {}
    for op, p in cmps:
        if op in got and got[op] != p:
            why.append("two different %s bounds" % op)
            return None, "; ".join(why)
        got[op] = p
    return got, "; ".join(dict.fromkeys(why))

