"""Interval tests read as polynomial bounds (shared by C10.R3 / C13.R7 and the Anchor~Pinocchio pair of C12.R5)."""
from analysis import cfg, atoms as A
from analysis.prov import prov_of, strip, subterms, show, leaves
from analysis.match import is_param, is_call, const_val
from analysis.ir import callee_path
from analysis.poly import poly

def search_range_bounds(fn, shifted):
    """The interval test of in_search_range under `shifted`, as {"Ge": poly, "Lt": poly} over S = start_tick_index() and
    T = tick_spacing: every comparison of tick_index on the way to / in the returned value (&&-chains, returned comparisons,
    Range::contains), bounds evaluated as polynomials, mutable bounds as initial value plus their once-executed updates."""
    pv = prov_of(fn, {"shifted": shifted}, cut=True)
    has_loop = any(b in cfg.reach(fn, s_) for b in range(len(fn.blocks)) for s_ in fn.succ()[b])
    why = []

    def expand(t, depth=0):
        t = strip(t)
        if t[0] == "var" and depth < 6:
            ds = [strip(d) for (_, _, d) in pv.var_defs(t[2])]
            inits = [d for d in ds if not any(x[0] == "var" and x[2] == t[2] for x in subterms(d))]
            upd = [d for d in ds if d not in inits]
            if len(inits) != 1 or has_loop:
                why.append("bound %s has %d initial values" % (show(t), len(inits)))
                return t
            out = expand(inits[0], depth + 1)
            for u in upd:
                if u[0] == "bin" and (u[1].startswith("Add") or u[1].startswith("Sub")) and strip(u[2]) == t:
                    out = ("bin", u[1], out, expand(u[3], depth + 1))
                else:
                    why.append("bound %s updated by %s" % (show(t), show(u)))
            return out
        if t[0] == "bin":
            return ("bin", t[1], expand(t[2], depth), expand(t[3], depth))
        return t

    def atom(t):
        t = strip(t)
        if is_call(t, "start_tick_index"):
            return "S"
        if t[0] == "param" and t[1] == "tick_spacing":
            return "T"
        return show(t, True)

    def bound(t):
        return poly(expand(t), atom)

    cmps = []
    def add(op, a, b):
        a_, b_ = strip(a), strip(b)
        if is_param(a_, "tick_index"):
            pass
        elif is_param(b_, "tick_index"):
            op = {"Ge": "Le", "Gt": "Lt", "Le": "Ge", "Lt": "Gt"}.get(op, op)
            a_, b_ = b_, a_
        else:
            return
        p = bound(b_)
        if op in ("Gt", "Le"):
            p = dict(p)
            p[()] = p.get((), 0) + 1
            p = {m: c for m, c in p.items() if c}
            op = "Ge" if op == "Gt" else "Lt"
        if op in ("Ge", "Lt"):
            cmps.append((op, p))
        else:
            why.append("tick_index compared with %s" % op)

    def scan(t):
        for x in subterms(t):
            if x[0] == "bin" and x[1] in ("Ge", "Gt", "Le", "Lt", "Eq", "Ne"):
                add(x[1], x[2], x[3])
            elif x[0] == "call" and x[1].endswith("::contains") and len(x[2]) == 2 and is_param(strip(x[2][1]), "tick_index"):
                r = strip(x[2][0])
                if r[0] == "agg" and r[1].endswith("Range"):
                    f = dict(r[3])
                    add("Ge", x[2][1], f["start"]); add("Lt", x[2][1], f["end"])
                elif r[0] == "call" and r[1].split("<")[0].endswith("RangeInclusive::new") or (r[0] == "agg" and r[1].endswith("RangeInclusive")):
                    lo_, hi_ = (r[2][0], r[2][1]) if r[0] == "call" else (dict(r[3])["start"], dict(r[3])["end"])
                    add("Ge", x[2][1], lo_); add("Le", x[2][1], hi_)
                else:
                    why.append("contains on %s" % show(r)[:60])
    for at in A.atoms(fn, {"shifted": shifted}, cut=True):
        c = at.cond()
        if c:
            add(c[0], c[1], c[2])
    for bi, bb in enumerate(fn.blocks):
        if bb["t"]["k"] == "ret" and pv.flow.state_in[bi] is not None:
            scan(pv.local(0, bi, len(bb["s"])))
    got = {}
    for op, p in cmps:
        if op in got and got[op] != p:
            why.append("two different %s bounds" % op)
            return None, "; ".join(why)
        got[op] = p
    return got, "; ".join(dict.fromkeys(why))



def _nonneg(fn, t):
    """The term cannot be negative: a non-negative literal or a widening of an unsigned parameter / field."""
    t0 = t
    while t0[0] == "q":
        t0 = t0[1]
    if t0[0] == "const":
        return isinstance(t0[1], int) and not isinstance(t0[1], bool) and t0[1] >= 0
    if t0[0] == "cast":
        inner = strip(t0[1])
        if inner[0] == "param":
            for i in range(1, fn.argc + 1):
                if fn.locals[i].get("n") == inner[1] or fn.param_names()[i - 1] == inner[1]:
                    return fn.locals[i]["t"].lstrip("&").strip().startswith("u")
    return False


def _signum_floor_form(fn, pv, ret, ats):
    """(x, y) when fn is `if x % y == 0 || x.signum() == y.signum() { x / y } else { x / y - 1 }` (the floor for every non-zero y:
    truncation and floor differ only when the remainder is non-zero and the signs differ), else None."""
    from analysis.prov import prov_assuming
    rem = sig = None
    for at in ats:
        c = at.cond()
        if not c or c[0] not in ("Eq", "Ne"):
            continue
        a, b = strip(c[1]), strip(c[2])
        for (p, q) in ((a, b), (b, a)):
            if p[0] == "bin" and p[1] == "Rem" and const_val(q) == 0:
                rem = (at, c[0], strip(p[2]), strip(p[3]))
        if is_call(a, "signum") and is_call(b, "signum"):
            sig = (at, c[0], {strip(a[2][0]), strip(b[2][0])})
    # (a bounds assertion on the divisor may come first; it is no branch of the formula)
    others = [at for at in ats if at is not (rem or (None,))[0] and at is not (sig or (None,))[0] and ret in cfg.reach(fn, at.true_targets[0], cut_blocks=[at.block])
              and ret in cfg.reach(fn, at.false_targets[0], cut_blocks=[at.block])]
    if not rem or not sig or others:
        return None
    x, y = rem[2], rem[3]
    if sig[2] != {x, y}:
        return None
    def is_div(t):
        t = strip(t)
        return t[0] == "bin" and t[1] == "Div" and strip(t[2]) == x and strip(t[3]) == y
    res = {}
    for rz in (True, False):
        for se in (True, False):
            try:
                pa = prov_assuming(fn, [(rem[0], rz if rem[1] == "Eq" else not rz), (sig[0], se if sig[1] == "Eq" else not se)])
            except Exception:
                return None
            if pa.flow is not None and pa.flow.state_in[ret] is None:
                continue        # (short-circuit: the second test is not reached)
            res[(rz, se)] = strip(pa.local(0, ret, len(fn.blocks[ret]["s"])))
    for (rz, se), v in res.items():
        if rz or se:
            if not is_div(v):
                return None
        elif not (v[0] == "bin" and v[1].startswith("Sub") and is_div(v[2]) and const_val(v[3]) == 1):
            return None
    return (x, y) if (False, False) in res else None


def floor_div_form(fn):
    """(x, y) when `fn` returns floor(x / y) for y > 0, however written: `let d = x / y; if x % y < 0 { d - 1 } else { d }`,
    or `x.div_euclid(y)` with y a widened unsigned value (for a positive divisor the Euclidean quotient is the floor).
    Otherwise (None, why)."""
    pv = prov_of(fn)
    rets = [bi for bi, bb in enumerate(fn.blocks) if bb["t"]["k"] == "ret" and not bb["c"]]
    if len(rets) != 1:
        return None, "%d return blocks" % len(rets)
    r = strip(pv.local(0, rets[0], len(fn.blocks[rets[0]]["s"])))
    if is_call(r, "div_euclid") and len(r[2]) == 2:
        x, y = r[2]
        # ... or a divisor the function asserts to be positive before dividing (`assert!(y > 0)`: the other outcome does not return)
        asserted = False
        for at in A.atoms(fn):
            c = at.cond()
            if not c:
                continue
            for (o, p_, q_, bad) in ((c[0], c[1], c[2], at.false_targets[0]), (A.NEG[c[0]], c[1], c[2], at.true_targets[0])):
                for (oo, pp, qq) in ((o, p_, q_), (A.SWAP[o], q_, p_)):
                    if strip(pp) == strip(y) and ((oo == "Gt" and const_val(qq) == 0) or (oo == "Ge" and const_val(qq) == 1)) \
                            and rets[0] not in cfg.reach(fn, bad, cut_blocks=[at.block]) and cfg.dominates(fn, at.block, rets[0]):
                        asserted = True
        if not _nonneg(fn, y) and not asserted:
            return None, "div_euclid by %s, which is not known to be positive" % show(y)
        return (strip(x), strip(y)), ""
    ats = [a for a in A.atoms(fn)]
    sg = _signum_floor_form(fn, pv, rets[0], ats)
    if sg:
        return sg, ""
    if len(ats) != 1 or ats[0].cond() is None:
        return None, "%d branch(es)" % len(ats)
    from analysis.prov import prov_assuming
    at = ats[0]
    op, a, b = at.cond()
    a, b = strip(a), strip(b)
    # remainder < 0 (or 0 > remainder), possibly negated
    if op in ("Gt", "Le"):
        op, a, b = {"Gt": "Lt", "Le": "Ge"}[op], b, a
    if not (op in ("Lt", "Ge") and a[0] == "bin" and a[1] == "Rem" and b[0] == "const" and b[1] == 0):
        return None, "branches on %s" % at.describe()[:80]
    x, y = strip(a[2]), strip(a[3])
    out = {}
    for truth in (True, False):
        pa = prov_assuming(fn, [(at, truth)])
        out[truth] = strip(pa.local(0, rets[0], len(fn.blocks[rets[0]]["s"])))
    neg_side, pos_side = (out[True], out[False]) if op == "Lt" else (out[False], out[True])
    div = ("bin", "Div", a[2], a[3])
    def is_div(t):
        t = strip(t)
        return t[0] == "bin" and t[1] == "Div" and strip(t[2]) == x and strip(t[3]) == y
    ok = is_div(pos_side) and neg_side[0] == "bin" and neg_side[1].startswith("Sub") and is_div(neg_side[2]) and strip(neg_side[3])[:2] == ("const", 1)
    if not ok:
        return None, "remainder < 0 gives %s, otherwise %s" % (show(neg_side), show(pos_side))
    return (x, y), ""


def search_model(facts, fn, ab, offset_call="tick_offset"):
    """The slot search of a get_next_init_tick_index in direction `ab`, however it is written (a cursor stepped in a `while`, or
    `Iterator::find` over a range / reversed inclusive range):
      dict(first=poly, dir=-1|+1, lo=poly, hi=poly, result=poly, form="loop"|"find")
    over o = the slot offset of tick_index (tick_offset(..)?), x = the slot found, S = start tick index, T = tick spacing. `first` is the
    first slot tested; slots are tested while lo <= slot < hi. Otherwise (None, why)."""
    pv = prov_of(fn, {"a_to_b": ab}, cut="loop")

    def atom(t):
        t = strip(t)
        if t[0] == "call" and t[1].rsplit("::", 1)[-1] == offset_call:
            return "o"
        if is_call(t, "start_tick_index") or (t[0] == "field" and t[2] == "start_tick_index"):
            return "S"
        if t[0] == "param" and t[1] == "tick_spacing":
            return "T"
        return show(t, True)

    def P(t):
        return {m: c for m, c in poly(t, atom).items() if c}
    live = lambda b: pv.flow is None or pv.flow.state_in[b] is not None
    # --- Iterator::find form
    finds = [(bi, t) for bi, t in fn.calls() if live(bi) and not fn.blocks[bi]["c"] and (callee_path(t) or "").rsplit("::", 1)[-1] == "find"
             and "iter" in (t["f"].get("raw") or callee_path(t) or "")]
    if finds:
        if len(finds) != 1:
            return None, "%d find calls in direction a_to_b=%s" % (len(finds), ab)
        bi, t = finds[0]
        it = strip(pv.operand(t["a"][0], bi, len(fn.blocks[bi]["s"])))
        clo = strip(pv.operand(t["a"][1], bi, len(fn.blocks[bi]["s"])))
        rev = False
        if is_call(it, "rev") and len(it[2]) == 1:
            rev = True
            it = strip(it[2][0])
        if it[0] == "agg" and it[1].endswith("ops::Range"):
            f = dict(it[3])
            lo, hi = P(f["start"]), P(f["end"])
        elif it[0] == "call" and it[1].split("::<")[0].endswith("RangeInclusive") and it[1].endswith("::new") and len(it[2]) == 2:
            lo, hi = P(it[2][0]), P(("bin", "Add", it[2][1], ("const", 1, None, None)))
        else:
            return None, "find over %s" % show(it)[:80]
        # the predicate: ticks[slot].initialized of this array
        if clo[0] != "closure":
            return None, "find with %s" % show(clo)[:60]
        cf = facts.fn(clo[1])
        okp = False
        if cf is not None:
            pc = prov_of(cf)
            for b2, bb2 in enumerate(cf.blocks):
                if bb2["t"]["k"] == "ret":
                    r = strip(pc.local(0, b2, len(bb2["s"])))
                    okp = r[0] == "field" and r[2] == "initialized" and strip(r[1])[0] == "index" and any(x[0] == "field" and x[2] == "ticks" for x in subterms(r[1])) \
                        and any(x[0] == "param" for x in subterms(strip(r[1])[2]))
        if not okp:
            return None, "the find predicate is not ticks[slot].initialized"
        # found slot -> tick: Option::map(closure) over (x)
        res = None
        for b2, t2 in fn.calls():
            if live(b2) and (callee_path(t2) or "").rsplit("::", 1)[-1] == "map" and len(t2["a"]) == 2:
                c2 = strip(pv.operand(t2["a"][1], b2, len(fn.blocks[b2]["s"])))
                g = facts.fn(c2[1]) if c2[0] == "closure" else None
                if g is None:
                    continue
                pg = prov_of(g)
                caps = dict(zip(range(len(c2[2])), c2[2]))

                def gatom(x):
                    x = strip(x)
                    if x[0] == "param" and x[1] != "self" and not x[1].startswith("_"):
                        return "x"
                    if x[0] == "param":
                        return "x" if g.param_names().index(x[1]) == 1 else show(x, True)
                    if x[0] == "field" and x[2] == "start_tick_index":
                        return "S"
                    if x[0] == "field" and x[2] in ("tick_spacing",):
                        return "T"
                    if x[0] == "field" and x[2].isdigit():
                        # a captured variable: upvar i of the closure environment
                        cap = caps.get(int(x[2]))
                        if cap is not None:
                            return atom(cap) if atom(cap) in ("S", "T", "o") else ("T" if any(s_[0] == "param" and s_[1] == "tick_spacing" for s_ in subterms(cap)) else show(cap, True))
                    return show(x, True)
                for b3, bb3 in enumerate(g.blocks):
                    if bb3["t"]["k"] == "ret":
                        res = {m: c for m, c in poly(pg.local(0, b3, len(bb3["s"])), gatom).items() if c}
        if res is None:
            return None, "the found slot is not mapped to a tick index"
        if rev:
            first = {m: c for m, c in hi.items()}
            first[()] = first.get((), 0) - 1
            first = {m: c for m, c in first.items() if c}
        else:
            first = lo
        # a first slot outside the array finds nothing: `(glo..ghi).contains(first)` must hold on the way to the find
        guard = None
        for at in A.atoms(fn, {"a_to_b": ab}, cut="loop"):
            tt = strip(at.term)
            if tt[0] == "call" and tt[1].endswith("::contains") and len(tt[2]) == 2 and P(tt[2][1]) == first:
                rg = strip(tt[2][0])
                if rg[0] == "agg" and rg[1].endswith("ops::Range") and bi in cfg.reach(fn, at.true_targets[0]) and bi not in cfg.reach(fn, at.false_targets[0]):
                    f = dict(rg[3])
                    guard = (P(f["start"]), P(f["end"]))
        if guard is None:
            return None, "the find is not guarded by `(lo..hi).contains(first slot)`"
        return dict(first=first, dir=-1 if rev else 1, stop=lo if rev else hi, guard=guard, result=res, form="find"), ""
    # --- cursor loop form
    cyc = pv.cycle_blocks()
    cursor = None
    for loc_ in range(fn.argc + 1, len(fn.locals)):
        if not fn.locals[loc_].get("n"):
            continue
        ds = pv.var_defs(loc_)
        inloop = [(b, t) for (b, _, t) in ds if b in cyc]
        if inloop and all(strip(t)[0] == "bin" and strip(strip(t)[2]) == ("var", fn.locals[loc_]["n"], loc_) for _, t in inloop):
            cursor = loc_
    if cursor is None:
        return None, "no search cursor (a local stepped inside a loop) and no Iterator::find"
    cv = ("var", fn.locals[cursor]["n"], cursor)
    ds = pv.var_defs(cursor)
    steps = set()
    for (b, _, t) in ds:
        if b in cyc:
            s = strip(t)
            for amt in leaves(strip(s[3])):
                v_ = const_val(amt)
                if v_ in (1, -1) and s[1][:3] in ("Add", "Sub"):
                    steps.add(v_ if s[1][:3] == "Add" else -v_)
                else:
                    steps.add(None)
    if len(steps) != 1 or None in steps:
        return None, "the cursor is stepped by %s" % sorted(map(str, steps))
    d = steps.pop()
    outside = [strip(t) for (b, _, t) in ds if b not in cyc]
    init = [t for t in outside if not any(x == cv for x in subterms(t))]
    pre = [t for t in outside if t not in init]
    if len(init) != 1 or len(pre) > 1:
        return None, "cursor initialised %d times, adjusted %d times before the loop" % (len(init), len(pre))
    first = P(init[0])
    if pre:
        u = pre[0]
        if not (u[0] == "bin" and u[1][:3] in ("Add", "Sub") and strip(u[2]) == cv and const_val(u[3]) is not None):
            return None, "cursor adjusted by %s before the loop" % show(u)[:60]
        first[()] = first.get((), 0) + (const_val(u[3]) if u[1][:3] == "Add" else -const_val(u[3]))
        first = {m: c for m, c in first.items() if c}
    # loop bound: contains(Range{lo, hi}, cursor) / lo <= cursor && cursor < hi
    lo = hi = None
    for at in A.atoms(fn, {"a_to_b": ab}, cut="loop"):
        if at.block not in cyc:
            continue
        tt = strip(at.term)
        if tt[0] == "call" and tt[1].endswith("::contains") and len(tt[2]) == 2 and strip(tt[2][1]) == cv:
            rg = strip(tt[2][0])
            if rg[0] == "agg" and rg[1].endswith("ops::Range"):
                f = dict(rg[3])
                lo, hi = P(f["start"]), P(f["end"])
    if lo is None:
        return None, "no `(lo..hi).contains(cursor)` loop condition"
    res = None
    for bi, bb in enumerate(fn.blocks):
        if bb["t"]["k"] == "ret" and live(bi):
            for l in leaves(pv.local(0, bi, len(bb["s"]))):
                l = strip(l)
                if l[0] == "agg" and l[2] == "Ok":
                    inner = strip(dict(l[3])["0"])
                    if inner[0] == "agg" and inner[2] == "Some":
                        v = dict(inner[3])["0"]
                        res = {m: c for m, c in poly(v, lambda x: "x" if strip(x) == cv else atom(x)).items() if c}
    if res is None:
        return None, "no Ok(Some(..)) result"
    return dict(first=first, dir=d, stop=lo if d < 0 else hi, guard=(lo, hi), result=res, form="loop"), ""
