"""Interval tests read as polynomial bounds (shared by C10.R3 / C13.R7 and the Anchor~Pinocchio pair of C12.R5)."""
from analysis import cfg, atoms as A
from analysis.prov import prov_of, strip, subterms, show
from analysis.match import is_param, is_call
from analysis.poly import poly

def search_range_bounds(fn, shifted):
    """The interval test of in_search_range under `shifted`, as {"Ge": poly, "Lt": poly} over S = start_tick_index() and
    T = tick_spacing: every comparison of tick_index on the way to / in the returned value (&&-chains, returned comparisons,
    Range::contains), bounds evaluated as polynomials, mutable bounds as initial value plus their once-executed updates."""
    pv = prov_of(fn, {"shifted": shifted}, cut=True)
    has_loop = any(b in cfg.reach(fn, s_) for b in range(len(fn.blocks)) for s_ in fn.succ()[b])
    why = []

    def expand(t, depth=0):
        t = strip(t)
        if t[0] == "var" and depth < 6:
            ds = [strip(d) for (_, _, d) in pv.var_defs(t[2])]
            inits = [d for d in ds if not any(x[0] == "var" and x[2] == t[2] for x in subterms(d))]
            upd = [d for d in ds if d not in inits]
            if len(inits) != 1 or has_loop:
                why.append("bound %s has %d initial values" % (show(t), len(inits)))
                return t
            out = expand(inits[0], depth + 1)
            for u in upd:
                if u[0] == "bin" and (u[1].startswith("Add") or u[1].startswith("Sub")) and strip(u[2]) == t:
                    out = ("bin", u[1], out, expand(u[3], depth + 1))
                else:
                    why.append("bound %s updated by %s" % (show(t), show(u)))
            return out
        if t[0] == "bin":
            return ("bin", t[1], expand(t[2], depth), expand(t[3], depth))
        return t

    def atom(t):
        t = strip(t)
        if is_call(t, "start_tick_index"):
            return "S"
        if t[0] == "param" and t[1] == "tick_spacing":
            return "T"
        return show(t, True)

    def bound(t):
        return poly(expand(t), atom)

    cmps = []
    def add(op, a, b):
        a_, b_ = strip(a), strip(b)
        if is_param(a_, "tick_index"):
            pass
        elif is_param(b_, "tick_index"):
            op = {"Ge": "Le", "Gt": "Lt", "Le": "Ge", "Lt": "Gt"}.get(op, op)
            a_, b_ = b_, a_
        else:
            return
        p = bound(b_)
        if op in ("Gt", "Le"):
            p = dict(p)
            p[()] = p.get((), 0) + 1
            p = {m: c for m, c in p.items() if c}
            op = "Ge" if op == "Gt" else "Lt"
        if op in ("Ge", "Lt"):
            cmps.append((op, p))
        else:
            why.append("tick_index compared with %s" % op)

    def scan(t):
        for x in subterms(t):
            if x[0] == "bin" and x[1] in ("Ge", "Gt", "Le", "Lt", "Eq", "Ne"):
                add(x[1], x[2], x[3])
            elif x[0] == "call" and x[1].endswith("::contains") and len(x[2]) == 2 and is_param(strip(x[2][1]), "tick_index"):
                r = strip(x[2][0])
                if r[0] == "agg" and r[1].endswith("Range"):
                    f = dict(r[3])
                    add("Ge", x[2][1], f["start"]); add("Lt", x[2][1], f["end"])
                elif r[0] == "call" and r[1].split("<")[0].endswith("RangeInclusive::new") or (r[0] == "agg" and r[1].endswith("RangeInclusive")):
                    lo_, hi_ = (r[2][0], r[2][1]) if r[0] == "call" else (dict(r[3])["start"], dict(r[3])["end"])
                    add("Ge", x[2][1], lo_); add("Le", x[2][1], hi_)
                else:
                    why.append("contains on %s" % show(r)[:60])
    for at in A.atoms(fn, {"shifted": shifted}, cut=True):
        c = at.cond()
        if c:
            add(c[0], c[1], c[2])
    for bi, bb in enumerate(fn.blocks):
        if bb["t"]["k"] == "ret" and pv.flow.state_in[bi] is not None:
            scan(pv.local(0, bi, len(bb["s"])))
    got = {}
    for op, p in cmps:
        if op in got and got[op] != p:
            why.append("two different %s bounds" % op)
            return None, "; ".join(why)
        got[op] = p
    return got, "; ".join(dict.fromkeys(why))



def _nonneg(fn, t):
    """The term cannot be negative: a non-negative literal or a widening of an unsigned parameter / field."""
    t0 = t
    while t0[0] == "q":
        t0 = t0[1]
    if t0[0] == "const":
        return isinstance(t0[1], int) and not isinstance(t0[1], bool) and t0[1] >= 0
    if t0[0] == "cast":
        inner = strip(t0[1])
        if inner[0] == "param":
            for i in range(1, fn.argc + 1):
                if fn.locals[i].get("n") == inner[1] or fn.param_names()[i - 1] == inner[1]:
                    return fn.locals[i]["t"].lstrip("&").strip().startswith("u")
    return False


def floor_div_form(fn):
    """(x, y) when `fn` returns floor(x / y) for y > 0, however written: `let d = x / y; if x % y < 0 { d - 1 } else { d }`,
    or `x.div_euclid(y)` with y a widened unsigned value (for a positive divisor the Euclidean quotient is the floor).
    Otherwise (None, why)."""
    pv = prov_of(fn)
    rets = [bi for bi, bb in enumerate(fn.blocks) if bb["t"]["k"] == "ret" and not bb["c"]]
    if len(rets) != 1:
        return None, "%d return blocks" % len(rets)
    r = strip(pv.local(0, rets[0], len(fn.blocks[rets[0]]["s"])))
    if is_call(r, "div_euclid") and len(r[2]) == 2:
        x, y = r[2]
        if not _nonneg(fn, y):
            return None, "div_euclid by %s, which is not known to be positive" % show(y)
        return (strip(x), strip(y)), ""
    ats = [a for a in A.atoms(fn)]
    if len(ats) != 1 or ats[0].cond() is None:
        return None, "%d branch(es)" % len(ats)
    from analysis.prov import prov_assuming
    at = ats[0]
    op, a, b = at.cond()
    a, b = strip(a), strip(b)
    # remainder < 0 (or 0 > remainder), possibly negated
    if op in ("Gt", "Le"):
        op, a, b = {"Gt": "Lt", "Le": "Ge"}[op], b, a
    if not (op in ("Lt", "Ge") and a[0] == "bin" and a[1] == "Rem" and b[0] == "const" and b[1] == 0):
        return None, "branches on %s" % at.describe()[:80]
    x, y = strip(a[2]), strip(a[3])
    out = {}
    for truth in (True, False):
        pa = prov_assuming(fn, [(at, truth)])
        out[truth] = strip(pa.local(0, rets[0], len(fn.blocks[rets[0]]["s"])))
    neg_side, pos_side = (out[True], out[False]) if op == "Lt" else (out[False], out[True])
    div = ("bin", "Div", a[2], a[3])
    def is_div(t):
        t = strip(t)
        return t[0] == "bin" and t[1] == "Div" and strip(t[2]) == x and strip(t[3]) == y
    ok = is_div(pos_side) and neg_side[0] == "bin" and neg_side[1].startswith("Sub") and is_div(neg_side[2]) and strip(neg_side[3])[:2] == ("const", 1)
    if not ok:
        return None, "remainder < 0 gives %s, otherwise %s" % (show(neg_side), show(pos_side))
    return (x, y), ""
