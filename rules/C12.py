"""C12 The Pinocchio fast path and the Anchor implementation agree bit for bit.

Decided: byte layout of every memory-mapped view against the Anchor type's Borsh /
zero-copy layout (offset, size per same-named field, total size); discriminators;
accessor / setter <-> field agreement with the Anchor field's integer type; routing
table <-> unreachable Anchor stubs; sibling comparison (guard atoms with outcomes,
primitive calls with argument terms, returned terms) of every ported function pair
with explicit, reasoned exemptions.
Also decided: the dynamic tick-array byte encoding (C13.R1-R3 instances re-decided here); every dispatch
wrapper forwards its arguments under the handler's own names;
Not decided: equality of the hand-written tick-offset division with the Anchor
arithmetic for all inputs; bit-for-bit equality of outputs in general."""
import re
from analysis import cfg, atoms as A, layout as L, program, siblings as S, writes
from analysis.ir import callee_path, AnchorMissing
from analysis.prov import prov_of, show, strip, leaves, subterms
from analysis.match import is_param, is_field, const_val, sh, mentions

MM = "pinocchio::state::whirlpool::"
PAIRS_LAYOUT = [
    (MM + "whirlpool::MemoryMappedWhirlpool", "state::whirlpool::Whirlpool", "borsh", 8),
    (MM + "whirlpool::MemoryMappedWhirlpoolRewardInfo", "state::whirlpool::WhirlpoolRewardInfo", "borsh", 0),
    (MM + "position::MemoryMappedPosition", "state::position::Position", "borsh", 8),
    (MM + "position::MemoryMappedPositionRewardInfo", "state::position::PositionRewardInfo", "borsh", 0),
    (MM + "tick_array::tick::MemoryMappedTick", "state::tick::Tick", "reprc", 0),
    (MM + "tick_array::fixed_tick_array::MemoryMappedFixedTickArray", "state::fixed_tick_array::TickArray", "reprc", 8),
]
LEN_CONSTS = {
    "state::whirlpool::Whirlpool": ("state::whirlpool::Whirlpool::LEN", 653),
    "state::position::Position": ("state::position::Position::LEN", 216),
    "state::fixed_tick_array::TickArray": ("state::fixed_tick_array::TickArray::LEN", 9988),
    "state::tick::Tick": ("state::tick::Tick::LEN", 113),
}


def R1_layouts(run):
    run.title("R1", "each memory-mapped view field has the offset and size of the same-named field of the Anchor account type "
                    "(8-byte discriminator + Borsh order, or the zero-copy layout), no field unmatched, total size == the type's LEN")
    facts = run.facts
    n = 0
    for mm, anchor, kind, disc in PAIRS_LAYOUT:
        short = mm.rsplit("::", 1)[-1]
        mf, msize = L.reprc_fields(facts, mm)
        madt = facts.need_adt(mm)
        run.check("R1", "repr@" + short, madt["repr_c"] and madt["align"] == 1, "%s must be #[repr(C)] with alignment 1 (is repr_c=%s align=%s)" % (mm, madt["repr_c"], madt["align"]),
                  detail="repr(C), align 1")
        if kind == "borsh":
            af, asize = L.borsh_fields(facts, anchor, base=disc)
        else:
            af0, asz = L.reprc_fields(facts, anchor)
            af = [(n_, o + disc, s, t) for (n_, o, s, t) in af0]
            asize = asz + disc
            aadt = facts.need_adt(anchor)
            run.check("R1", "anchor-packed@" + short, aadt["repr_c"] and aadt["packed"], "%s is no longer repr(C, packed); its zero-copy layout changed" % anchor, detail="repr(C, packed)")
        md = {n_: (o, s) for (n_, o, s, t) in mf}
        if disc:
            run.check("R1", "discriminator-field@" + short, md.get("discriminator") == (0, 8), "%s does not start with an 8-byte discriminator field" % mm, detail="discriminator at 0..8")
            md.pop("discriminator", None)
        for (name, off, size, ty) in af:
            n += 1
            got = md.pop(name, None)
            run.check("R1", "field:%s.%s" % (short, name), got == (off, size),
                      "view field %s.%s is at %s but %s.%s serialises at offset %d size %d" % (short, name, got, anchor, name, off, size),
                      expected="offset %d size %d" % (off, size), found=str(got), detail="offset %d size %d (%s)" % (off, size, ty))
        run.check("R1", "no-extra-fields@" + short, not md, "view %s has fields with no counterpart in %s: %s" % (mm, anchor, sorted(md)), detail="all fields matched")
        run.check("R1", "size@" + short, msize == asize, "%s is %d bytes, %s serialises to %d" % (mm, msize, anchor, asize), detail="%d bytes" % msize)
        if anchor in LEN_CONSTS:
            cpath, expect = LEN_CONSTS[anchor]
            v = facts.const_value(cpath)
            run.check("R1", "len-const@" + short, v == msize or (anchor.endswith("Tick") and v == msize), "%s = %s but the view is %d bytes" % (cpath, v, msize),
                      detail="%s == %d" % (cpath, msize))
    run.floor("R1", "compared fields", n, 40)


def R2_discriminators(run):
    run.title("R2", "every Pinocchio view's DISCRIMINATOR equals the Anchor account type's; the tick-array loader accepts exactly the fixed and dynamic discriminators")
    facts = run.facts
    pairs = [("MemoryMappedWhirlpool", "state::whirlpool::Whirlpool"), ("MemoryMappedPosition", "state::position::Position")]
    for mm, anchor in pairs:
        a = b = None
        for p, c in facts.consts.items():
            if c.get("name") == "DISCRIMINATOR" and c.get("self", "").endswith(mm):
                a = facts.const_bytes(p)
            if c.get("name") == "DISCRIMINATOR" and c.get("self") == anchor and c.get("trait") == "anchor_lang::Discriminator":
                b = facts.const_bytes(p)
        run.check("R2", "disc@" + mm, a is not None and a == b, "%s::DISCRIMINATOR %s != %s's %s" % (mm, a.hex() if a else None, anchor, b.hex() if b else None),
                  detail="%s" % (a.hex() if a else None))
    # loader
    want = {}
    for p, c in facts.consts.items():
        if c.get("name") == "DISCRIMINATOR" and c.get("trait") == "anchor_lang::Discriminator" and c.get("self") in (
                "state::fixed_tick_array::TickArray", "state::dynamic_tick_array::DynamicTickArray"):
            want[c["self"].rsplit("::", 1)[-1]] = facts.const_bytes(p)
    expect_view = {"TickArray": "MemoryMappedFixedTickArray", "DynamicTickArray": "MemoryMappedDynamicTickArray"}
    for lname in ("load_tick_array", "load_tick_array_mut"):
        fn = facts.need_fn("pinocchio::state::whirlpool::tick_array::loader::" + lname)
        run.touch(fn)
        pv = prov_of(fn)
        paths = cfg.byte_match_paths(fn, pv)
        got = {}
        for bts, blk in paths:
            # the arm maps the bytes through a closure that casts to a view type
            view = None
            t = fn.blocks[blk]["t"]
            if t["k"] == "call":
                for a in t["a"]:
                    term = pv.operand(a, blk, len(fn.blocks[blk]["s"]))
                    if term[0] == "closure":
                        cf = facts.fn(term[1])
                        if cf is not None:
                            for bb in cf.blocks:
                                for st in bb["s"]:
                                    if st["k"] == "=" and "cast" in st["rv"]:
                                        m = re.search(r"(MemoryMapped\w+)", st["rv"]["ty"])
                                        if m:
                                            view = m.group(1)
            got[bts] = view
        want_map = {v: expect_view[k] for k, v in want.items()}
        run.check("R2", "loader-discriminators@" + lname, len(want) == 2 and got == want_map,
                  "Pinocchio %s maps discriminators %s, expected %s" % (lname, {k.hex(): v for k, v in got.items()}, {k.hex(): v for k, v in want_map.items()}),
                  loc=fn.loc(), detail="; ".join("%s -> %s" % (k.hex(), v) for k, v in sorted(got.items())))


VIEW_OF = {mm: anchor for mm, anchor, _, _ in PAIRS_LAYOUT}
# write-back functions that are straight-line on the reference tree (confirmed by reading)
UNCONDITIONAL = [
    MM + "whirlpool::MemoryMappedWhirlpool::update_liquidity_and_reward_growth_global",
    MM + "position::MemoryMappedPosition::update",
    MM + "position::MemoryMappedPosition::set_reward_infos",
    MM + "tick_array::tick::MemoryMappedTick::update",
    "state::whirlpool::Whirlpool::update_rewards",
    "state::whirlpool::Whirlpool::update_rewards_and_liquidity",
    "state::whirlpool::Whirlpool::reset_protocol_fees_owed",
    "state::position::Position::update",
    "state::position::Position::update_reward_owed",
    "state::position::Position::reset_fees_owed",
    "state::tick::Tick::update",
]


def _anchor_field_ty(facts, anchor, name):
    adt = facts.need_adt(anchor)
    for f in adt["variants"][0]["fields"]:
        if f["name"] == name:
            return f["ty"]
    return None


def R3_accessors(run):
    run.title("R3", "accessor f() reads only field f, decoded with from_le_bytes of the Anchor field's integer type; setter set_f writes only f "
                    "via to_le_bytes; update() functions copy same-named (same-indexed) fields")
    facts = run.facts
    n = 0
    for fn in facts.fn_list:
        if fn.kind != "fn" or not fn.self_ty or fn.self_ty not in VIEW_OF:
            continue
        anchor = VIEW_OF[fn.self_ty]
        madt = facts.need_adt(fn.self_ty)
        fields = {f["name"] for f in madt["variants"][0]["fields"]}
        short = fn.self_ty.rsplit("::", 1)[-1]
        pv = prov_of(fn)
        if fn.name in fields and fn.argc == 1:
            # accessor
            run.touch(fn)
            n += 1
            ret = None
            for bi, bb in enumerate(fn.blocks):
                if bb["t"]["k"] == "ret":
                    ret = pv.local(0, bi, len(bb["s"]))
            reads = {s[2] for s in subterms(ret) if s[0] == "field" and is_param(s[1], "self")}
            ok = reads == {fn.name}
            run.check("R3", "reads:%s.%s" % (short, fn.name), ok, "accessor %s::%s() reads field(s) %s" % (short, fn.name, sorted(reads)), loc=fn.loc(),
                      expected=fn.name, found=str(sorted(reads)), detail="reads self.%s only" % fn.name)
            aty = _anchor_field_ty(facts, anchor, fn.name)
            ik = L.int_kind(aty) if aty else None
            if ik and ik[0] in ("u", "i"):
                decs = {s[1] for s in subterms(ret) if s[0] == "call" and s[1].endswith("from_le_bytes")}
                want = "core::num::<impl %s>::from_le_bytes" % aty
                run.check("R3", "decode:%s.%s" % (short, fn.name), decs == {want},
                          "accessor %s::%s() decodes with %s but the Anchor field is %s" % (short, fn.name, sorted(decs), aty), loc=fn.loc(),
                          detail="%s::from_le_bytes" % aty)
                rty = fn.sig["out"]
                run.check("R3", "type:%s.%s" % (short, fn.name), rty == aty, "accessor %s::%s() returns %s, Anchor field is %s" % (short, fn.name, rty, aty), loc=fn.loc(),
                          detail="returns " + aty)
        elif fn.name.startswith("set_") and fn.name[4:] in fields:
            run.touch(fn)
            n += 1
            f = fn.name[4:]
            ws = [w for w in writes.field_stores(facts) if w["fn"] is fn and w["adt"] == fn.self_ty]
            wf = {w["field"] for w in ws}
            run.check("R3", "writes:%s.%s" % (short, fn.name), wf == {f}, "setter %s::%s writes field(s) %s" % (short, fn.name, sorted(wf)), loc=fn.loc(), detail="writes self.%s only" % f)
            aty = _anchor_field_ty(facts, anchor, f)
            encs = set()
            for bi, t in fn.calls():
                p = callee_path(t) or ""
                if p.endswith("to_le_bytes"):
                    encs.add(p)
            if aty and L.int_kind(aty) and L.int_kind(aty)[0] in ("u", "i"):
                want = "core::num::<impl %s>::to_le_bytes" % aty
                run.check("R3", "encode:%s.%s" % (short, fn.name), encs == {want}, "setter %s::%s encodes with %s but the Anchor field is %s" % (short, fn.name, sorted(encs), aty),
                          loc=fn.loc(), detail="%s::to_le_bytes" % aty)
    # every integer field of a view is stored as to_le_bytes of the Anchor field's own integer type, in whichever method the store is
    # (private setters may be spliced into their callers)
    m_enc = 0
    for w in writes.field_stores(facts):
        fn = w["fn"]
        if fn.kind != "fn" or fn.self_ty not in VIEW_OF or w["adt"] != fn.self_ty or w["kind"] != "assign":
            continue
        aty = _anchor_field_ty(facts, VIEW_OF[fn.self_ty], w["field"])
        if not (aty and L.int_kind(aty) and L.int_kind(aty)[0] in ("u", "i")):
            continue
        v = strip(prov_of(fn)._rvalue(w["rv"], w["block"], w["stmt"], 0))
        encs = {x[1] for x in subterms(v) if x[0] == "call" and x[1].endswith("to_le_bytes")}
        m_enc += 1
        run.check("R3", "encode-store:%s.%s@%s" % (fn.self_ty.rsplit("::", 1)[-1], w["field"], fn.name), encs == {"core::num::<impl %s>::to_le_bytes" % aty},
                  "%s stores %s.%s encoded with %s, the Anchor field is %s" % (fn.path, fn.self_ty.rsplit("::", 1)[-1], w["field"], sorted(encs) or sh(v, 40), aty), loc=fn.loc(w["line"]),
                  detail="%s::to_le_bytes" % aty)
    run.floor("R3", "encoded integer stores", m_enc, 12)
    run.floor("R3", "accessors and setters", n, 32)
    # write-backs apply on every path: each store and each call to a sibling setter of these functions runs whenever the function
    # returns (a "nothing changed" early return would leave the other values of the same update unwritten)
    for path in UNCONDITIONAL:
        fn = facts.fn(path)
        if fn is None and path == "state::position::Position::update_reward_owed":
            # the one-line setter written into the two collect_reward handlers: C11.R2 `remainder-stored` demands the store there,
            # on every successful path
            run.ok("R3", "unconditional@" + path, detail="setter written in place; the store is decided in the handlers (C11.R2)")
            continue
        if fn is None and path == "state::whirlpool::Whirlpool::reset_protocol_fees_owed":
            # the two-store reset written into the two collection handlers: C06.R5 demands it there (after both transfers, once) and
            # forbids it anywhere else
            run.ok("R3", "unconditional@" + path, detail="reset written in place; decided in the handlers (C06.R5)")
            continue
        if fn is None:
            run.missing("R3", "unconditional@" + path, "function %s not found" % path)
            continue
        run.touch(fn)
        eff = [(w["block"], "self.%s := .." % w["field"]) for w in writes.field_stores(facts) if w["fn"] is fn and w["kind"] == "assign"]
        for bi, t in fn.calls():
            pth = callee_path(t) or ""
            g = facts.fn(pth)
            if g is not None and g.self_ty and g.self_ty == fn.self_ty and g.name.startswith(("set_", "update", "reset_")) and not fn.blocks[bi]["c"]:
                eff.append((bi, g.name + "(..)"))
        skipped = sorted({d for b, d in eff if cfg.success_reach(fn, 0, cut_blocks=[b])})
        if skipped and not A.atoms(fn):
            # the same write-backs made in a loop over the elements: nothing but the end of the iteration gets past them
            cyc = prov_of(fn).cycle_blocks()
            skipped = sorted({d for b, d in eff if b not in cyc and cfg.success_reach(fn, 0, cut_blocks=[b])})
        run.check("R3", "unconditional@" + path, bool(eff) and not skipped, "%s can return without %s" % (path, ", ".join(skipped) or "any write"), loc=fn.loc(),
                  detail="%d write-backs, each on every path" % len(eff))
    # name-copy rule
    copies = [MM + "tick_array::tick::MemoryMappedTick::update", MM + "position::MemoryMappedPosition::update",
              "state::tick::Tick::update", "state::position::Position::update",
              MM + "position::MemoryMappedPosition::set_reward_infos", MM + "whirlpool::MemoryMappedWhirlpool::update_liquidity_and_reward_growth_global"]
    for path in copies:
        fn = facts.fn(path)
        if fn is None:
            run.missing("R3", "copy@" + path, "function %s not found" % path)
            continue
        run.touch(fn)
        pv = prov_of(fn)
        bad = []
        cnt = 0
        for bi, bb in enumerate(fn.blocks):
            for si, st in enumerate(bb["s"]):
                if st["k"] != "=" or "p" not in st["p"] or bb["c"]:
                    continue
                dst = [(e["f"] if "f" in e else ("[%s]" % e.get("ci", "i"))) for e in st["p"]["p"] if isinstance(e, dict) and ("f" in e or "ci" in e or "ix" in e)]
                if not dst:
                    continue
                src = pv._rvalue(st["rv"], bi, si, 0)
                # all source leaves must end with the same field name (and constant index) as the destination
                dname = [d for d in dst if not d.startswith("[")][-1]
                srcfields = [s for s in subterms(src) if s[0] == "field"]
                if not srcfields:
                    continue
                cnt += 1
                last = {s[2] for s in srcfields if not any(s is y[1] for y in srcfields if y is not s)}
                names = {s[2] for s in srcfields}
                if dname not in names:
                    bad.append("%s := %s" % (".".join(dst), sh(src, 80)))
                # index agreement
                didx = [e.get("ci") for e in st["p"]["p"] if isinstance(e, dict) and "ci" in e]
                didx += [const_val(pv.local(e["ix"], bi, si)) for e in st["p"]["p"] if isinstance(e, dict) and "ix" in e]
                sidx = [const_val(s[2]) for s in subterms(src) if s[0] == "index" and const_val(s[2]) is not None]
                if didx and sidx and set(didx) != set(sidx):
                    bad.append("%s[%s] := ...[%s]" % (dname, didx, sidx))
        # copies performed through setters: set_<f>(self, <src>.<f>)
        for bi, t in fn.calls():
            p = callee_path(t) or ""
            last = p.rsplit("::", 1)[-1]
            if last.startswith("set_") and len(t["a"]) == 2:
                src = pv.operand(t["a"][1], bi, len(fn.blocks[bi]["s"]))
                names = {s_[2] for s_ in subterms(src) if s_[0] == "field"}
                if names:
                    cnt += 1
                    if last[4:] not in names:
                        bad.append("%s(%s)" % (last, sh(src, 60)))
        # index-only copies: dst[...i...] := src[i]
        for bi, bb in enumerate(fn.blocks):
            for si, st in enumerate(bb["s"]):
                if st["k"] != "=" or "p" not in st["p"] or bb["c"]:
                    continue
                didx = [e.get("ci") for e in st["p"]["p"] if isinstance(e, dict) and "ci" in e]
                didx += [const_val(pv.local(e["ix"], bi, si)) for e in st["p"]["p"] if isinstance(e, dict) and "ix" in e]
                zpos = lambda x: "zip" if (x[0] == "call" and x[1] == "core::iter::Zip::position") else const_val(x)
                if not didx and st["p"]["p"][:1] == ["*"]:
                    # a store through the element reference of `xs.iter_mut().zip(ys)`: the destination is xs[k]
                    base = strip(pv.local(st["p"]["l"], bi, si))
                    while base[0] in ("cast", "q") or (base[0] == "call" and len(base[2]) == 1 and base[1].rsplit("::", 1)[-1] in ("deref", "deref_mut")):
                        base = strip(base[1] if base[0] != "call" else base[2][0])
                    if base[0] == "index" and zpos(strip(base[2])) == "zip":
                        didx = ["zip"]
                if not didx:
                    continue
                src = pv._rvalue(st["rv"], bi, si, 0)
                if any(s_[0] == "field" for s_ in subterms(src)):
                    continue
                sidx = [zpos(strip(s_[2])) for s_ in subterms(src) if s_[0] == "index" and zpos(strip(s_[2])) is not None]
                if sidx:
                    cnt += 1
                    if set(didx) != set(sidx):
                        bad.append("[%s] := [%s]" % (didx, sidx))
        run.check("R3", "copy@" + path, not bad and cnt > 0, "%s copies a field into a differently named / indexed field: %s" % (path, bad), loc=fn.loc(),
                  detail="%d field copies, names and indices agree" % cnt)
        # an `update(&mut self, update: &XUpdate)` applies the whole update on every path: each field of the update struct is
        # stored unconditionally (a de-initialised tick must not keep its old net / gross, which later updates read back)
        if fn.name == "update" and fn.argc == 2:
            sty = fn.locals[2]["t"].lstrip("&").replace("mut ", "").strip()
            sadt = facts.adts.get(sty)
            if sadt is None or not sadt.get("variants"):
                run.missing("R3", "copy-complete@" + path, "type of the update parameter (%s) not found" % sty, loc=fn.loc())
                continue
            want = [f["name"] for f in sadt["variants"][0]["fields"]]
            rets = set(cfg.return_blocks(fn))
            always = set()
            for bi, bb in enumerate(fn.blocks):
                if bb["c"]:
                    continue
                stored = set()
                for si_, st in enumerate(bb["s"]):
                    if st["k"] == "=" and st["p"].get("p"):
                        stored |= {e["f"] for e in st["p"]["p"] if isinstance(e, dict) and "f" in e}
                        if st["p"]["p"] == ["*"] and st["p"]["l"] > fn.argc:
                            # a store through an element reference (`for (dst, src) in self.xs.iter_mut().zip(..) { *dst = .. }`)
                            base = pv.local(st["p"]["l"], bi, si_)
                            stored |= {s_[2] for s_ in subterms(base) if s_[0] == "field" and s_[2] in want and is_param(strip(s_[1]), "self")}
                t = bb["t"]
                if t["k"] == "call" and (callee_path(t) or "").rsplit("::", 1)[-1].startswith("set_"):
                    stored.add((callee_path(t) or "").rsplit("::", 1)[-1][4:])
                if stored & set(want) and not (cfg.reach(fn, 0, cut_blocks=[bi]) & rets):
                    always |= stored
                elif stored & set(want) and not A.atoms(fn) and bi in prov_of(fn).cycle_blocks():
                    always |= stored    # the same store made element by element in a loop: only the end of the iteration gets past it
            lacking = [f for f in want if f not in always]
            run.check("R3", "copy-complete@" + path, not lacking, "%s does not store %s on every path (a partial update leaves stale values behind)" % (path, lacking),
                      loc=fn.loc(), detail="all %d fields of %s stored unconditionally" % (len(want), sty.rsplit("::", 1)[-1]))


def R4_routing(run):
    run.title("R4", "every Anchor dispatch stub whose body is unreachable!() is served by exactly one Pinocchio route keyed by its own instruction "
                    "discriminator and handled by the module of the same name, which decodes the same instruction type; and vice versa")
    facts = run.facts
    rts = program.routes(facts)
    ents = program.entries(facts)
    by_name = {e.name: e for e in ents}
    stubs = [e for e in ents if e.handler is None and e.name != "idl_include"]
    seen = {}
    for ity, h, dpath in rts:
        name = program.snake(ity.rsplit("::", 1)[-1])
        seen.setdefault(name, []).append((ity, h))
        hmod = h.split("::")[-2]
        e = by_name.get(name)
        run.check("R4", "route:" + name, e is not None and e.handler is None and hmod == name and dpath.endswith("Discriminator::DISCRIMINATOR"),
                  "route keyed by %s::DISCRIMINATOR goes to %s; Anchor entry `%s` %s" % (ity, h, name, "is still implemented in Anchor" if e and e.handler else "mismatch"),
                  detail="%s -> %s" % (ity, h))
        hf = facts.fn(h)
        if hf is None:
            run.missing("R4", "handler:" + name, "routed handler %s not found" % h)
            continue
        run.touch(hf)
        decoded = set()
        for bi, t in hf.calls():
            raw = t["f"].get("raw", "")
            if "try_from_slice" in (callee_path(t) or "") or "try_from_slice" in raw or "deserialize" in raw:
                ga = t["f"].get("ga", "")
                m = re.search(r"instruction::(\w+)", ga)
                if m:
                    decoded.add(m.group(1))
        run.check("R4", "decodes:" + name, decoded == {ity.rsplit("::", 1)[-1]}, "%s decodes instruction data as %s but is routed for %s" % (h, sorted(decoded), ity),
                  loc=hf.loc(), detail="decodes instruction::%s" % ity.rsplit("::", 1)[-1])
    for name, lst in seen.items():
        run.check("R4", "unique:" + name, len(lst) == 1, "instruction %s is routed %d times" % (name, len(lst)), detail="one route")
    for e in stubs:
        run.check("R4", "stub-served:" + e.name, e.name in seen, "Anchor entry `%s` is unreachable!() and no Pinocchio route serves it" % e.name, loc=e.fn.loc(), detail="served by a route")
    run.floor("R4", "routes", len(rts), 6)


# ported function pairs. Each entry: a (Anchor path), b (Pinocchio path), keys compared, na / nb (name-map options of
# analysis.siblings.Norm for each side), subs_b (regex substitutions on the Pinocchio strings), exempt {regex: reason}.
PM = "pinocchio::ported::manager_liquidity_manager::"
PT = "pinocchio::ported::manager_tick_array_manager::"
MP = "pinocchio::state::whirlpool::position::"
ALL = ("atoms", "calls", "returns")
REWARD_B = {"rename": {"next_whirlpool_reward_growth_global": "next_whirlpool_reward_infos"},
            "field_map": {"next_reward_growth_global": "reward_infos"}}
PTA = "pinocchio::state::whirlpool::tick_array::"
PAIRS = [
    dict(a="manager::tick_manager::next_tick_modify_liquidity_update", b=PM + "pino_next_tick_modify_liquidity_update",
         nb={"arg_map": {"reward_growth_global": "to_reward_growths(reward_infos)"}},
         exempt={r"^tick$": "unchanged copy: Anchor converts via From<Tick> for TickUpdate (checked by the name-copy rule R3), Pinocchio copies field-wise",
                 r"^TickUpdate\.(\w+) = tick\.\1$": "same",
                 r"^Result::Ok\{0: tick\}$": "same (whole-aggregate form)",
                 r"^Result::Ok\{0: TickUpdate\{fee_growth_outside_a: tick\.fee_growth_outside_a, fee_growth_outside_b: tick\.fee_growth_outside_b, initialized: tick\.initialized, liquidity_gross: tick\.liquidity_gross, liquidity_net: tick\.liquidity_net, reward_growths_outside: tick\.reward_growths_outside\}\}$": "same",
                 r"^to_reward_growths\(": "Anchor derives the growth array from reward infos; Pinocchio receives the array"}),
    dict(a="manager::tick_manager::next_fee_growths_inside", b=PM + "pino_next_fee_growths_inside", semantic="inside_growth"),
    dict(a="manager::tick_manager::next_reward_growths_inside", b=PM + "pino_next_reward_growths_inside",
         na={"method_fields": ["initialized"]},
         nb={"param_index_as_field": {"next_reward_growth_global": ("reward_infos", "growth_global_x64")}}),
    dict(a="manager::position_manager::next_position_modify_liquidity_update", b=PM + "pino_next_position_modify_liquidity_update"),
    dict(a="manager::whirlpool_manager::next_whirlpool_reward_infos", b=PM + "pino_next_whirlpool_reward_growth_global", keys=("atoms", "calls"),
         exempt={r"^initialized\(whirlpool\.reward_infos\[i\]\)": "loop guard: Anchor skips !initialized() rewards, Pinocchio skips emissions == 0; an uninitialised reward cannot have non-zero emissions (set_reward_emissions requires its vault)",
                 r"^0 Eq whirlpool\.reward_infos\[i\]\.emissions_per_second_x64": "same",
                 r"^wrapping_add\(": "accumulation target differs by representation (copied reward infos vs a local growth array); the wrap discipline is checked by C07.R1"}),
    dict(a="manager::tick_array_manager::calculate_modify_tick_array", b=PM + "pino_calculate_modify_tick_array"),
    dict(a="manager::liquidity_manager::calculate_liquidity_token_deltas", b=PM + "pino_calculate_liquidity_token_deltas"),
    dict(a="manager::liquidity_manager::calculate_modify_liquidity", b=PM + "pino_calculate_modify_liquidity"),
    dict(a="manager::liquidity_manager::calculate_fee_and_reward_growths", b=PM + "pino_calculate_fee_and_reward_growths", nb=REWARD_B),
    dict(a="manager::liquidity_manager::_calculate_modify_liquidity", b=PM + "_pino_calculate_modify_liquidity", nb=REWARD_B,
         subs_b=[(r"whirlpool\.reward_infos, next_whirlpool_reward_infos", "next_whirlpool_reward_infos")]),
    dict(a="manager::liquidity_manager::sync_modify_liquidity_values", b=PM + "pino_sync_modify_liquidity_values",
         exempt={r"^update_rewards_and_liquidity\(whirlpool, modify_liquidity_update\.reward_infos, modify_liquidity_update\.whirlpool_liquidity, reward_last_updated_timestamp\)$":
                 "same three values, different setter signature (growth array instead of reward infos)",
                 r"^update_liquidity_and_reward_growth_global\(whirlpool, modify_liquidity_update\.whirlpool_liquidity, modify_liquidity_update\.next_reward_growth_global, reward_last_updated_timestamp\)$": "same"}),
    dict(a="state::tick::Tick::check_is_out_of_bounds", b=PTA + "check_is_out_of_bounds"),
    dict(a="state::tick_array::TickArrayType::in_search_range", b=PTA + "TickArray::in_search_range", semantic="search_range"),
    dict(a="state::tick_array::TickArrayType::check_in_array_bounds", b=PTA + "TickArray::check_in_array_bounds"),
    dict(a="state::tick_array::TickArrayType::is_min_tick_array", b=PTA + "TickArray::is_min_tick_array"),
    dict(a="state::tick_array::TickArrayType::is_max_tick_array", b=PTA + "TickArray::is_max_tick_array"),
    dict(a="state::tick_array::TickArrayType::tick_offset", b=PTA + "TickArray::tick_offset"),
    dict(a="state::tick_array::get_offset", b=PTA + "get_offset", semantic="floor_div"),
    dict(a="state::tick_array::TickArraysMut::<'a>::load", b=PTA + "loader::TickArraysMut::<'a>::load"),
    dict(a="state::tick_array::TickArraysMut::<'a>::deref_mut", b=PTA + "loader::TickArraysMut::<'a>::deref_mut"),
    dict(a="state::position::validate_tick_range_for_whirlpool", b=MP + "validate_tick_range_for_whirlpool"),
    dict(a="state::position::Position::reset_position_range", b=MP + "MemoryMappedPosition::reset_position_range", keys=("atoms", "returns"),
         exempt={r"^is_position_empty\(self(, keep_owed)?\) =>": "Pinocchio adds keep_owed (reposition keeps owed fees); with keep_owed=false both demand a fully empty position (pair below)"}),
    dict(a="state::position::Position::is_position_empty", b=MP + "MemoryMappedPosition::is_position_empty", na={"arg_map": {"position": "self"}},
         keys=("atoms", "returns"), semantic="empty_definition",
         exempt={r"^keep_owed =>": "Pinocchio-only fast path for reposition: liquidity == 0 suffices when owed amounts are kept",
                 r"^\(0 Eq self\.liquidity\)$": "return value of that fast path"}),
    dict(a="manager::tick_array_manager::update_tick_array_accounts", b=PT + "pino_update_tick_array_accounts",
         nb={"rename": {"tick_array_rent_transfer_execute": "execute", "tick_array_size_update_execute": "execute"},
             "arg_map": {"position_info": "position", "lower_tick_array_info": "lower_tick_array", "upper_tick_array_info": "upper_tick_array"}},
         exempt={r"^verify_rent_exempt\(": "Anchor re-verifies rent exemption after moving lamports; the Pinocchio twin relies on the runtime's own rent check"}),
]


def _apply(summary, subs):
    out = {}
    for k, v in summary.items():
        s2 = set()
        for x in v:
            for (pat, rep) in subs:
                x = re.sub(pat, rep, x)
            s2.add(x)
        out[k] = s2
    return out


def _norm_returns(summary):
    # `Ok(x?)` is the same as returning `x`
    out = dict(summary)
    r = set()
    for x in summary["returns"]:
        m = re.match(r"^Result::Ok\{0: (.*)\?\}$", x)
        r.add(m.group(1) if m and x.count("{") == 1 else x)
    out["returns"] = r
    return out


def _with_unshared_callees_inlined(facts, a, b):
    """Copies of a / b in which calls to local, non-recursive functions that the other side does not call (under the pino_ name
    map) are inlined once; None where nothing changed."""
    import copy
    from analysis import canon
    from analysis.ir import Fn

    def names(f):
        return {(callee_path(t) or "").rsplit("::", 1)[-1].replace("pino_", "") for _, t in f.calls()}
    na_, nb_ = names(a), names(b)

    def inl(f, other_names):
        rec = None
        for bi, t in list(f.calls()):
            p = callee_path(t)
            g = facts.fns.get(p) if p else None
            if g is None or g.kind != "fn" or g is f or f.blocks[bi]["c"]:
                continue
            short = p.rsplit("::", 1)[-1].replace("pino_", "")
            if short in other_names or len(g.blocks) > 120:
                continue
            if rec is None:
                rec = copy.deepcopy(f.rec)
            before = canon._reachable(rec)
            canon.inline_call(rec, bi, g.rec)
            if canon.fold_constant_switches(rec):
                before = before | set(range(max(before) + 1, len(rec["blocks"])))
            canon._neutralise(rec, before)
        if rec is None:
            return None
        rec["path"] = f.path
        return Fn(rec, facts)
    return inl(a, nb_), inl(b, na_)


def _has_loop(fn):
    succ = fn.succ()
    return any(b in cfg.reach(fn, s_) for b in range(len(fn.blocks)) for s_ in succ[b])


def _same_search_range(a, b):
    """Both sides accept the same interval (polynomial bounds over start index and spacing) for both values of `shifted`."""
    from rules.ranges import search_range_bounds
    for s_ in (False, True):
        ga, wa = search_range_bounds(a, s_)
        gb, wb = search_range_bounds(b, s_)
        if not ga or set(ga) != {"Ge", "Lt"} or ga != gb or wa or wb:
            return False
    return True


class _Recorder:
    """Minimal stand-in for a Run: records the outcome of another module's rule function."""
    def __init__(self, facts):
        self.facts, self.sdk, self.out = facts, None, []

    def title(self, *a, **k):
        pass

    def touch(self, *a, **k):
        pass

    def floor(self, *a, **k):
        pass

    def check(self, rule, inst, ok, *a, **k):
        self.out.append((inst, bool(ok)))

    def ok(self, rule, inst, *a, **k):
        self.out.append((inst, True))

    def bad(self, rule, inst, *a, **k):
        self.out.append((inst, False))

    def missing(self, rule, inst, *a, **k):
        self.out.append((inst, False))


def _same_inside_growth_table(a, b):
    """Both sides produce, in each of the nine (lower, upper) situations, the inside growth the table of C07.R4 demands (that rule
    reads `g - below - above` and `g - (below + above)` alike): written differently, same table."""
    from rules import C07
    rec = _Recorder(a.facts)
    try:
        C07.R4_inside(rec)
    except Exception:
        return False
    mine = [ok for inst, ok in rec.out if inst.startswith("inside[")]
    return len(mine) >= 18 and all(mine)


def _same_floor_div(a, b):
    """Both sides return floor(x / y) of the same x and y (hand-written quotient-and-remainder form or div_euclid by a positive divisor)."""
    from rules.ranges import floor_div_form
    fa, _ = floor_div_form(a)
    fb, _ = floor_div_form(b)
    if fa is None or fb is None:
        return False
    n = S.Norm()
    return [n.s(x) for x in fa] == [n.s(x) for x in fb]


def _same_slot_search(a, b):
    """Both sides search the same slots in the same order and map the found slot to the same tick (rules.ranges.search_model), in
    both directions; each side's own initialised-test is decided by C13 / C10."""
    from rules.ranges import search_model
    for ab in (True, False):
        ma, _ = search_model(a.facts, a, ab)
        mb, _ = search_model(b.facts, b, ab)
        if ma is None or mb is None:
            return False
        if ma["form"] == mb["form"]:
            return False    # written the same way: the text comparison stands
        if any(ma[k] != mb[k] for k in ("first", "dir", "stop", "guard", "result")):
            return False
    return True


def _empty_model(fn):
    """(fields compared with 0, whether every reward slot is covered, form) of an is_position_empty implementation."""
    from analysis import atoms as A_
    from analysis.match import const_val
    from rules.common import arg_name
    facts = fn.facts
    pv = prov_of(fn)
    fields, form, covered = set(), None, False
    def zero_tests(term):
        for s_ in subterms(term):
            if s_[0] == "bin" and s_[1] == "Eq":
                for (x, y) in ((s_[2], s_[3]), (s_[3], s_[2])):
                    if const_val(y) == 0 and arg_name(x):
                        yield arg_name(x)
    polarity = True
    for at in A_.atoms(fn):
        fields |= set(zero_tests(at.term))
        c = at.cond()
        if c and c[0] in ("Eq", "Ne"):
            for (x, y) in ((c[1], c[2]), (c[2], c[1])):
                if const_val(y) == 0 and arg_name(x):
                    fields.add(arg_name(x))
                    # the non-zero outcome never answers "empty"
                    nz = at.false_ret if c[0] == "Eq" else at.true_ret
                    z = at.true_ret if c[0] == "Eq" else at.false_ret
                    if nz and all(r[0] == "const" for r in nz) and {r[1] for r in nz} != {0}:
                        polarity = False
                    if z and all(r[0] == "const" for r in z) and {r[1] for r in z} == {0}:
                        polarity = False
    for bi, bb in enumerate(fn.blocks):
        for si, st in enumerate(bb["s"]):
            if st["k"] == "=" and st["rv"].get("bin") == "Eq":
                fields |= set(zero_tests(("bin", "Eq", pv.operand(st["rv"]["a"], bi, si), pv.operand(st["rv"]["b"], bi, si))))
    loops = any("next" in (callee_path(t) or "") for _, t in fn.calls())
    bound = any(const_val(s_) == 3 or (s_[0] == "const" and s_[2] and s_[2].endswith("NUM_REWARDS")) for bi, t in fn.calls() for a in t["a"]
                for s_ in subterms(pv.operand(a, bi, len(fn.blocks[bi]["s"]))))
    if loops and bound:
        form, covered = "loop", True
    for bi, t in fn.calls():
        if not any(n.endswith(("Iterator::all", "Iterator>::all")) for n in (t["f"].get("raw") or "", callee_path(t) or "")) or len(t["a"]) != 2:
            continue
        recv, clo = (pv.operand(a, bi, len(fn.blocks[bi]["s"])) for a in t["a"])
        cl = [x for x in subterms(clo) if x[0] == "closure"]
        cf = facts.fn(cl[0][1]) if len(cl) == 1 else None
        if arg_name(recv) != "reward_infos" or cf is None:
            continue
        pc = prov_of(cf)
        rets = [pc.local(0, b_, len(bb["s"])) for b_, bb in enumerate(cf.blocks) if bb["t"]["k"] == "ret"]
        got = set(zero_tests(rets[0])) if len(rets) == 1 else set()
        if got == {"amount_owed"} and strip(rets[0])[0] == "bin":
            fields |= got
            form, covered = "all", True
    return frozenset(fields), covered and polarity, form


def _same_empty_definition(a, b):
    """Both sides are the conjunction liquidity == 0 && fee_owed_a == 0 && fee_owed_b == 0 && every reward's amount_owed == 0, one as an index
    loop and the other as iter().all(..) (the Pinocchio-only keep_owed fast path is exempted by the pair itself)."""
    ma, mb = _empty_model(a), _empty_model(b)
    want = {"liquidity", "fee_owed_a", "fee_owed_b", "amount_owed"}
    return ma[2] != mb[2] and ma[1] and mb[1] and ma[0] == mb[0] == want


SEMANTIC = {"slot_search": _same_slot_search, "search_range": _same_search_range, "inside_growth": _same_inside_growth_table, "floor_div": _same_floor_div, "empty_definition": _same_empty_definition}


def _const_values(facts, summary):
    """The summary with named integer constants replaced by their values."""
    import re
    table = getattr(facts, "_const_value_table", None)
    if table is None:
        by = {}
        for p_, c_ in facts.consts.items():
            if "v" in c_ and str(c_.get("ty", ""))[:1] in ("u", "i"):
                by.setdefault(p_.rsplit("::", 1)[-1], set()).add(str(c_["v"]))
        table = {n: next(iter(v)) for n, v in by.items() if len(v) == 1 and re.fullmatch(r"[A-Z][A-Z0-9_]{2,}", n)}
        facts._const_value_table = table
    rx = re.compile(r"(?:[A-Za-z_][A-Za-z0-9_]*::)*([A-Z][A-Z0-9_]{2,})\b")
    def sub(x):
        return rx.sub(lambda m: table.get(m.group(1), m.group(0)), x)
    return {k: ({sub(x) for x in v} if isinstance(v, (set, frozenset)) else v) for k, v in summary.items()}


def compare_pair(run, rule, a_path, b_path, keys=ALL, subs_b=(), exempt=(), subs_a=(), norm_a=None, norm_b=None, semantic=None):
    facts = run.facts
    a, b = facts.fn(a_path), facts.fn(b_path)
    inst = "%s~%s" % (a_path.rsplit("::", 1)[-1], b_path.rsplit("::", 1)[-1])
    if a is None or b is None:
        # a one-line member that the pinned tree had and the current tree wrote into its callers: the callers' own pairs (compared
        # with one-sided callees spliced in) speak for it
        from analysis import canon
        ref = (canon.reference(facts.crate) or {}).get("fns", {})
        gone = [p_ for p_, f_ in ((a_path, a), (b_path, b)) if f_ is None]
        if all(p_ in ref for p_ in gone) and (a is not None or b is not None):
            run.ok(rule, inst, detail="%s no longer exists (written into its callers); decided by the callers' pairs" % ", ".join(x.rsplit("::", 1)[-1] for x in gone))
            return
        run.missing(rule, inst, "sibling pair member not found: %s / %s" % (a_path if a is None else "", b_path if b is None else ""))
        return
    run.touch(a)
    run.touch(b)
    norm_b = dict(norm_b or {})
    norm_b["arg_map"] = S.align_params(a, b, norm_b.get("arg_map"))
    nb = S.Norm(**norm_b)
    na = S.Norm(**norm_a) if norm_a else S.Norm()
    sa = _norm_returns(_apply(S.summary(a, na), list(subs_a)))
    sb = _norm_returns(_apply(S.summary(b, nb), list(subs_b)))
    d = S.diff(sa, sb, keys, exempt=list(exempt))
    if d:
        # one side may reach the shared work through a local function the other side spells out (or the reverse): retry with the
        # local callees that only one side calls spliced in (the same MIR inlining the loader uses for new helpers)
        a2, b2 = _with_unshared_callees_inlined(facts, a, b)
        for (xa, xb) in ((a2, None), (None, b2), (a2, b2)):
            if xa is None and xb is None:
                continue
            sa2 = _norm_returns(_apply(S.summary(xa or a, na), list(subs_a)))
            sb2 = _norm_returns(_apply(S.summary(xb or b, nb), list(subs_b)))
            d2 = S.diff(sa2, sb2, keys, exempt=list(exempt))
            if not d2:
                sa, sb, d = sa2, sb2, d2
                break
    if d:
        # one side passes a projection of another argument down (`f(position, .., position.tick_lower_index)`) where the other lets
        # the callee read it: compared with such parameters replaced by the projection every caller passes, and such arguments left
        # out of the call texts. Only when the two sides' signatures (or those of a callee pair) really differ in length.
        def arities(side):
            out = {}
            for x in side:
                nm = x.split("(", 1)[0]
                depth, n, cur = 0, 0, x[len(nm) + 1:-1]
                n = 1 if cur else 0
                for ch in cur:
                    depth += ch in "([{"
                    depth -= ch in ")]}"
                    n += (ch == "," and depth == 0)
                out.setdefault(nm, set()).add(n)
            return out
        only = {k: (oa, ob) for k, oa, ob in d}
        ca, cb = (arities(only["calls"][0]), arities(only["calls"][1])) if "calls" in only else ({}, {})
        differ = a.argc != b.argc or any(nm in cb and ca[nm] != cb[nm] for nm in ca)
        if differ:
            na3 = S.Norm(**dict(norm_a or {}))
            nb3 = S.Norm(**norm_b)
            pa_, pb_ = S.agreed_caller_args(facts, a, na3), S.agreed_caller_args(facts, b, nb3)
            pn_a, pn_b = set(a.param_names()), {nb3.arg_map.get(x, x) for x in b.param_names()}
            for n_, txt in pa_.items():
                if n_ not in pn_b:
                    na3.arg_map[n_] = txt
            for n_, txt in pb_.items():
                if nb3.arg_map.get(n_, n_) not in pn_a:
                    nb3.arg_map[n_] = txt
            na3.drop_projection_args = nb3.drop_projection_args = lambda p_: p_ in facts.fns
            sa3 = _norm_returns(_apply(S.summary(a, na3), list(subs_a)))
            sb3 = _norm_returns(_apply(S.summary(b, nb3), list(subs_b)))
            d3 = S.diff(sa3, sb3, keys, exempt=list(exempt))
            if not d3:
                sa, sb, d = sa3, sb3, d3
    if d and (_has_loop(a) or _has_loop(b)):
        # loops are compared by their recurrences: loop-carried locals stay variables, their definitions are compared as a set
        sa2 = _norm_returns(_apply(S.summary(a, na, cut="loop"), list(subs_a)))
        sb2 = _norm_returns(_apply(S.summary(b, nb, cut="loop"), list(subs_b)))
        d2 = S.diff(sa2, sb2, tuple(keys) + ("vardefs",), exempt=list(exempt))
        if not d2:
            sa, sb, d = sa2, sb2, d2
    if d:
        # a `match` arm leaves only a constant's value in the MIR where `==` keeps its name: compare once more with every named integer
        # constant printed as its value (a name that stands for two different values in the crate is left alone)
        d4 = S.diff(_const_values(facts, sa), _const_values(facts, sb), keys, exempt=list(exempt))
        if not d4:
            d = d4
    if d and semantic and SEMANTIC[semantic](a, b):
        run.ok(rule, inst, detail="written differently; both sides decide the same %s (compared as polynomial bounds)" % semantic)
        return
    if not d:
        run.ok(rule, inst, detail="%s equal after the name map (%s)" % ("/".join(keys), ", ".join("%d %s" % (len(sa[k]), k) for k in keys)))
        return
    parts = []
    for k, oa, ob in d:
        for x in oa:
            parts.append("%s only in Anchor: %s" % (k, x[:300]))
        for x in ob:
            parts.append("%s only in Pinocchio: %s" % (k, x[:300]))
    run.bad(rule, inst, "ported function differs from its Anchor original:\n      " + "\n      ".join(parts[:8]), loc="%s | %s" % (a.loc(), b.loc()))


def R4b_entry_forwarding(run):
    run.title("R4b", "every Anchor dispatch wrapper forwards its arguments to its handler under the handler's own parameter names (no two same-typed arguments swapped)")
    from rules.common import entry_forwarding
    n = entry_forwarding(run, "R4b")
    run.floor("R4b", "forwarding wrappers", n, 55)


def R5_ported_pairs(run):
    run.title("R5", "each Pinocchio port has the same guard atoms (with error codes), the same primitive calls with the same argument terms and "
                    "the same returned terms as its Anchor original, after the explicit name map; exemptions are listed one by one")
    for pr in PAIRS:
        compare_pair(run, "R5", pr["a"], pr["b"], keys=pr.get("keys", ALL), subs_b=pr.get("subs_b", ()), exempt=pr.get("exempt", {}),
                     norm_a=pr.get("na"), norm_b=pr.get("nb"), semantic=pr.get("semantic"))
    run.floor("R5", "ported pairs", len(PAIRS), 24)


def R6_cross_checks(run):
    run.title("R6", "the byte-level encoding written by the Pinocchio dynamic tick array is the Anchor loader's (C13.R1-R3 instances)")
    from rules.common import RuleProxy
    from rules import C13
    C13.R1_constants(RuleProxy(run, 'R6'))
    C13.R2_shift_bitmap_pairing(RuleProxy(run, 'R6'))
    C13.R3_byte_offset(RuleProxy(run, 'R6'))


def R7_cpi_wire_format(run):
    from rules import xfer
    xfer.R_cpi_builders(run, "R7")


def R8_events(run):
    from rules import events
    events.R_events(run, "R8")


RULES = [R1_layouts, R2_discriminators, R3_accessors, R4_routing, R4b_entry_forwarding, R5_ported_pairs, R6_cross_checks, R7_cpi_wire_format, R8_events]
