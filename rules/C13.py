"""C13 A dynamic tick array behaves exactly like a fixed one.

Decided: the size constants of the encoding agree everywhere (112-byte tick payload = Borsh
size of the payload struct, 113 = payload + tag = size of the memory-mapped tick = Tick::LEN,
1-byte empty slot, 148-byte minimum account, 128-bit bitmap >= 88 slots) and so do the
Pinocchio copies; in both update_tick implementations the 112-byte right rotation is paired
with setting the bitmap bit under exactly (!was_initialized && update.initialized) and the
left rotation with clearing it under the converse, both starting at the slot's own byte
offset; the byte offset is popcount(bitmap & ((1 << i) - 1)) * 113 + (i - that) * 1 in both;
the bitmap setters touch exactly bit i; the account is resized by +-112 exactly when a tick
flips initialisation and rent follows the position's 0 <-> non-0 liquidity; fixed and
dynamic arrays share the range / usability checks; each side's rent / size update is
executed on that side's account and every caller passes (lower, upper, lower, upper).
Also decided: searches and resize flags agree between the encodings and packagings (C10.R3 instances and
three C12.R5 pairs re-decided here);
Also decided: callers grow (and fund) the arrays before writing ticks on an increase and write before shrinking on a
decrease; tick conversions (TickUpdate <-> Tick <-> dynamic slot) copy every field by name.
Not decided: equality of answers over update sequences; well-formedness over histories."""
from analysis import cfg, atoms as A, preach, layout as L, writes, poly as P
from analysis.ir import callee_path, AnchorMissing
from analysis.prov import prov_of, prov_assuming, strip, leaves, subterms, show
from analysis.match import is_param, is_field, is_call, const_val, sh, mentions, fail_conditions
from rules.common import calls_to, ends, arg_name, acc, enum_arms, arm_prov
from rules import C12

TA = "state::tick_array::TickArrayType"
DYN = "<state::dynamic_tick_array::DynamicTickArrayLoader as %s>" % TA
FIXED = "<state::fixed_tick_array::TickArray as %s>" % TA
PDYN = "<pinocchio::state::whirlpool::tick_array::dynamic_tick_array::MemoryMappedDynamicTickArray as pinocchio::state::whirlpool::tick_array::TickArray>"
PD = "pinocchio::state::whirlpool::tick_array::dynamic_tick_array::"


def R1_constants(run):
    run.title("R1", "encoding constants: DynamicTickData::LEN = 112 = Borsh size of DynamicTickData; INITIALIZED_LEN = 113 = size_of(MemoryMappedTick) = Tick::LEN; "
                    "UNINITIALIZED_LEN = 1; MIN_LEN = 148; MAX_LEN = 10004; TICK_INITIALIZATION_SIZE = 112 (both); Pinocchio's private copies equal; 88 slots fit the 128-bit bitmap")
    facts = run.facts
    cv = facts.const_value
    exp = [
        ("state::dynamic_tick_array::DynamicTickData::LEN", 112), ("state::dynamic_tick_array::DynamicTick::INITIALIZED_LEN", 113), ("state::dynamic_tick_array::DynamicTick::UNINITIALIZED_LEN", 1),
        ("state::dynamic_tick_array::DynamicTickArray::MIN_LEN", 148), ("state::dynamic_tick_array::DynamicTickArray::MAX_LEN", 10004), ("state::tick::Tick::LEN", 113),
        ("manager::tick_array_manager::TICK_INITIALIZATION_SIZE", 112), ("pinocchio::ported::manager_tick_array_manager::TICK_INITIALIZATION_SIZE", 112),
        (PD + "DYNAMIC_TICK_INITIALIZED_LEN", 113), (PD + "DYNAMIC_TICK_UNINITIALIZED_LEN", 1), (PD + "TICKS_MAX_USIZE", 113 * 88),
        ("state::tick_array::TICK_ARRAY_SIZE", 88), ("pinocchio::state::whirlpool::tick_array::TICK_ARRAY_SIZE", 88),
    ]
    # private Pinocchio copies of a constant may also simply be the shared constant (the uses are checked by value in R2 / R4)
    copy_of = {"pinocchio::ported::manager_tick_array_manager::TICK_INITIALIZATION_SIZE": "manager::tick_array_manager::TICK_INITIALIZATION_SIZE",
               "pinocchio::state::whirlpool::tick_array::TICK_ARRAY_SIZE": "state::tick_array::TICK_ARRAY_SIZE"}
    for path, want in exp:
        v = cv(path)
        if v is None:
            alt = [p for p in facts.consts if p.endswith("::" + path.rsplit("::", 1)[-1]) and path.rsplit("::", 2)[-2] in p]
            v = cv(alt[0]) if len(alt) == 1 else None
        if v is None and path in copy_of:
            v = cv(copy_of[path])
        run.check("R1", "const:" + path.rsplit("::", 2)[-2] + "::" + path.rsplit("::", 1)[-1], v == want, "%s = %s, expected %s" % (path, v, want), detail="%s" % want)
    bs = L.borsh_size(facts, "state::dynamic_tick_array::DynamicTickData")
    run.check("R1", "payload-borsh-size", bs == cv("state::dynamic_tick_array::DynamicTickData::LEN"), "Borsh size of DynamicTickData is %d but LEN = %s" % (bs, cv("state::dynamic_tick_array::DynamicTickData::LEN")),
              detail="borsh_size(DynamicTickData) = %d" % bs)
    mt = facts.need_adt("pinocchio::state::whirlpool::tick_array::tick::MemoryMappedTick")
    run.check("R1", "view-size", mt["size"] == 113, "MemoryMappedTick is %d bytes, an initialised dynamic slot is 113" % mt["size"], detail="size_of(MemoryMappedTick) = 113")
    # slot = tag byte + payload in the same field order as the memory-mapped tick after its `initialized` byte
    pay = [f["name"] for f in facts.need_adt("state::dynamic_tick_array::DynamicTickData")["variants"][0]["fields"]]
    view = [f["name"] for f in mt["variants"][0]["fields"]]
    run.check("R1", "payload-field-order", view[0] == "initialized" and view[1:] == pay, "payload fields %s do not follow the view's %s" % (pay, view), detail="tag + %s" % pay)
    dt = facts.need_adt("state::dynamic_tick_array::DynamicTick")
    d = dict((n, int(v)) for n, v in dt["discrs"])
    run.check("R1", "tag-values", d == {"Uninitialized": 0, "Initialized": 1}, "DynamicTick tags are %s; the view treats byte 0 as empty and non-zero as initialised" % d, detail="Uninitialized = 0, Initialized = 1")
    v = facts.need_adt(PD + "MemoryMappedDynamicTickArray")
    offs = {f["name"]: o for f, o in zip(v["variants"][0]["fields"], v["offsets"])}
    run.check("R1", "header-offsets", offs == {"discriminator": 0, "start_tick_index": 8, "whirlpool": 12, "tick_bitmap": 44, "ticks": 60}, "Pinocchio dynamic array header offsets are %s" % offs,
              detail="8 / 12 / 44 / 60")
    a = {k: cv("state::dynamic_tick_array::DynamicTickArrayLoader::" + k) for k in ("START_TICK_INDEX_OFFSET", "WHIRLPOOL_OFFSET", "TICK_BITMAP_OFFSET", "TICK_DATA_OFFSET")}
    run.check("R1", "anchor-header-offsets", a == {"START_TICK_INDEX_OFFSET": 0, "WHIRLPOOL_OFFSET": 4, "TICK_BITMAP_OFFSET": 36, "TICK_DATA_OFFSET": 52}, "Anchor loader offsets (after the discriminator) are %s" % a,
              detail="0 / 4 / 36 / 52 (+8 = the view's)")


def bitmap_updates(facts, fn, label, pv=None):
    """Bitmap write-backs of update_tick, read with update_tick_bitmap spliced in (a helper call with a literal flag and the same
    update written in place are one text): [(block, "set" | "clear" | "?...", offset term)] for every store of
    to_le_bytes(V) into the bitmap field (Pinocchio view) / into bytes TICK_BITMAP_OFFSET..+16 of the data (Anchor loader), with
    V = bitmap | (1 << offset) or bitmap & !(1 << offset) over the array's own current bitmap."""
    live = (lambda b: pv.flow is None or pv.flow.state_in[b] is not None) if pv is not None else (lambda b: True)
    pv = pv or prov_of(fn)
    vals = []
    if label == "pinocchio":
        for w in writes.field_stores(facts):
            if w["fn"] is fn and w["field"] == "tick_bitmap" and live(w["block"]):
                vals.append((w["block"], pv._rvalue(w["rv"], w["block"], w["stmt"], 0)))
    else:
        for bi, t in fn.calls():
            if (callee_path(t) or "").endswith("copy_from_slice") and not fn.blocks[bi]["c"] and live(bi):
                dst = pv.operand(t["a"][0], bi, len(fn.blocks[bi]["s"]))
                rg = [x for x in subterms(dst) if x[0] == "agg" and x[1].endswith("Range")]
                if len(rg) == 1 and const_val(dict(rg[0][3])["start"]) == 36 and mentions(dst, lambda x: x[0] == "field" and x[2] == "0"):
                    e = strip(dict(rg[0][3])["end"])
                    if const_val(e) == 52 or (e[0] == "bin" and e[1].startswith("Add") and {const_val(e[2]), const_val(e[3])} == {36, 16}):
                        vals.append((bi, pv.operand(t["a"][1], bi, len(fn.blocks[bi]["s"]))))
    out = []
    for bi, v in vals:
        for alt in leaves(v):
            a = strip(alt)
            if not (a[0] == "call" and a[1].endswith("to_le_bytes") and len(a[2]) == 1):
                out.append((bi, "?not le bytes: " + sh(a, 50), None))
                continue
            for w_ in leaves(a[2][0]):
                w_ = strip(w_)
                kind, off = "?" + sh(w_, 60), None
                if w_[0] == "bin" and w_[1] in ("BitOr", "BitAnd"):
                    for (b_, m_) in ((strip(w_[2]), strip(w_[3])), (strip(w_[3]), strip(w_[2]))):
                        if not (b_[0] == "call" and b_[1].endswith("::tick_bitmap") and len(b_[2]) == 1 and is_param(strip(b_[2][0]), "self")):
                            continue
                        if w_[1] == "BitAnd":
                            if not (m_[0] == "un" and m_[1] == "Not"):
                                continue
                            m_ = strip(m_[2])
                        if m_[0] == "bin" and m_[1] in ("Shl", "ShlUnchecked") and const_val(m_[2]) == 1:
                            kind, off = ("set" if w_[1] == "BitOr" else "clear"), strip(m_[3])
                out.append((bi, kind, off))
    return out


def _anchor_was_initialized(facts):
    """Term test for `the slot was initialised` on the Anchor loader: +1 when the term is true exactly for an initialised slot, -1
    when exactly for an uninitialised one, else None. Forms: Tick::from(DynamicTick::deserialize(..)?).initialized, and the
    variant test discriminant(DynamicTick::deserialize(..)?) ==/!= K."""
    discr = dict((v, n) for n, v in (facts.adts.get("state::dynamic_tick_array::DynamicTick") or {}).get("discrs", []))

    def test(t):
        t = strip(t)
        des = lambda x: mentions(x, lambda s: s[0] == "call" and "deserialize" in s[1])
        if t[0] == "field" and t[2] == "initialized" and des(t):
            return 1
        if t[0] == "bin" and t[1] in ("Eq", "Ne"):
            for (a, b) in ((strip(t[2]), t[3]), (strip(t[3]), t[2])):
                if a[0] == "discr" and des(a) and const_val(b) is not None:
                    name = discr.get(str(const_val(b)))
                    if name in ("Initialized", "Uninitialized"):
                        pos = (name == "Initialized") == (t[1] == "Eq")
                        return 1 if pos else -1
        return None
    return test


def _pino_was_initialized(t):
    """ticks[byte_offset(..)] != 0 (+1) / == 0 (-1)."""
    t = strip(t)
    if t[0] == "bin" and t[1] in ("Ne", "Eq") and mentions(t, lambda s: s[0] == "index" and mentions(s, lambda x: x[0] == "call" and x[1].endswith("byte_offset"))):
        if const_val(t[2]) == 0 or const_val(t[3]) == 0:
            return 1 if t[1] == "Ne" else -1
    return None


def _update_tick_model(run, fn, label, init_test, upd_init):
    """Common pairing check. init_test(term) recognises `slot was initialised`; upd_init(term) recognises update.initialized."""
    facts = run.facts
    pv = prov_of(fn)
    rr = [(bi, t) for bi, t in fn.calls() if (callee_path(t) or "").endswith("rotate_right")]
    rl = [(bi, t) for bi, t in fn.calls() if (callee_path(t) or "").endswith("rotate_left")]
    bm = bitmap_updates(facts, fn, label)
    ok = len(rr) == 1 and len(rl) == 1 and len(bm) == 2
    run.check("R2", "sites@" + label, ok, "%s has %d right / %d left rotations and %d bitmap updates, expected 1 / 1 / 2" % (fn.path, len(rr), len(rl), len(bm)), loc=fn.loc(), detail="1 rotate_right, 1 rotate_left, 2 bitmap updates")
    if not ok:
        return
    set_call = [c for c in bm if c[1] == "set"]
    clr_call = [c for c in bm if c[1] == "clear"]
    ok = len(set_call) == 1 and len(clr_call) == 1
    run.check("R2", "bitmap-flags@" + label, ok, "%s: bitmap updates do not set once and clear once (%s)" % (fn.path, [c[1] for c in bm]), loc=fn.loc(), detail="bitmap | (1 << offset) once and bitmap & !(1 << offset) once")
    if not ok:
        return
    # what runs for each of the four (slot was initialised, update.initialized) cases: the branch tests on the two flags (in
    # any combination: `!was && upd`, `was != upd` then `upd`, a match on the deserialised variant ..) are decided per case and
    # the rest of the flow graph is kept whole
    by_block = {at.block: at for at in A.atoms(fn)}

    def ev(t, was, upd):
        t = strip(t)
        w = init_test(t)
        if w in (1, True):
            return was
        if w == -1:
            return not was
        if upd_init(t):
            return upd
        if t[0] == "un" and t[1] == "Not":
            v = ev(t[2], was, upd)
            return None if v is None else not v
        if t[0] == "bin" and t[1] in ("Eq", "Ne"):
            a, b = ev(t[2], was, upd), ev(t[3], was, upd)
            if a is None or b is None:
                ca, cb = const_val(t[2]), const_val(t[3])
                if a is not None and isinstance(cb, (bool, int)) and cb in (0, 1, True, False):
                    b = bool(cb)
                elif b is not None and isinstance(ca, (bool, int)) and ca in (0, 1, True, False):
                    a = bool(ca)
                else:
                    return None
            return (a == b) if t[1] == "Eq" else (a != b)
        return None

    def pruned(was, upd):
        succ = {}
        for b in range(len(fn.blocks)):
            at = by_block.get(b)
            nx = list(fn.succ()[b])
            if at is not None:
                v = ev(at.term, was, upd)
                if v is not None:
                    nx = list(at.true_targets if v else at.false_targets)
            else:
                tt = fn.blocks[b]["t"]
                if tt["k"] == "switch" and tt.get("dt") != "bool":
                    # a match on the deserialised slot itself
                    term = strip(pv.operand(tt["d"], b, len(fn.blocks[b]["s"])))
                    dl = [st["rv"]["discr"] for st in fn.blocks[b]["s"] if st["k"] == "=" and "discr" in st["rv"]]
                    own = bool(dl) and not dl[-1].get("p") and fn.locals[dl[-1]["l"]]["t"].endswith("DynamicTick")
                    if term[0] == "discr" and own:
                        w = init_test(("bin", "Eq", term, ("const", 1, None, None)))
                        if w in (1, -1):
                            want = "1" if (was == (w == 1)) else "0"
                            arms = dict((str(v_), x) for v_, x in tt["ts"])
                            nx = [arms.get(want, tt["o"])]
            succ[b] = nx
        return succ

    def reach_in(succ, start, cut=()):
        seen, todo = set(), [start]
        while todo:
            x = todo.pop()
            if x in seen or x in cut:
                continue
            seen.add(x)
            todo.extend(succ[x])
        return seen
    errs = cfg.err_assign_blocks(fn)
    rets = {b for b, bb in enumerate(fn.blocks) if bb["t"]["k"] == "ret"}
    table = {}
    for was in (False, True):
        for upd in (False, True):
            succ = pruned(was, upd)
            R = reach_in(succ, 0)
            row = {}
            # the bitmap value stored in this case (one store may serve both directions: `if flag { bm | m } else { bm & !m }`)
            asm = [(at, ev(at.term, was, upd)) for at in by_block.values() if at.block in R and ev(at.term, was, upd) is not None]
            bm_case = bitmap_updates(facts, fn, label, pv=prov_assuming(fn, asm)) if asm else bm
            where = {"rotate_right": {rr[0][0]}, "rotate_left": {rl[0][0]},
                     "set": {b for (b, kind, _) in bm_case if kind == "set"}, "clear": {b for (b, kind, _) in bm_case if kind == "clear"}}
            for nm, blks in where.items():
                blks = blks & R
                where[nm] = blks
                if not blks:
                    row[nm] = "never"
                else:
                    skip = reach_in(succ, 0, cut=set(errs) | blks)
                    row[nm] = "may" if (skip & rets) else "always"
            table[(was, upd)] = (row, succ, where)
    for name, rot, bmc, rname, bname in (("init", rr[0], set_call[0], "rotate_right", "set"), ("deinit", rl[0], clr_call[0], "rotate_left", "clear")):
        rb = rot[0]
        bb = bmc[0]
        want = (False, True) if name == "init" else (True, False)
        # the rotation runs in exactly its own case
        wrong = [("was_initialized=%s, update.initialized=%s: %s" % (k[0], k[1], row[rname])) for k, (row, _, _) in sorted(table.items())
                 if row[rname] != ("always" if k == want else "never")]
        run.check("R2", "condition:%s@%s" % (name, label), not wrong, "%s: the %s rotation must run exactly when (was_initialized, update.initialized) = %s; found %s" % (fn.path, name, want, "; ".join(wrong)),
                  loc=fn.loc(), detail="was_initialized=%s && update.initialized=%s (decided for all four cases)" % want)
        # and always together with its bitmap update: in every case the two run on the same paths
        unpaired = []
        for k, (row, succ, where) in sorted(table.items()):
            if row[rname] != row[bname]:
                unpaired.append("%s: rotation %s, bitmap %s %s" % (k, row[rname], bname, row[bname]))
                continue
            if row[rname] == "never":
                continue
            for (X, Y) in ((where[rname], where[bname]), (where[bname], where[rname])):
                for x in X - Y:
                    if x in reach_in(succ, 0, cut=Y) and (reach_in(succ, x, cut=set(errs) | Y) & rets):
                        unpaired.append("%s: a successful path runs block %d without block(s) %s" % (k, x, sorted(Y)))
        run.check("R2", "paired:%s@%s" % (name, label), not unpaired, "%s: the %s rotation can happen without the matching bitmap update (%s)" % (fn.path, "right" if name == "init" else "left", "; ".join(unpaired[:3])),
                  loc=fn.loc(rot[1]["l"]), detail="rotation <=> bitmap %s on every path of every case" % bname)
        # amount 112
        amt = pv.operand(rot[1]["a"][1], rb, len(fn.blocks[rb]["s"]))
        run.check("R2", "amount:%s@%s" % (name, label), const_val(amt) == 112, "%s rotates by %s, expected DynamicTickData::LEN = 112" % (fn.path, sh(amt, 30)), loc=fn.loc(rot[1]["l"]), detail="112 bytes")
        # slice starts at byte_offset
        sl = pv.operand(rot[1]["a"][0], rb, len(fn.blocks[rb]["s"]))
        starts = [s for s in subterms(sl) if s[0] == "agg" and s[1].endswith("ops::RangeFrom")]
        ok = bool(starts) and all(is_call(dict(s[3])["start"], "byte_offset") for s in starts)
        run.check("R2", "slice-start:%s@%s" % (name, label), ok, "%s: the rotated slice does not start at byte_offset(tick offset)" % fn.path, loc=fn.loc(rot[1]["l"]), detail="data[byte_offset..]")
        # bitmap offset argument is the tick offset given to byte_offset
        bo = [s for s in subterms(sl) if s[0] == "call" and s[1].endswith("byte_offset")]
        ok = bool(bo) and strip(bo[0][2][1]) == strip(bmc[2])
        run.check("R2", "same-slot:%s@%s" % (name, label), ok, "%s: bitmap bit %s is not the slot whose bytes are rotated" % (fn.path, sh(bmc[2], 40)), loc=fn.loc(), detail="bitmap bit = tick offset of the rotated slot")


def R2_shift_bitmap_pairing(run):
    run.title("R2", "update_tick (Anchor loader and Pinocchio view): rotate_right(112) <=> set bit under !was_init && update.initialized; rotate_left(112) <=> clear bit under "
                    "was_init && !update.initialized; the rotated slice starts at the slot's byte offset and the bit is that slot's")
    facts = run.facts
    fn = facts.need_fn(DYN + "::update_tick")
    run.touch(fn)
    _update_tick_model(run, fn, "anchor",
                       _anchor_was_initialized(facts),
                       lambda t: strip(t)[0] == "field" and strip(t)[2] == "initialized" and is_param(strip(t)[1], "update"))
    fn = facts.need_fn(PDYN + "::update_tick")
    run.touch(fn)
    _update_tick_model(run, fn, "pinocchio",
                       _pino_was_initialized,
                       lambda t: (strip(t)[0] == "field" and strip(t)[2] == "initialized" and is_param(strip(t)[1], "update")))
    # written length: 113 iff update.initialized else 1 (Anchor); Pinocchio: tag := 0 or MemoryMappedTick::update on a 113-byte window
    fn = facts.need_fn(DYN + "::update_tick")
    at0 = [at for at in A.atoms(fn) if strip(at.term)[0] == "field" and strip(at.term)[2] == "initialized" and is_param(strip(at.term)[1], "update")]
    lens = {}
    if at0:
        for truth in (True, False):
            pv = prov_assuming(fn, [(a_, truth) for a_ in at0])
            for bi, t in fn.calls():
                if (callee_path(t) or "").endswith("::serialize") and pv.flow.state_in[bi] is not None:
                    for s in [x for a_ in t["a"] for x in subterms(pv.operand(a_, bi, len(fn.blocks[bi]["s"])))]:
                        if s[0] == "agg" and s[1].endswith("ops::Range"):
                            e = strip(dict(s[3])["end"])
                            if e[0] == "bin" and e[1] in ("Add", "AddWithOverflow"):
                                for x in (e[2], e[3]):
                                    for l in leaves(x):
                                        if const_val(l) is not None:
                                            lens.setdefault(truth, set()).add(const_val(l))
    run.check("R2", "written-length@anchor", lens.get(True) == {113} and lens.get(False) == {1}, "Anchor update_tick writes %s bytes, expected 113 when initialised else 1" % lens, loc=fn.loc(),
              detail="113 iff update.initialized else 1")
    fn = facts.need_fn(PDYN + "::update_tick")
    pv = prov_of(fn)
    tag0 = False
    for bi, bb in enumerate(fn.blocks):
        for si, st in enumerate(bb["s"]):
            if st["k"] == "=" and "p" in st["p"] and any(isinstance(e, dict) and e.get("f") == "ticks" for e in st["p"]["p"]) and const_val(pv._rvalue(st["rv"], bi, si, 0)) == 0:
                tag0 = True
    upd = calls_to(fn, ends("MemoryMappedTick::update"))
    # the slot is written only after the shift: a tag cleared before rotate_left is overwritten by the byte the rotation brings in
    for label, g in (("anchor", facts.need_fn(DYN + "::update_tick")), ("pinocchio", fn)):
        pvg = prov_of(g)
        rot = [bi for bi, t in g.calls() if (callee_path(t) or "").endswith(("rotate_left", "rotate_right"))]
        wr = [bi for bi, t in g.calls() if (callee_path(t) or "").endswith(("::serialize", "MemoryMappedTick::update"))]
        for bi, bb in enumerate(g.blocks):
            for si, st in enumerate(bb["s"]):
                if st["k"] == "=" and "p" in st["p"] and any(isinstance(e, dict) and e.get("f") == "ticks" for e in st["p"]["p"]) and any(isinstance(e, dict) and "ix" in e for e in st["p"]["p"]):
                    wr.append(bi)
        early = [(w, r) for w in wr for r in rot if r in cfg.reach(g, w) and r != w]
        run.check("R2", "slot-written-after-shift@" + label, bool(rot) and bool(wr) and not early, "%s update_tick writes the slot (blocks %s) on a path that still reaches a rotation" % (label, sorted({w for w, _ in early})),
                  loc=g.loc(), detail="%d slot write(s), none before a rotate_left / rotate_right" % len(wr))
    run.check("R2", "written-length@pinocchio", tag0 and len(upd) == 1 and is_param(upd[0][2][1], "update"), "Pinocchio update_tick does not write tag 0 when de-initialising / MemoryMappedTick::update(update) otherwise", loc=fn.loc(),
              detail="ticks[offset] := 0 or view.update(update)")


def _byte_offset_ok(fn, init_len, uninit_len):
    """byte_offset(i) as a polynomial in (i, popcount(bitmap & ((1 << i) - 1))): uninit_len * i + (init_len - uninit_len) * popcount,
    however the sum is associated (113 * p + (i - p) * 1 and i * 1 + p * 112 are the same quantity)."""
    pv = prov_of(fn)

    def atom(x):
        x = strip(x)
        if is_param(x, "tick_offset"):
            return "i"
        if x[0] == "call" and x[1].endswith("count_ones"):
            m = strip(x[2][0])
            # bitmap & ((1 << off) - 1)
            if m[0] == "bin" and m[1] == "BitAnd":
                for (bm, mask) in ((strip(m[2]), strip(m[3])), (strip(m[3]), strip(m[2]))):
                    if mask[0] == "bin" and mask[1] in ("Sub", "SubWithOverflow") and const_val(mask[3]) == 1:
                        shl = strip(mask[2])
                        if shl[0] == "bin" and shl[1] in ("Shl", "ShlUnchecked") and const_val(shl[2]) == 1 and is_param(shl[3], "tick_offset") and is_call(bm, "tick_bitmap"):
                            return "popcount"
            return "popcount?(%s)" % sh(m, 60)
        return sh(x, 60)
    for bi, bb in enumerate(fn.blocks):
        if bb["t"]["k"] == "ret":
            plain = not fn.locals[0]["t"].startswith(("std::result::Result<", "core::result::Result<"))
            for l in leaves(pv.local(0, bi, len(bb["s"]))):
                if plain or (l[0] == "agg" and l[2] == "Ok"):
                    # (a byte_offset that cannot fail may as well return the number itself)
                    t = strip(l) if plain else strip(dict(l[3])["0"])
                    got = P.poly(t, atom)
                    want = {("i",): uninit_len, ("popcount",): init_len - uninit_len}
                    return got == want, "%s  [= %s]" % (sh(t, 160), P.show_poly(got))
    return False, None


def R3_byte_offset(run):
    run.title("R3", "byte_offset(i) = popcount(bitmap & ((1 << i) - 1)) * 113 + (i - popcount) * 1 in both implementations; a negative offset fails; the bitmap setters "
                    "OR in / AND out exactly bit i and store the result back; is_initialized_tick tests exactly bit i")
    facts = run.facts
    a = facts.need_fn("state::dynamic_tick_array::DynamicTickArrayLoader::byte_offset")
    p = facts.need_fn(PD + "MemoryMappedDynamicTickArray::byte_offset")
    for fn, label in ((a, "anchor"), (p, "pinocchio")):
        run.touch(fn)
        ok, found = _byte_offset_ok(fn, 113, 1)
        run.check("R3", "formula@" + label, ok, "%s returns %s, expected popcount(bitmap & ((1 << i) - 1)) * 113 + (i - popcount) * 1" % (fn.path, found), loc=fn.loc(), detail="popcount(prefix) * 113 + rest * 1")
    neg = any(o == "Lt" and is_param(x, "tick_offset") and const_val(y) == 0 and "TickNotFound" in (at.true_codes | at.false_codes) for at in A.atoms(a) for (op, q, r) in fail_conditions(at) for (o, x, y) in ((op, q, r), (A.SWAP[op], r, q)))
    run.check("R3", "negative-offset@anchor", neg, "Anchor byte_offset no longer rejects negative offsets", loc=a.loc(), detail="offset < 0 => TickNotFound")
    run.check("R3", "unsigned-offset@pinocchio", p.sig["in"][1] == "usize", "Pinocchio byte_offset takes %s; a signed offset would need a negativity check" % p.sig["in"][1], loc=p.loc(), detail="offset: usize")
    for path, label in ((DYN + "::update_tick", "anchor"), (PDYN + "::update_tick", "pinocchio")):
        fn = facts.need_fn(path)
        run.touch(fn)
        ev = bitmap_updates(facts, fn, label)
        for kind in ("set", "clear"):
            mine = [e for e in ev if e[1] == kind]
            run.check("R3", "bitmap-%s@%s" % (kind, label), len(mine) == 1 and not [e for e in ev if e[1].startswith("?")],
                      "%s updates the bitmap with %s" % (path, [e[1] for e in ev]), loc=fn.loc(), detail="bitmap %s (1 << offset) of the array's own bitmap" % ("|=" if kind == "set" else "&= !"))
        run.check("R3", "bitmap-stored@" + label, len(ev) == 2, "%s does not store the updated bitmap twice (set, clear) into %s" % (path, "the tick_bitmap field" if label == "pinocchio" else "data[36..52]"),
                  loc=fn.loc(), detail="bitmap written back")
    # read with is_initialized_tick spliced into the search: the one bit test of the loop is (bitmap & (1 << cursor)) != 0 on the
    # array's own bitmap, with the cursor the in-range test and the returned index use
    fn = facts.need_fn(DYN + "::get_next_init_tick_index")
    run.touch(fn)
    ok = False
    tests = []
    for at in A.atoms(fn, {}, cut=True):
        c = at.cond()
        if c and c[0] in ("Ne", "Eq") and const_val(c[2]) == 0:
            m = strip(c[1])
            if m[0] == "bin" and m[1] == "BitAnd":
                tests.append((at, m))
    if len(tests) == 1:
        at, m = tests[0]
        for (x, y) in ((strip(m[2]), strip(m[3])), (strip(m[3]), strip(m[2]))):
            if mentions(x, lambda t: t[0] == "call" and t[1].endswith("::tick_bitmap")) and y[0] == "bin" and y[1] in ("Shl", "ShlUnchecked") and const_val(y[2]) == 1 and strip(y[3])[0] == "var":
                cur = strip(y[3])
                rng = [a2 for a2 in A.atoms(fn, {}, cut=True) if mentions(a2.term, lambda t: t[0] == "call" and t[1].endswith("::contains")) and mentions(a2.term, lambda t: t == cur)]
                ok = len(rng) == 1
    run.check("R3", "is_initialized_tick", ok, "the dynamic array's search does not test (bitmap & (1 << cursor)) != 0 on its own bitmap with the cursor of its range test", loc=fn.loc(), detail="(bitmap & (1 << i)) != 0")


def R4c_initialise_only_blank(run):
    run.title("R4c", "initialize_dynamic_tick_array writes the dynamic discriminator and header only into an account whose first eight bytes are all zero: a fixed array lives at "
                     "the same address, and overwriting it turns every tick's net / gross into garbage")
    facts = run.facts
    h = facts.need_fn("instructions::initialize_dynamic_tick_array::handler")
    run.touch(h)
    eff = [bi for bi, t in h.calls() if not h.blocks[bi]["c"] and (callee_path(t) or "").endswith(("copy_from_slice", "DynamicTickArrayLoader::initialize"))]
    ok = len(eff) >= 2
    blank = None
    for at in A.atoms(h):
        c = at.cond()
        if not c or c[0] not in ("Eq", "Ne"):
            continue
        for (x, y) in ((strip(c[1]), strip(c[2])), (strip(c[2]), strip(c[1]))):
            zero = (y[0] == "repeat" and const_val(y[1]) == 0) or (y[0] == "array" and y[1] and all(const_val(e) == 0 for e in y[1]))
            rng = [s_ for s_ in subterms(x) if s_[0] == "agg" and s_[1].endswith("ops::Range")]
            if zero and rng and const_val(dict(rng[0][3])["start"]) == 0 and const_val(dict(rng[0][3])["end"]) == 8:
                blank = (at, c[0])
    ok = ok and blank is not None
    if ok:
        at, op = blank
        blank_side = at.true_targets[0] if op == "Eq" else at.false_targets[0]
        other_side = at.false_targets[0] if op == "Eq" else at.true_targets[0]
        rb = cfg.reach(h, blank_side, cut_blocks=[at.block])
        ro = cfg.reach(h, other_side, cut_blocks=[at.block])
        ok = all(b in rb and b not in ro for b in eff)
    run.check("R4c", "blank-only", ok, "initialize_dynamic_tick_array can write the discriminator / header into an account whose first 8 bytes are not all zero", loc=h.loc(),
              detail="data[0..8] == [0; 8] guards the discriminator store and initialize()")


def R4b_resize_moves_no_bytes(run):
    run.title("R4b", "growing / shrinking a dynamic array only changes the account's length: the functions that carry out the size update (update_tick_array_accounts, both "
                     "implementations, with their private resize helpers read in place) take no mutable view of the account data - the tick bytes were laid out by update_tick")
    facts = run.facts
    n = 0
    facts.need_fn("manager::tick_array_manager::update_tick_array_accounts")
    facts.need_fn("pinocchio::ported::manager_tick_array_manager::pino_update_tick_array_accounts")
    mods = ("manager::tick_array_manager::", "pinocchio::ported::manager_tick_array_manager::")
    for fn in [f for f in facts.fn_list if f.kind == "fn" and f.path.startswith(mods) and not f.expn]:
        path = fn.path
        run.touch(fn)
        views = [(bi, callee_path(t)) for bi, t in fn.calls() if not fn.blocks[bi]["c"] and (callee_path(t) or "").rsplit("::", 1)[-1] in
                 ("try_borrow_mut_data", "borrow_mut_data_unchecked", "data_ptr", "as_mut_ptr", "fill", "copy_from_slice", "copy_within", "rotate_left", "rotate_right")]
        n += 1
        run.check("R4b", "no-data-writes@" + path.rsplit("::", 1)[-1], not views, "%s takes a mutable view of / writes the account data (%s): a resize must not touch tick bytes" % (
            path, sorted({p.rsplit("::", 1)[-1] for _, p in views})), loc=fn.loc(views[0][0] and fn.blocks[views[0][0]]["t"].get("l")) if views else fn.loc(), detail="resize / realloc and lamport moves only")
    run.floor("R4b", "functions of the two tick-array managers", n, 6)


def R4_size_and_rent(run):
    run.title("R4", "calculate_modify_tick_array: fixed arrays get the no-op update; Increase iff !tick.initialized && update.initialized, Decrease iff the converse; rent to the "
                    "array iff position liquidity 0 -> non-0, back iff non-0 -> 0; resizing is by +-TICK_INITIALIZATION_SIZE in both implementations")
    facts = run.facts
    for path in ("manager::tick_array_manager::calculate_modify_tick_array", "pinocchio::ported::manager_liquidity_manager::pino_calculate_modify_tick_array"):
        fn = facts.need_fn(path)
        run.touch(fn)
        label = "anchor" if path.startswith("manager") else "pinocchio"
        pv0 = prov_of(fn, {"is_variable_size_tick_array": False})
        for bi, bb in enumerate(fn.blocks):
            if bb["t"]["k"] == "ret" and pv0.flow.state_in[bi] is not None:
                r = [l for l in leaves(pv0.local(0, bi, len(bb["s"]))) if l[0] == "agg" and l[2] == "Ok"]
                ok = len(r) == 1 and is_call(dict(r[0][3])["0"], "default")
                run.check("R4", "fixed-noop@" + label, ok, "%s: fixed-size arrays do not get the default (no-op) update" % path, loc=fn.loc(), detail="!variable => TickArrayUpdate::default()")
        # classify the four assignments by their guards
        pv = prov_of(fn, {"is_variable_size_tick_array": True}, cut=True)
        got = {}
        for bi, bb in enumerate(fn.blocks):
            for si, st in enumerate(bb["s"]):
                if st["k"] == "=" and st["rv"].get("agg", {}).get("k") == "adt" and st["rv"]["agg"]["adt"].endswith(("TickArrayRentTransfer", "TickArraySizeUpdate")) and st["rv"]["agg"]["v"] != "None":
                    conds = []
                    from analysis.siblings import Norm
                    nm = Norm()
                    for at in A.atoms(fn, {"is_variable_size_tick_array": True}):
                        if is_param(at.term, "is_variable_size_tick_array"):
                            continue
                        t_reach = cfg.reach(fn, at.true_targets[0])
                        f_reach = cfg.reach(fn, at.false_targets[0], cut_blocks=[at.block])
                        if bi in t_reach and bi not in f_reach:
                            conds.append((nm.s(at.term), True))
                        elif bi in f_reach and bi not in cfg.reach(fn, at.true_targets[0], cut_blocks=[at.block]):
                            conds.append((nm.s(at.term), False))
                    got[st["rv"]["agg"]["v"]] = conds
        def canon_cond(c):
            # `x != 0` holding is `x == 0` not holding
            s_, t_ = c
            if " Ne " in s_:
                return s_.replace(" Ne ", " Eq "), not t_
            return s_, t_
        got = {k: sorted(set(canon_cond(c) for c in v)) for k, v in got.items()}

        def has(conds, needle, truth):
            s_, t_ = canon_cond((needle, truth))
            return any(s == s_ and t == t_ for s, t in conds)
        want = {
            "TransferToTickArray": [("(0 Eq position.liquidity)", True), ("(0 Ne position_update.liquidity)", True)],
            "TransferToPosition": [("(0 Ne position.liquidity)", True), ("(0 Eq position_update.liquidity)", True)],
            "Increase": [("tick.initialized", False), ("tick_update.initialized", True)],
            "Decrease": [("tick.initialized", True), ("tick_update.initialized", False)],
        }
        for v, reqs in want.items():
            conds = got.get(v)
            ok = conds is not None and all(has(conds, n, t) for n, t in reqs) and len(conds) == len(reqs) + 0
            run.check("R4", "%s@%s" % (v, label), ok, "%s: %s is chosen under %s" % (path, v, conds), loc=fn.loc(), detail="%s under %s" % (v, [c for c in (conds or [])]))
    # (the four private resize helpers are always analysed inlined into the two executors: analysis/canon.py ALWAYS_INLINE)
    for path, pname, tag in (("manager::tick_array_manager::TickArraySizeUpdate::execute", "self", ""),
                             ("pinocchio::ported::manager_tick_array_manager::pino_tick_array_size_update_execute", "size_update", "pino_")):
        fn = facts.need_fn(path)
        run.touch(fn)
        arms = enum_arms(fn, facts, lambda t: is_param(t, pname))
        if arms is None:
            run.missing("R4", "resize@" + path.rsplit("::", 1)[-1], "%s does not match on its TickArraySizeUpdate" % path, loc=fn.loc())
            continue
        sw, amap = arms
        for variant, sign, name in (("Increase", "Add", tag + "increase_tick_array_size"), ("Decrease", "Sub", tag + "decrease_tick_array_size"), ("None", None, tag + "no_size_update")):
            if variant not in amap:
                run.missing("R4", "resize@" + name, "%s has no arm for TickArraySizeUpdate::%s" % (path, variant), loc=fn.loc())
                continue
            pva = arm_prov(fn, sw, amap[variant])
            cs = []
            for bi, t in fn.calls():
                p_ = callee_path(t) or ""
                if (p_.endswith("::realloc") or p_.endswith("::resize")) and pva.flow.state_in[bi] is not None and not fn.blocks[bi]["c"]:
                    cs.append((bi, t, [pva.operand(a_, bi, len(fn.blocks[bi]["s"])) for a_ in t["a"]]))
            if sign is None:
                ok = not cs
                msg = "%s resizes the account although no size update is due" % path
            else:
                ok = len(cs) == 1
                if ok:
                    want = {("data_len",): 1, (): 112 if sign == "Add" else -112}
                    got = P.poly(cs[0][2][1], lambda x: "data_len" if (strip(x)[0] == "call" and strip(x)[1].endswith("data_len")) else sh(x, 40))
                    ok = got == want and bool(cfg.result_checked(fn, cs[0][0]))
                msg = "%s (%s) does not resize to data_len %s 112 with the result checked" % (path, variant, "+" if sign == "Add" else "-")
            run.check("R4", "resize@" + name, ok, msg, loc=fn.loc(), detail=("data_len %s TICK_INITIALIZATION_SIZE (112)" % ("+" if sign == "Add" else "-")) if sign else "no resize")


def json_dumps(x):
    import json
    return json.dumps(x)


def R5_shared_checks(run):
    run.title("R5", "fixed and dynamic arrays reject the same lookups (out of array bounds or unusable tick => TickNotFound) in get_tick / update_tick; the Pinocchio dynamic view "
                    "does its lookup through check_is_usable_tick_and_get_offset like the Pinocchio fixed view")
    facts = run.facts
    for m in ("get_tick", "update_tick"):
        for path, label in ((FIXED, "fixed"), (DYN, "dynamic")):
            fn = facts.need_fn(path + "::" + m)
            run.touch(fn)
            seen = set()
            for at in A.atoms(fn):
                if at.false_fail and "TickNotFound" in at.false_codes:
                    for s in subterms(at.term):
                        if s[0] == "call" and s[1].endswith(("check_in_array_bounds", "check_is_usable_tick")):
                            args = [strip(x) for x in s[2]]
                            if any(is_param(x, "tick_index") for x in args) and any(is_param(x, "tick_spacing") for x in args):
                                seen.add(s[1].rsplit("::", 1)[-1])
                        if s[0] == "call" and s[1].endswith("in_search_range") and len(s[2]) == 4 and const_val(s[2][3]) == 0:
                            # check_in_array_bounds is in_search_range(tick_index, tick_spacing, false), written in place
                            args = [strip(x) for x in s[2]]
                            if any(is_param(x, "tick_index") for x in args) and any(is_param(x, "tick_spacing") for x in args):
                                seen.add("check_in_array_bounds")
            run.check("R5", "%s@%s" % (m, label), seen == {"check_in_array_bounds", "check_is_usable_tick"}, "%s %s::%s rejects on %s, expected both bounds and usability" % (label, path, m, sorted(seen)), loc=fn.loc(),
                      detail="!in_bounds || !usable => TickNotFound")
    pf = "<pinocchio::state::whirlpool::tick_array::fixed_tick_array::MemoryMappedFixedTickArray as pinocchio::state::whirlpool::tick_array::TickArray>"
    for m in ("get_tick", "update_tick"):
        for path, label in ((pf, "pino-fixed"), (PDYN, "pino-dynamic")):
            fn = facts.need_fn(path + "::" + m)
            run.touch(fn)
            cs = calls_to(fn, lambda p: p.endswith("check_is_usable_tick_and_get_offset"))
            ok = len(cs) == 1 and is_param(cs[0][2][1], "tick_index") and is_param(cs[0][2][2], "tick_spacing") and any("TickNotFound" in cfg.block_error_codes(fn, b) for b in range(len(fn.blocks)))
            run.check("R5", "%s@%s" % (m, label), ok, "%s::%s does not look the slot up through check_is_usable_tick_and_get_offset(tick_index, tick_spacing) with None => TickNotFound" % (path, m), loc=fn.loc(),
                      detail="None => TickNotFound")
    # the Pinocchio dynamic view: an uninitialised slot is ONE byte, so it cannot be mapped as a 113-byte tick (the view would read
    # the following slots' bytes as this tick's liquidity and growths): tag == 0 returns the static zeroed tick, and the slot's
    # bytes are only mapped on the other side
    g = facts.need_fn(PDYN + "::get_tick")
    pvg = prov_of(g)
    tag = [at for at in A.atoms(g) if at.cond() and at.cond()[0] in ("Eq", "Ne") and const_val(at.cond()[2]) == 0 and
           mentions(at.cond()[1], lambda s_: s_[0] == "index" and mentions(s_, lambda x: x[0] == "call" and x[1].endswith("byte_offset")))]
    ok = len(tag) == 1
    if ok:
        at = tag[0]
        zero_side = at.true_targets[0] if at.cond()[0] == "Eq" else at.false_targets[0]
        live_side = at.false_targets[0] if at.cond()[0] == "Eq" else at.true_targets[0]
        maps = [bi for bi, t in g.calls() if (callee_path(t) or "").endswith("as_ptr") and not g.blocks[bi]["c"]]
        rz = cfg.reach(g, zero_side, cut_blocks=[at.block])
        rl = cfg.reach(g, live_side, cut_blocks=[at.block])
        # (a reference to a static is a constant operand of reference type)
        statics = [bi for bi, bb in enumerate(g.blocks) for si, st in enumerate(bb["s"]) if st["k"] == "=" and isinstance(st["rv"].get("use"), dict) and
                   isinstance(st["rv"]["use"].get("k"), dict) and str(st["rv"]["use"]["k"].get("ty", "")).startswith("&") and str(st["rv"]["use"]["k"].get("ty", "")).endswith("MemoryMappedTick")]
        ok = bool(maps) and all(b in rl and b not in rz for b in maps) and any(b in rz for b in statics)
    run.check("R5", "zero-slot@pino-dynamic", ok, "Pinocchio dynamic get_tick does not answer an uninitialised (one-byte) slot with the static zeroed tick / maps slot bytes on that side",
              loc=g.loc(), detail="ticks[byte_offset] == 0 => &STATIC_ZEROED_MEMORY_MAPPED_TICK; bytes mapped only otherwise")
    # the shared Pinocchio lookup itself: an offset is handed out only for a tick that lies inside this array, inside the global
    # bounds and on the spacing grid (the offset is computed from |tick - start|, so without the array-bounds test a tick k
    # spacings *below* the start would be served from slot k)
    lk = facts.need_fn("pinocchio::state::whirlpool::tick_array::TickArray::check_is_usable_tick_and_get_offset")
    run.touch(lk)
    some = set()
    for bi, bb in enumerate(lk.blocks):
        for st in bb["s"]:
            agg = st.get("rv", {}).get("agg") if st["k"] == "=" else None
            if agg and agg.get("k") == "adt" and agg["adt"].endswith("option::Option") and agg["v"] == "Some" and st["p"]["l"] == 0:
                some.add(bi)
    guards = {}
    for at in A.atoms(lk):
        c = at.cond()
        names = {x[1].rsplit("::", 1)[-1] for x in subterms(at.term) if x[0] == "call"}
        key = None
        if "check_in_array_bounds" in names:
            key, pass_side = "in-array", True
        elif "check_is_out_of_bounds" in names:
            key, pass_side = "in-global-bounds", False
        elif c and c[0] in ("Eq", "Ne") and (const_val(c[2]) == 0 or const_val(c[1]) == 0) and any(x[0] == "call" and x[1].endswith("unsigned_abs") for x in subterms(at.term)):
            key, pass_side = "on-grid", c[0] == "Eq"
        if key is None:
            continue
        block_side = at.false_targets if pass_side else at.true_targets
        reach = set()
        for b in block_side:
            reach |= cfg.reach(lk, b, cut_blocks=[at.block])
        ok_args = True
        if key != "on-grid":
            call = [x for x in subterms(at.term) if x[0] == "call" and x[1].rsplit("::", 1)[-1] in ("check_in_array_bounds", "check_is_out_of_bounds")][0]
            ok_args = any(is_param(strip(a), "tick_index") for a in call[2])
        guards[key] = guards.get(key, False) or (not (reach & some) and ok_args)
    # the manual division scales the spacing by up to 64: formed in u16 that loses the high bits for spacings >= 1024 (splash pools)
    narrow = []
    pvl = prov_of(lk)
    for bi, bb in enumerate(lk.blocks):
        for si, st in enumerate(bb["s"]):
            if st["k"] == "=" and st["rv"].get("bin") in ("Mul", "MulWithOverflow", "MulUnchecked", "Shl", "ShlUnchecked"):
                a = pvl.operand(st["rv"]["a"], bi, si)
                b = pvl.operand(st["rv"]["b"], bi, si)
                if any(mentions(x, lambda s_: s_[0] == "param" and s_[1] == "tick_spacing") for x in (a, b)):
                    ty = lk.locals[st["p"]["l"]]["t"].strip("()").split(",")[0].strip()
                    if ty in ("u8", "u16", "i8", "i16"):
                        narrow.append("%s at line %s" % (ty, st.get("l")))
    run.check("R5", "lookup-scaling-width@pinocchio", not narrow, "check_is_usable_tick_and_get_offset scales tick_spacing in %s; 64 * spacing does not fit 16 bits for spacings >= 1024" % narrow,
              loc=lk.loc(), detail="tick_spacing is widened before it is scaled")
    for key in ("in-array", "in-global-bounds", "on-grid"):
        run.check("R5", "lookup-guard:%s@pinocchio" % key, bool(some) and guards.get(key, False),
                  "check_is_usable_tick_and_get_offset can return Some(offset) for a tick that is not %s" % key, loc=lk.loc(),
                  detail={"in-array": "!check_in_array_bounds(tick_index, tick_spacing) => None", "in-global-bounds": "check_is_out_of_bounds(tick_index) => None",
                          "on-grid": "remainder != 0 => None"}[key])


def R6_account_wiring(run):
    run.title("R6", "update_tick_array_accounts (both): the lower array's rent / size update is executed on the lower array account and the upper one's on the upper account, "
                    "all four executions checked; the handlers pass (position, lower account, upper account, update.lower, update.upper) in that order")
    facts = run.facts
    for path in ("manager::tick_array_manager::update_tick_array_accounts", "pinocchio::ported::manager_tick_array_manager::pino_update_tick_array_accounts"):
        fn = facts.need_fn(path)
        run.touch(fn)
        short = path.rsplit("::", 1)[-1]
        pv = prov_of(fn)
        got = []
        for bi, t in fn.calls():
            p = callee_path(t) or ""
            if not p.endswith(("::execute", "_execute")):
                continue
            args = [strip(pv.operand(a, bi, len(fn.blocks[bi]["s"]))) for a in t["a"]]
            recv = args[0]
            kind = recv[2] if recv[0] == "field" else "?"
            side_u = "lower" if mentions(recv, lambda s_: s_[0] == "param" and s_[1].startswith("lower_")) else "upper" if mentions(recv, lambda s_: s_[0] == "param" and s_[1].startswith("upper_")) else "?"
            accts = [x for x in args[1:] if mentions(x, lambda s_: s_[0] == "param" and "tick_array" in s_[1])]
            side_a = "?"
            if len(accts) == 1:
                side_a = "lower" if mentions(accts[0], lambda s_: s_[0] == "param" and s_[1].startswith("lower_")) else "upper"
            got.append((kind, side_u, side_a, cfg.result_checked(fn, bi)))
        want = sorted([("transfer_rent", "lower", "lower", True), ("transfer_rent", "upper", "upper", True), ("size_update", "lower", "lower", True), ("size_update", "upper", "upper", True)])
        run.check("R6", "executions@" + short, sorted(got) == want, "%s executes (update kind, update side, account side, checked) = %s; expected each side's update on its own account" % (path, sorted(got)),
                  loc=fn.loc(), detail="lower update -> lower account; upper update -> upper account (rent and size)")
    # callers
    n = 0
    for fn in facts.fn_list:
        if fn.kind == "const":
            continue
        for bi, t in fn.calls():
            p = callee_path(t) or ""
            if not p.endswith(("::update_tick_array_accounts", "::pino_update_tick_array_accounts")):
                continue
            pv = prov_of(fn)
            args = [pv.operand(a, bi, len(fn.blocks[bi]["s"])) for a in t["a"]]

            def side(t_):
                names = {s_[2] for s_ in subterms(t_) if s_[0] == "field"} | {s_[1] for s_ in subterms(t_) if s_[0] in ("param", "var")} | {acc(s_) for s_ in subterms(t_) if acc(s_)}
                lo = any("lower" in (x or "") for x in names)
                up = any("upper" in (x or "") for x in names)
                return "lower" if lo and not up else "upper" if up and not lo else "?"
            def outer(t_):
                n_ = arg_name(t_) or acc(t_) or ""
                if not n_ and fn.path.startswith("pinocchio::"):
                    from analysis import pino
                    sl = pino.slot_of_term(fn, t_)
                    n_ = sl.name if sl is not None else ""
                return "lower" if "lower" in n_ else "upper" if "upper" in n_ else side(t_)
            sides = [outer(args[1]), outer(args[2]), outer(args[3]), outer(args[4])]
            n += 1
            run.check("R6", "caller@%s#%d" % (fn.path, n), sides == ["lower", "upper", "lower", "upper"], "%s passes %s to %s, expected (lower account, upper account, lower update, upper update)" %
                      (fn.path, sides, p.rsplit("::", 1)[-1]), loc=fn.loc(t["l"]), detail="(lower, upper, lower, upper)")
    run.floor("R6", "callers", n, 6)
    # order: an increase can only initialise ticks, so the arrays are grown (and funded) before the ticks are written into them;
    # a decrease can only de-initialise, so the ticks are written first and the arrays shrunk afterwards. The other order shifts
    # tick bytes past the end of the account / cuts bytes that are still in use.
    m = 0
    for fn in facts.fn_list:
        if fn.kind == "const":
            continue
        ua = [bi for bi, t in fn.calls() if (callee_path(t) or "").endswith(("::update_tick_array_accounts", "::pino_update_tick_array_accounts")) and not fn.blocks[bi]["c"]]
        sy = [bi for bi, t in fn.calls() if (callee_path(t) or "").endswith(("::sync_modify_liquidity_values", "::pino_sync_modify_liquidity_values")) and not fn.blocks[bi]["c"]]
        if not ua or not sy:
            continue
        direction = "increase" if "increase" in fn.path else "decrease" if "decrease" in fn.path else None
        if direction is None:
            run.bad("R6", "order@" + fn.path, "%s resizes tick arrays and writes ticks but is neither an increase nor a decrease path" % fn.path, loc=fn.loc())
            continue
        m += 1
        if direction == "increase":
            ok = all(cfg.dominates(fn, a_, s_) for a_ in ua for s_ in sy)
        else:
            ok = all(cfg.dominates(fn, s_, a_) for a_ in ua for s_ in sy)
        run.check("R6", "order@" + fn.path, ok, "%s: %s" % (fn.path, "ticks are written before the arrays are grown" if direction == "increase" else "the arrays are shrunk before the ticks are written"),
                  loc=fn.loc(), detail="grow, then write" if direction == "increase" else "write, then shrink")
    run.floor("R6", "resize / write orders", m, 11)


def R7_cross_checks(run):
    run.title("R7", "dynamic and fixed arrays answer searches alike (C10.R3 instances) and each array's own variable-size flag decides its resize (C12.R5 pairs calculate_modify_liquidity, calculate_modify_tick_array, update_tick_array_accounts)")
    from rules.common import RuleProxy
    from rules import C10, C12
    C10.R3_search_siblings(RuleProxy(run, 'R7'))
    for pr in C12.PAIRS:
        if pr['a'].rsplit('::', 1)[-1] in ('calculate_modify_liquidity', 'calculate_modify_tick_array', 'update_tick_array_accounts', '_calculate_modify_liquidity'):
            C12.compare_pair(RuleProxy(run, 'R7'), 'R7', pr['a'], pr['b'], keys=pr.get('keys', C12.ALL), subs_b=pr.get('subs_b', ()), exempt=pr.get('exempt', {}), norm_a=pr.get('na'), norm_b=pr.get('nb'))


def R8_conversions(run):
    run.title("R8", "tick conversions copy every field to the field of the same name: TickUpdate <-> Tick, and the dynamic slot <-> Tick (Initialized(data) carries "
                    "net, gross, both fee growths and the reward growths; Uninitialized is the default tick; an initialised update becomes Initialized)")
    facts = run.facts
    convs = [("<state::tick::Tick as std::convert::From<state::tick::TickUpdate>>::from", 6, None),
             ("<state::tick::TickUpdate as std::convert::From<state::tick::Tick>>::from", 6, None),
             ("<state::dynamic_tick_array::DynamicTick as std::convert::From<&state::tick::TickUpdate>>::from", 5, "Initialized"),
             ("state::dynamic_tick_array::<impl std::convert::From<state::dynamic_tick_array::DynamicTick> for state::tick::Tick>::from", 6, None)]
    for path, nfields, variant in convs:
        fn = facts.need_fn(path)
        run.touch(fn)
        pv = prov_of(fn)
        aggs = []
        for bi, bb in enumerate(fn.blocks):
            if bb["t"]["k"] == "ret":
                for l in leaves(pv.local(0, bi, len(bb["s"]))):
                    for x in subterms(l):
                        if x[0] == "agg" and len(x[3]) >= 5:
                            aggs.append(x)
        short = path.split("From<")[1].split(">")[0].rsplit("::", 1)[-1] + "->" + ("DynamicTick" if variant else path.split(" as ")[0].split(" for ")[-1].rstrip(">").rsplit("::", 1)[-1].replace("<", ""))
        bad = []
        for x in aggs:
            for name, v in x[3]:
                v_ = strip(v)
                if name == "initialized" and const_val(v_) == 1:
                    continue        # Initialized(data) read back as an initialised tick
                if not (v_[0] == "field" and v_[2] == name):
                    bad.append("%s := %s" % (name, sh(v_, 40)))
        ok = len(aggs) == 1 and len(aggs[0][3]) == nfields and not bad
        run.check("R8", "copy@" + short, ok, "%s does not copy its %d fields name by name (%s)" % (path, nfields, "; ".join(bad) or "%d literal(s) of %s fields" % (len(aggs), [len(a[3]) for a in aggs])),
                  loc=fn.loc(), detail="%d fields, same names" % nfields)
    fn = facts.need_fn(convs[2][0])
    ats = [at for at in A.atoms(fn) if is_field(strip(at.term), "initialized")]
    ok = len(ats) == 1
    if ok:
        at = ats[0]
        pvt, pvf = prov_assuming(fn, [(at, True)]), prov_assuming(fn, [(at, False)])

        def variant_of(pv_):
            out = set()
            for bi, bb in enumerate(fn.blocks):
                if bb["t"]["k"] == "ret" and pv_.flow.state_in[bi] is not None:
                    for l in leaves(pv_.local(0, bi, len(bb["s"]))):
                        if l[0] == "agg":
                            out.add(l[2])
            return out
        ok = variant_of(pvt) == {"Initialized"} and variant_of(pvf) == {"Uninitialized"}
    run.check("R8", "slot-kind", ok, "an update becomes an Initialized slot exactly when update.initialized", loc=fn.loc(), detail="initialized => Initialized(data) else Uninitialized")


RULES = [R6_account_wiring, R1_constants, R2_shift_bitmap_pairing, R3_byte_offset, R4_size_and_rent, R4b_resize_moves_no_bytes, R4c_initialise_only_blank, R5_shared_checks, R7_cross_checks, R8_conversions]
