"""C20 The Rust core SDK reproduces the program's swap / tick / liquidity results.

The SDK (rust-sdk/core, compiled in place through the sdkview harness with a signature-only
stand-in for the `ethnum` crate) is analysed with the same extractor as the program.
Decided: the SDK's published constants, both 19-rung tick ladders, the inverse's constants and
final choice are literally the program's; the SDK's FeeRateManager, AdaptiveFeeVariables and
integer-division helpers are guard-for-guard, call-for-call and store-for-store ports of the
program's; the SDK swap step has the program's rounding-polarity table and next-price
dispatch, applies the fee with floor and reverses it with ceil, and keeps the remainder as fee
on a partial exact-in step; its rounding primitives add one only when rounding up and only
behind a remainder test; its swap loop validates the limit, moves the tick cursor, applies
liquidity_net with the program's sign table and assigns (token_a, token_b) as the program
does; liquidity quotes use the program's three-case table with round-up for deposits and
round-down for withdrawals and put slippage on the safe side.
Also decided: the program side of the comparison is the same on both packagings (C08.R1 instances re-decided
here);
Also decided: the SDK's grid steppers and array start use Euclidean remainder / division; its tick lookup refuses out-of-range
and off-grid indexes and reads arrays[(i - start0) / (88 s)].ticks[(i - start_k) / s]; start / end index formulas; its
transfer-fee arithmetic (ceil, cap at max_fee, inverse with the 100 % case).
Also decided: the swap quotes apply each transfer fee to an amount of that fee's own token (input fee on input-token amounts, output fee on output-token amounts).
Not decided: numeric equality of the two arithmetic formulations (U256 vs U256Muldiv), "never
fails where the program succeeds", the WASM / TypeScript packaging."""
import re
from analysis import cfg, atoms as A, preach, siblings as S
from analysis.ir import callee_path, AnchorMissing
from analysis.prov import Prov, prov_of, prov_assuming, strip, leaves, subterms, show
from analysis.match import is_param, is_field, is_call, const_val, sh, mentions
from rules.common import calls_to, ends, arg_name
from rules import C09

NEEDS_SDK = True

NORM_P = dict(rename={"sqrt_price_from_tick_index": "tick_index_to_sqrt_price", "tick_index_from_sqrt_price": "sqrt_price_to_tick_index"}, const_values=True)
NORM_S = dict(const_values=True)

ERR_MAP = {"InvalidTimestamp": "INVALID_TIMESTAMP"}

CONST_PAIRS = [
    ("math::tick_math::MAX_SQRT_PRICE_X64", "constants::swap::MAX_SQRT_PRICE"),
    ("math::tick_math::MIN_SQRT_PRICE_X64", "constants::swap::MIN_SQRT_PRICE"),
    ("state::tick::MAX_TICK_INDEX", "constants::tick::MAX_TICK_INDEX"),
    ("state::tick::MIN_TICK_INDEX", "constants::tick::MIN_TICK_INDEX"),
    ("state::tick_array::TICK_ARRAY_SIZE", "constants::tick::TICK_ARRAY_SIZE"),
    ("math::tick_math::FULL_RANGE_ONLY_TICK_SPACING_THRESHOLD", "constants::tick::FULL_RANGE_ONLY_TICK_SPACING_THRESHOLD"),
    ("math::token_math::FEE_RATE_MUL_VALUE", "constants::swap::FEE_RATE_DENOMINATOR"),
    ("manager::fee_rate_manager::FEE_RATE_HARD_LIMIT", "constants::adaptive_fee::FEE_RATE_HARD_LIMIT"),
    ("state::oracle::ADAPTIVE_FEE_CONTROL_FACTOR_DENOMINATOR", "constants::adaptive_fee::ADAPTIVE_FEE_CONTROL_FACTOR_DENOMINATOR"),
    ("state::oracle::VOLATILITY_ACCUMULATOR_SCALE_FACTOR", "constants::adaptive_fee::VOLATILITY_ACCUMULATOR_SCALE_FACTOR"),
    ("state::oracle::REDUCTION_FACTOR_DENOMINATOR", "constants::adaptive_fee::REDUCTION_FACTOR_DENOMINATOR"),
    ("state::oracle::MAX_REFERENCE_AGE", "constants::adaptive_fee::MAX_REFERENCE_AGE"),
    ("state::whirlpool::NUM_REWARDS", "constants::pool::NUM_REWARDS"),
    ("state::position_bundle::POSITION_BUNDLE_SIZE", "constants::bundle::POSITION_BUNDLE_SIZE"),
    ("math::tick_math::LOG_B_2_X32", "math::tick::LOG_B_2_X32"),
    ("math::tick_math::BIT_PRECISION", "math::tick::BIT_PRECISION"),
    ("math::tick_math::LOG_B_P_ERR_MARGIN_LOWER_X64", "math::tick::LOG_B_P_ERR_MARGIN_LOWER_X64"),
    ("math::tick_math::LOG_B_P_ERR_MARGIN_UPPER_X64", "math::tick::LOG_B_P_ERR_MARGIN_UPPER_X64"),
    ("anchor_spl::token_2022::spl_token_2022::extension::transfer_fee::MAX_FEE_BASIS_POINTS", "constants::token::BPS_DENOMINATOR"),
]


def R1_constants(run):
    run.title("R1", "every constant the SDK shares with the program has the program's value (19 scalars), both tick ladders have the program's 2 x 20 literals, masks, "
                    "step primitive and final shift, and the SDK's inverse has the program's constants, margins and final choice")
    P, K = run.facts, run.sdk
    n = 0
    for pp, sp in CONST_PAIRS:
        pv, sv = P.const_value(pp), K.const_value(sp)
        n += 1
        run.check("R1", "const@" + sp.rsplit("::", 1)[-1], pv is not None and pv == sv, "SDK %s = %s but the program's %s = %s" % (sp, sv, pp, pv), detail="%s on both sides" % pv)
    run.floor("R1", "shared constants", n, 19)
    lad = {}
    for side, facts, tm, tag in (("program", P, "math::tick_math::", ""), ("sdk", K, "math::tick::", "sdk:")):
        rule = "R1"

        class Quiet:
            """Forward to run, but the program's own ladder shape is C09's business: only extraction failures matter here."""
            def __init__(self, run, silent):
                self._r, self._s = run, silent

            def __getattr__(self, k):
                return getattr(self._r, k)

            def ok(self, *a, **kw):
                if not self._s:
                    return self._r.ok(*a, **kw)

            def check(self, rule, inst, cond, msg, **kw):
                if cond and self._s:
                    return None
                return self._r.check(rule, inst, cond, msg, **kw)
        q = Quiet(run, side == "program")
        pos = C09._ladder(q, "get_sqrt_price_positive_tick", C09._tick_is_param, facts=facts, tm=tm, tag=tag)
        passed = C09.passed_to_ladders(facts, tm, "sqrt_price_from_tick_index" if side == "program" else "tick_index_to_sqrt_price", "tick" if side == "program" else "tick_index")
        neg = C09._ladder(q, "get_sqrt_price_negative_tick", C09.tick_magnitude(passed.get("get_sqrt_price_negative_tick")), facts=facts, tm=tm, tag=tag)
        lad[side] = (pos, neg)
    for i, name in enumerate(("positive", "negative")):
        a, b = lad["program"][i], lad["sdk"][i]
        if a is None or b is None:
            run.missing("R1", "ladder@" + name, "could not extract the %s ladder on the %s side" % (name, "program" if a is None else "SDK"))
            continue
        diffs = []
        if a[0] != b[0]:
            diffs.append("start values %s vs %s" % (a[0], b[0]))
        for (m1, l1), (m2, l2) in zip(a[1], b[1]):
            if (m1, l1) != (m2, l2):
                diffs.append("bit %d: program %d, SDK %d" % (m1.bit_length() - 1, l1, l2))
        if a[2] != b[2]:
            diffs.append("final shift %s vs %s" % (a[2], b[2]))
        run.check("R1", "ladder@" + name, not diffs and len(a[1]) == len(b[1]) == 18, "the SDK's %s tick ladder differs from the program's: %s" % (name, "; ".join(diffs[:5])),
                  detail="2 start values + 18 rung literals + shift identical")
    # dispatch, mul_shift_96 and the inverse on the SDK side
    d = K.need_fn("math::tick::tick_index_to_sqrt_price")
    run.touch(d)
    ats = A.atoms(d)
    ok = len(ats) == 1 and ats[0].cond() and ats[0].cond()[0] in ("Ge", "Gt") and is_param(ats[0].cond()[1], "tick_index") and const_val(ats[0].cond()[2]) == 0
    if ok:
        tr = cfg.reach(d, ats[0].true_targets[0]) - cfg.reach(d, ats[0].false_targets[0])
        fr = cfg.reach(d, ats[0].false_targets[0]) - cfg.reach(d, ats[0].true_targets[0])
        tc = {callee_path(t) for b, t in d.calls() if b in tr and (callee_path(t) or "").startswith("math::tick::get_")}
        fc = {callee_path(t) for b, t in d.calls() if b in fr and (callee_path(t) or "").startswith("math::tick::get_")}
        ok = tc == {"math::tick::get_sqrt_price_positive_tick"} and fc == {"math::tick::get_sqrt_price_negative_tick"}
    run.check("R1", "sdk-dispatch", ok, "the SDK's tick_index_to_sqrt_price is not `tick >= 0 => positive ladder else negative ladder`", loc=d.loc(), detail="tick >= 0 => positive ladder")
    ms = K.need_fn("math::tick::mul_shift_96")
    run.touch(ms)
    pvm = prov_of(ms)
    r = [strip(pvm.local(0, bi, len(bb["s"]))) for bi, bb in enumerate(ms.blocks) if bb["t"]["k"] == "ret"]
    ok = len(r) == 1 and is_call(r[0], "as_u128")
    if ok:
        sh_ = strip(r[0][2][0])
        ok = sh_[0] == "call" and sh_[1].endswith("::shr") and const_val(sh_[2][1]) == 96
        if ok:
            m = strip(sh_[2][0])
            ok = m[0] == "call" and m[1].endswith("::mul") and sorted(sh(strip(x), 40) for x in m[2]) == sorted(["n0", "n1"]) or \
                (m[0] == "call" and m[1].endswith("::mul") and {_inner_param(x) for x in m[2]} == {"n0", "n1"})
    run.check("R1", "sdk-mul_shift_96", ok, "the SDK's mul_shift_96 is not (U256(n0) * U256(n1)) >> 96 truncated to 128 bits", loc=ms.loc(), detail="(n0 * n1) >> 96 over 256 bits")
    C09.check_inverse(run, K, "math::tick::", "sqrt_price_to_tick_index", "tick_index_to_sqrt_price", ("sqrt_price", "sqrt_price_x64"), rule="R1", tag="sdk-")


def _inner_param(t):
    t = strip(t)
    while t[0] == "call" and len(t[2]) == 1:
        t = strip(t[2][0])
    return t[1] if t[0] == "param" else None


def _camel_to_snake(m):
    s = m.group(1)
    return re.sub(r"(?<!^)(?=[A-Z])", "_", s).upper()


SUBS_P = [(r"^None$", "()"), (r"Result::Ok\{0: \(\)\}", "()"), (r"^Result::Ok\{0: (.*)\}$", r"\1"), (r"Result::Err\{0: ErrorCode::(\w+)\{\}\}", lambda m: "Result::Err{0: %s}" % _camel_to_snake(m)),
          (r"Result::Err\.0 = ErrorCode::(\w+)\{\}", lambda m: "Result::Err.0 = %s" % _camel_to_snake(m)),
          (r"fail\((\w+)\)", lambda m: "fail(%s)" % _camel_to_snake(m)), (r"\?", "")]
SUBS_S = [(r"^None$", "()"), (r"Result::Ok\{0: \(\)\}", "()"), (r"^Result::Ok\{0: (.*)\}$", r"\1"), (r"\?", ""), (r"Facade\b", "")]

FRM_P = "manager::fee_rate_manager::FeeRateManager::"
FRM_S = "math::adaptive_fee::FeeRateManager::"
AFV_P = "state::oracle::AdaptiveFeeVariables::"
AFV_S = "math::adaptive_fee::<impl types::oracle::AdaptiveFeeVariablesFacade>::"
ALL = ("atoms", "calls", "returns", "stores")

PORTS = [dict(p=FRM_P + n, s=FRM_S + n) for n in ("new", "update_volatility_accumulator", "update_major_swap_timestamp", "advance_tick_group", "advance_tick_group_after_skip",
                                                  "get_total_fee_rate", "get_bounded_sqrt_price_target", "get_next_adaptive_fee_info", "compute_adaptive_fee_rate")] + \
        [dict(p=AFV_P + n, s=AFV_S + n) for n in ("update_volatility_accumulator", "update_reference", "update_major_swap_timestamp")] + \
        [dict(p="math::int_division_math::" + n, s="math::adaptive_fee::" + n) for n in ("floor_division", "ceil_division_u128", "ceil_division_u32")]


def _apply(summary, subs):
    out = {}
    for k, v in summary.items():
        s2 = set()
        for x in v:
            for (pat, rep) in subs:
                x = re.sub(pat, rep, x)
            s2.add(x)
        out[k] = s2
    return out


def compare_port(run, rule, pp, sp, keys=ALL, exempt=()):
    P, K = run.facts, run.sdk
    a, b = P.fn(pp), K.fn(sp)
    inst = "%s~sdk" % pp.split("::", 2)[-1]
    if a is None or b is None:
        run.missing(rule, inst, "port pair member not found: %s" % (pp if a is None else sp))
        return
    run.touch(a)
    sa = _apply(S.summary(a, S.Norm(**NORM_P)), SUBS_P)
    sb = _apply(S.summary(b, S.Norm(**dict(NORM_S, arg_map=S.align_params(a, b)))), SUBS_S)
    d = S.diff(sa, sb, keys, exempt=list(exempt))
    if not d:
        run.ok(rule, inst, detail="%s equal after the name map (%s)" % ("/".join(keys), ", ".join("%d %s" % (len(sa[k]), k) for k in keys)))
        return
    if pp.endswith("::floor_division"):
        # written differently: both sides are floor(x / y) of their own two parameters in the same order (rules.ranges.floor_div_form:
        # remainder form, sign form, or div_euclid by a divisor asserted positive)
        from rules.ranges import floor_div_form
        fa, fb = floor_div_form(a)[0], floor_div_form(b)[0]
        pa_, pb_ = a.param_names(), b.param_names()
        if fa and fb and all(t[0] == "param" for t in fa + fb) and [pa_.index(t[1]) for t in fa] == [pb_.index(t[1]) for t in fb]:
            run.ok(rule, inst, detail="written differently; both sides return floor(dividend / divisor)")
            return
    parts = []
    for k, oa, ob in d:
        for x in oa:
            parts.append("%s only in the program: %s" % (k, x[:300]))
        for x in ob:
            parts.append("%s only in the SDK: %s" % (k, x[:300]))
    run.bad(rule, inst, "the SDK's port differs from the program's function:\n      " + "\n      ".join(parts[:8]), loc="%s | %s" % (a.loc(), b.loc()))


def R4_fee_manager_ports(run):
    run.title("R4", "FeeRateManager (9 methods), AdaptiveFeeVariables (3 update functions) and the 3 integer-division helpers: the SDK function has the same guard atoms with the same "
                    "outcomes, the same calls with the same argument terms, the same returned terms and the same field stores as the program's, after the name map")
    for pr in PORTS:
        compare_port(run, "R4", pr["p"], pr["s"], keys=pr.get("keys", ALL), exempt=pr.get("exempt", ()))
    run.floor("R4", "ported pairs", len(PORTS), 15)
    # the sibling comparison ignores casts; the widths of the intermediate products are checked separately (same rule as C14.R7)
    from rules import C14
    C14.check_widths(run, "R4", run.sdk, AFV_S, FRM_S, tag="sdk:")
    # ... and it compares sets, not order: like the program's (C14.R3), the SDK's `new` sizes the saturation range from the *updated*
    # reference - every read of volatility_reference / tick_group_index_reference comes after update_reference()
    from rules.common import field_reads
    nw = run.sdk.need_fn(FRM_S + "new")
    ur = [bi for bi, t in nw.calls() if (callee_path(t) or "").endswith("update_reference") and not nw.blocks[bi]["c"]]
    early = []
    if len(ur) == 1:
        for fld in ("volatility_reference", "tick_group_index_reference"):
            for (bi_, si_) in field_reads(nw, fld):
                if not (cfg.dominates(nw, ur[0], bi_) and bi_ != ur[0]):
                    early.append(fld)
    run.check("R4", "sdk:range-from-updated-reference", len(ur) == 1 and not early and bool(field_reads(nw, "volatility_reference")),
              "the SDK's FeeRateManager::new reads %s before update_reference(): the saturation range is sized from the stale reference" % (sorted(set(early)) or "the reference fields nowhere / update_reference is not called once"),
              loc=nw.loc(), detail="reference fields read only after update_reference()?")
    # is_major_swap: different 256-bit formulation; same shape: larger >= (smaller * price(threshold)) >> 64
    K = run.sdk
    fn = K.need_fn(AFV_S + "is_major_swap")
    pv = prov_of(fn)
    rets = [strip(x) for bi, bb in enumerate(fn.blocks) if bb["t"]["k"] == "ret" for x in leaves(pv.local(0, bi, len(bb["s"])))]
    ok = len(rets) == 1 and rets[0][0] == "bin" and rets[0][1] in ("Ge", "Le")
    if ok:
        big, tgt = (rets[0][2], rets[0][3]) if rets[0][1] == "Ge" else (rets[0][3], rets[0][2])
        shr = [s for s in subterms(tgt) if s[0] == "call" and s[1].endswith("::shr") and const_val(s[2][1]) == 64]
        ok = len(shr) == 1
        if ok:
            mul = strip(shr[0][2][0])
            ok = mul[0] == "call" and mul[1].endswith("::mul") and any(mentions(x, lambda s: s[0] == "call" and s[1].endswith("tick_index_to_sqrt_price")) for x in mul[2])
            price = [x for x in mul[2] if mentions(x, lambda s: s[0] == "call" and s[1].endswith("tick_index_to_sqrt_price"))]
            ok = ok and mentions(price[0], lambda s: s[0] == "param" and s[1] == "major_swap_threshold_ticks")
        # smaller / larger selection
        ats = [at for at in A.atoms(fn) if at.cond() and at.cond()[0] in ("Lt", "Gt", "Le", "Ge")]
        ok = ok and len(ats) == 1
        if ok:
            c = ats[0].cond()
            pre_lt_post = (c[0] in ("Lt", "Le")) == is_param(c[1], "pre_sqrt_price")
            pvt = prov_assuming(fn, [(ats[0], True)])
            rt = [strip(x) for bi, bb in enumerate(fn.blocks) if bb["t"]["k"] == "ret" and pvt.flow.state_in[bi] is not None for x in leaves(pvt.local(0, bi, len(bb["s"])))]
            bigt = rt[0][2] if rt[0][1] == "Ge" else rt[0][3]
            ok = len(rt) == 1 and is_param(bigt, "post_sqrt_price" if pre_lt_post else "pre_sqrt_price")
    run.check("R4", "is_major_swap~sdk", ok, "the SDK's is_major_swap is not `larger >= (smaller * price(threshold)) >> 64` with (smaller, larger) ordered", loc=fn.loc(),
              detail="larger >= (smaller * tick_index_to_sqrt_price(threshold)) >> 64")



SW = "quote::swap::"
TK = "math::token::"


def _events(K, fn, ctx, names, depth=6):
    tg = lambda p: p.rsplit("::", 1)[-1] in names
    return {(p.rsplit("::", 1)[-1], v) for p, v in preach.call_events(K, fn, ctx, tg, depth=depth)}


def _rets(fn, pv, ok_only=True):
    out = []
    for bi, bb in enumerate(fn.blocks):
        if bb["t"]["k"] == "ret" and (pv.flow is None or pv.flow.state_in[bi] is not None):
            for l in leaves(pv.local(0, bi, len(bb["s"]))):
                l = strip(l)
                if ok_only and l[0] == "call" and "from_residual" in l[1]:
                    continue
                out.append(l)
    return out


def _ok_payload(t):
    t = strip(t)
    if t[0] == "agg" and t[2] == "Ok":
        return strip(dict(t[3])["0"])
    return None


def R2_step(run):
    run.title("R2", "SDK compute_swap_step: per (specified_input, a_to_b) the curve primitives are delta_a(round_up = a_to_b) and delta_b(round_up = !a_to_b) (input up, output down); "
                    "next price uses from_a iff specified_input == a_to_b with the flag specified_input; exact-in budget = apply_fee (floor), fee of a full step = reverse_fee (ceil) - in, "
                    "fee of a partial exact-in step = remaining - in; amount_in/out = fixed/unfixed by mode; exact-out output capped by the request")
    K = run.sdk
    fn = K.need_fn(SW + "compute_swap_step")
    run.touch(fn)
    for ctx in preach.contexts(["specified_input", "a_to_b"]):
        si, ab = ctx["specified_input"], ctx["a_to_b"]
        tagc = "[exact_in=%d,a_to_b=%d]" % (si, ab)
        ev = _events(K, fn, ctx, ("try_get_amount_delta_a", "try_get_amount_delta_b"))
        want = {("try_get_amount_delta_a", ab), ("try_get_amount_delta_b", not ab)}
        got = {(p, v[3]) for p, v in ev}
        run.check("R2", "polarity" + tagc, got == want, "SDK swap step rounds the wrong way in context exact_in=%s a_to_b=%s: token A must be rounded %s and token B %s" %
                  (si, ab, "up" if ab else "down", "down" if ab else "up"), loc=fn.loc(), expected=str(sorted(want)), found=str(sorted(got)), detail="delta_a round_up=%s, delta_b round_up=%s" % (ab, not ab))
        ev = _events(K, fn, ctx, ("try_get_next_sqrt_price_from_a", "try_get_next_sqrt_price_from_b"))
        want = {("try_get_next_sqrt_price_from_a" if si == ab else "try_get_next_sqrt_price_from_b", si)}
        got = {(p, v[3]) for p, v in ev}
        run.check("R2", "next-price" + tagc, got == want, "SDK next-price dispatch in context exact_in=%s a_to_b=%s is %s, expected %s" % (si, ab, sorted(got), sorted(want)), loc=fn.loc(),
                  detail="%s(specified_input=%s)" % list(want)[0])
        ev = _events(K, fn, ctx, ("try_mul_div",))
        want = {False, True} if si else {True}
        got = {v[3] for p, v in ev}
        run.check("R2", "fee-rounding" + tagc, got == want, "SDK fee conversions in context exact_in=%s use try_mul_div round_up flags %s, expected %s (apply = floor, reverse = ceil)" % (si, sorted(got), sorted(want)),
                  loc=fn.loc(), detail="apply_fee floor%s; reverse_fee ceil" % ("" if si else " (unused)"))
        pv = prov_of(fn, ctx)
        q = [_ok_payload(r) for r in _rets(fn, pv)]
        q = [x for x in q if x is not None and x[0] == "agg"]
        ok = len(q) == 1
        if ok:
            f = {n: t for n, t in q[0][3]}
            fixed = lambda t: all(is_call(x, "try_get_amount_fixed_delta") for x in leaves(t))
            unfixed = lambda t: all(is_call(x, "try_get_amount_unfixed_delta") for x in leaves(t))
            if si:
                ok = fixed(f["amount_in"]) and unfixed(f["amount_out"])
            else:
                lo = [strip(x) for x in leaves(f["amount_out"])]
                ok = unfixed(f["amount_in"]) and any(is_param(x, "amount_remaining") for x in lo) and all(is_param(x, "amount_remaining") or is_call(x, "try_get_amount_fixed_delta") for x in lo)
            run.check("R2", "amounts" + tagc, ok, "SDK step in context exact_in=%s: amount_in = %s, amount_out = %s; expected %s" %
                      (si, sh(f["amount_in"], 80), sh(f["amount_out"], 80), "in = fixed delta, out = unfixed delta" if si else "in = unfixed delta, out = min(fixed delta, remaining)"), loc=fn.loc(),
                      detail="in=%s out=%s" % (("fixed", "unfixed") if si else ("unfixed", "fixed capped at remaining")))
            fees = [strip(x) for x in leaves(f["fee_amount"])]
            shapes = set()
            for x in fees:
                if x[0] == "bin" and x[1].startswith("Sub"):
                    l, r = strip(x[2]), x[3]
                    if is_param(l, "amount_remaining"):
                        shapes.add("remainder")
                    elif is_call(l, "try_reverse_apply_swap_fee") or (l[0] == "q" and is_call(l[1], "try_reverse_apply_swap_fee")):
                        shapes.add("reverse")
                    else:
                        shapes.add("?" + sh(l, 40))
                else:
                    shapes.add("?" + sh(x, 40))
            want = {"remainder", "reverse"} if si else {"reverse"}
            run.check("R2", "fee" + tagc, shapes == want, "SDK step fee in context exact_in=%s is %s, expected %s" % (si, sorted(shapes), sorted(want)), loc=fn.loc(), detail="fee in {%s}" % ", ".join(sorted(want)))
            if si:
                # which one: the remainder only when the step stops short of its target
                mx = [at for at in A.atoms(fn, ctx) if at.cond() and at.cond()[0] in ("Eq", "Ne") and is_param(at.cond()[2], "target_sqrt_price") and
                      mentions(at.cond()[1], lambda s: s[0] == "call" and "try_get_next_sqrt_price" in s[1].rsplit("::", 1)[-1])]
                res = {}
                for is_max in (True, False):
                    pva = prov_assuming(fn, [(at, (at.cond()[0] == "Eq") == is_max) for at in mx], ctx)
                    qq = [_ok_payload(r) for r in _rets(fn, pva)]
                    qq = [x for x in qq if x is not None and x[0] == "agg"]
                    kinds = set()
                    for x in qq:
                        for y in leaves(dict(x[3])["fee_amount"]):
                            y = strip(y)
                            kinds.add("remainder" if (y[0] == "bin" and is_param(y[2], "amount_remaining")) else "reverse")
                    res[is_max] = kinds
                run.check("R2", "fee-by-fill" + tagc, bool(mx) and res == {True: {"reverse"}, False: {"remainder"}},
                          "SDK exact-in step fee: reaching the target gives %s, stopping short gives %s; expected reverse_fee(in) - in when the target is reached and remaining - in otherwise" %
                          (sorted(res.get(True, [])), sorted(res.get(False, []))), loc=fn.loc(), detail="target reached => ceil fee on in; partial => remaining - in")
            nx = [strip(x) for x in leaves(f["next_sqrt_price"])]
            # read with the try_get_next_sqrt_price wrapper spliced in: the computed alternative is the from_a / from_b primitive of this
            # context (which of the two: "next-price" above) on (current price, liquidity, budget, specified_input), through
            # width conversions only
            prim = "try_get_next_sqrt_price_from_a" if si == ab else "try_get_next_sqrt_price_from_b"

            def unconv(t):
                t = strip(t)
                while t[0] == "call" and t[1].rsplit("::", 1)[-1] in ("into", "from") and len(t[2]) == 1:
                    t = strip(t[2][0])
                return t
            comp = [x for x in nx if not is_param(x, "target_sqrt_price")]
            ok = any(is_param(x, "target_sqrt_price") for x in nx) and len(comp) == 1 and len(nx) == 2
            if ok:
                cc = [y for y in subterms(comp[0]) if y[0] == "call" and y[1].rsplit("::", 1)[-1].startswith("try_get_next_sqrt_price")]
                ok = len(cc) == 1 and cc[0][1].rsplit("::", 1)[-1] == prim and len(cc[0][2]) == 4
            if ok:
                c = cc[0]
                budget = unconv(c[2][2])
                ok = (is_call(budget, "try_apply_swap_fee") and is_param(unconv(budget[2][0]), "amount_remaining")) if si else is_param(budget, "amount_remaining")
                ok = ok and is_param(unconv(c[2][0]), "current_sqrt_price") and is_param(unconv(c[2][1]), "current_liquidity") and is_param(unconv(c[2][3]), "specified_input")
            run.check("R2", "next-price-inputs" + tagc, ok, "SDK step next price is not target or %s(current, liquidity, %s, specified_input)" % (prim, "apply_fee(remaining)" if si else "remaining"),
                      loc=fn.loc(), detail="budget = %s" % ("apply_fee(remaining, rate)" if si else "remaining"))
        else:
            run.bad("R2", "amounts" + tagc, "SDK compute_swap_step does not return exactly one SwapStepQuote shape in this context (%d)" % len(q), loc=fn.loc())
    # the guard choosing the target price
    ok = False
    for at in A.atoms(fn):
        c = at.cond()
        if c and c[0] in ("Le", "Ge"):
            l, r = (c[1], c[2]) if c[0] == "Le" else (c[2], c[1])
            if mentions(l, lambda s: s[0] == "call" and s[1].endswith("try_get_amount_fixed_delta")) and all(is_param(x, "amount_remaining") or mentions(x, lambda s: s[0] == "call" and s[1].endswith("try_apply_swap_fee")) for x in leaves(r)):
                ok = True
    run.check("R2", "reach-target-guard", ok, "SDK step no longer compares fixed_delta(current -> target) <= budget to decide whether the target is reached", loc=fn.loc(), detail="fixed_delta(target) <= budget => target")
    # fee helpers
    for name, want_flag, num_is_den in (("try_apply_swap_fee", False, False), ("try_reverse_apply_swap_fee", True, True)):
        g = K.need_fn(TK + name)
        run.touch(g)
        cs = calls_to(g, ends("try_mul_div"))
        ok = len(cs) == 1
        if ok:
            a = cs[0][2]

            def is_den(t):
                t = strip(t)
                return t[0] == "const" and t[1] == 1000000

            def is_den_minus_rate(t):
                t = strip(t)
                return t[0] == "bin" and t[1].startswith("Sub") and is_den(t[2]) and is_param(t[3], "fee_rate")
            ok = is_param(a[0], "amount") and const_val(a[3]) == (1 if want_flag else 0)
            ok = ok and ((is_den(a[1]) and is_den_minus_rate(a[2])) if num_is_den else (is_den_minus_rate(a[1]) and is_den(a[2])))
        run.check("R2", name, ok, "SDK %s is not try_mul_div(amount, %s, round_up=%s)" % (name, "DEN, DEN - rate" if num_is_den else "DEN - rate, DEN", want_flag), loc=g.loc(),
                  detail="amount * %s, round_up=%s" % ("DEN / (DEN - rate)" if num_is_den else "(DEN - rate) / DEN", want_flag))
    for name, uses_a_when_eq, flag_negated in (("try_get_amount_fixed_delta", True, False), ("try_get_amount_unfixed_delta", False, True)):
        g = K.need_fn(SW + name)
        run.touch(g)
        for ctx in preach.contexts(["specified_input", "a_to_b"]):
            si, ab = ctx["specified_input"], ctx["a_to_b"]
            ev = _events(K, g, ctx, ("try_get_amount_delta_a", "try_get_amount_delta_b"))
            uses_a = (si == ab) == uses_a_when_eq
            want = {("try_get_amount_delta_a" if uses_a else "try_get_amount_delta_b", (not si) if flag_negated else si)}
            got = {(p, v[3]) for p, v in ev}
            run.check("R2", "%s[exact_in=%d,a_to_b=%d]" % (name, si, ab), got == want, "SDK %s picks %s in context exact_in=%s a_to_b=%s, expected %s" % (name, sorted(got), si, ab, sorted(want)), loc=g.loc(),
                      detail="%s(round_up=%s)" % list(want)[0])


def _sdk_increment_blocks(fn):
    """Blocks adding one: integer `x + 1`, or `<U256 as Add<_>>::add(x, 1)`."""
    from analysis.ir import op_const
    pv = prov_of(fn)
    out = set()
    for bi, bb in enumerate(fn.blocks):
        if bb["c"]:
            continue
        for si, st in enumerate(bb["s"]):
            if st["k"] == "=" and st["rv"].get("bin") in ("Add", "AddWithOverflow", "AddUnchecked"):
                for side in ("a", "b"):
                    k = op_const(st["rv"][side])
                    if k is not None and k.get("v") == "1":
                        out.add(bi)
        t = bb["t"]
        if t["k"] == "call" and (callee_path(t) or "").endswith("::add") and "ethnum" in (callee_path(t) or "") and len(t["a"]) == 2:
            if const_val(pv.operand(t["a"][1], bi, len(bb["s"]))) == 1:
                out.add(bi)
    return out


def R2b_rounding_primitives(run):
    from rules.C02 import check_increment_idiom
    run.title("R2b", "SDK rounding primitives add one only when asked to round up and only behind a remainder test: delta_a / delta_b / try_mul_div / token_a|b_from_liquidity (round_up), "
                     "next_price_from_b (up iff !specified_input); next_price_from_a always rounds up behind its remainder test")
    K = run.sdk
    for path, param, up in ((TK + "try_get_amount_delta_a", "round_up", True), (TK + "try_get_amount_delta_b", "round_up", True), (TK + "try_mul_div", "round_up", True),
                            (TK + "try_get_next_sqrt_price_from_b", "specified_input", False),
                            ("quote::liquidity::try_get_token_a_from_liquidity", "round_up", True), ("quote::liquidity::try_get_token_b_from_liquidity", "round_up", True)):
        fn = K.need_fn(path)
        run.touch(fn)
        dc = [bi for bi, t in fn.calls() if (callee_path(t) or "").rsplit("::", 1)[-1] == "div_ceil" and not fn.blocks[bi]["c"]]
        if dc and not _sdk_increment_blocks(fn):
            # the ceiling taken by the integer primitive: `if round_up { n.div_ceil(d) } else { n / d }` - div_ceil is reachable in
            # the round-up context only and a plain division in the other
            fl_up, fl_dn = preach.flow(fn, {param: up}).reachable(), preach.flow(fn, {param: not up}).reachable()
            plain = [bi for bi, bb in enumerate(fn.blocks) if not bb["c"] and any(st["k"] == "=" and st["rv"].get("bin") == "Div" for st in bb["s"])]
            ok = all(b in fl_up and b not in fl_dn for b in dc) and any(b in fl_dn for b in plain)
            run.check("R2b", "incr@sdk:" + path, ok, "SDK %s takes div_ceil outside the round-up context (or has no plain division for the other)" % path, loc=fn.loc(),
                      detail="%s = %s => div_ceil, else `/`" % (param, up))
            continue
        check_increment_idiom(run, "R2b", fn, param=param, up=up, inc=_sdk_increment_blocks(fn), tag="sdk:")
    fn = K.need_fn(TK + "try_get_next_sqrt_price_from_a")
    run.touch(fn)
    inc = _sdk_increment_blocks(fn)
    rem = [at for at in A.atoms(fn) if at.cond() and at.cond()[0] in ("Ne", "Eq") and mentions(at.term, lambda s: s[0] == "call" and s[1].endswith("::rem"))]
    ok = len(inc) == 1 and len(rem) == 1
    if ok:
        at = rem[0]
        nz = at.true_targets if at.cond()[0] == "Ne" else at.false_targets
        z = at.false_targets if at.cond()[0] == "Ne" else at.true_targets
        b = list(inc)[0]
        ok = b in cfg.reach(fn, nz[0], cut_blocks=[at.block]) and b not in cfg.reach(fn, z[0], cut_blocks=[at.block])
        # unconditional in specified_input
        ok = ok and b in preach.flow(fn, {"specified_input": True}).reachable() and b in preach.flow(fn, {"specified_input": False}).reachable()
    run.check("R2b", "sdk:next_price_from_a-rounds-up", ok, "SDK try_get_next_sqrt_price_from_a does not add one exactly when the division leaves a remainder (in both modes)", loc=fn.loc(),
              detail="remainder != 0 => quotient + 1, for exact-in and exact-out")
    den = None
    pv = prov_of(fn)
    for ctxv, op in ((True, "add"), (False, "sub")):
        pvc = prov_of(fn, {"specified_input": ctxv})
        found = set()
        for bi, t in fn.calls():
            if pvc.flow.state_in[bi] is None:
                continue
            p = callee_path(t) or ""
            if "ethnum" in p and p.rsplit("::", 1)[-1] in ("add", "sub") and const_val(pvc.operand(t["a"][1], bi, len(fn.blocks[bi]["s"]))) != 1:
                found.add(p.rsplit("::", 1)[-1])
        run.check("R2b", "sdk:next_price_from_a-denominator[exact_in=%d]" % ctxv, found == {op}, "SDK next_price_from_a builds its denominator with %s in mode exact_in=%s, expected liquidity<<64 %s amount*price" %
                  (sorted(found), ctxv, "+" if ctxv else "-"), loc=fn.loc(), detail="L<<64 %s amount * price" % ("+" if ctxv else "-"))
    g = K.need_fn(TK + "try_get_next_sqrt_price_from_b")
    for ctxv, op in ((True, "add"), (False, "sub")):
        pvc = prov_of(g, {"specified_input": ctxv})
        found = set()
        for bi, t in g.calls():
            if pvc.flow.state_in[bi] is None:
                continue
            p = callee_path(t) or ""
            if "ethnum" in p and p.rsplit("::", 1)[-1] in ("add", "sub") and const_val(pvc.operand(t["a"][1], bi, len(g.blocks[bi]["s"]))) != 1:
                found.add(p.rsplit("::", 1)[-1])
        run.check("R2b", "sdk:next_price_from_b-direction[exact_in=%d]" % ctxv, found == {op}, "SDK next_price_from_b moves the price with %s in mode exact_in=%s, expected price %s delta" % (sorted(found), ctxv, "+" if ctxv else "-"),
                  loc=g.loc(), detail="price %s delta" % ("+" if ctxv else "-"))
    # the curve products are formed in 256 bits: a u128 product would turn amounts the program treats as merely "larger than u64" into hard errors
    for name in ("try_get_amount_delta_a", "try_get_amount_delta_b", "try_get_next_sqrt_price_from_a", "try_get_next_sqrt_price_from_b"):
        g = K.need_fn(TK + name)
        run.touch(g)
        narrow = []
        wide = 0
        for bi, t in g.calls():
            p_ = callee_path(t) or ""
            last = p_.rsplit("::", 1)[-1]
            if last in ("mul", "checked_mul", "shl", "checked_shl", "wrapping_mul", "overflowing_mul"):
                if "ethnum" in p_:
                    wide += 1
                else:
                    narrow.append(p_)
        for bb in g.blocks:
            for st in bb["s"]:
                if st["k"] == "=" and st["rv"].get("bin") in ("Mul", "MulWithOverflow", "Shl"):
                    narrow.append("primitive %s" % st["rv"]["bin"])
        run.check("R2b", "sdk:%s-wide-products" % name, wide >= 1 and not narrow, "SDK %s multiplies / shifts outside U256: %s" % (name, sorted(set(narrow))), loc=g.loc(),
                  detail="%d product / shift operation(s), all on ethnum::U256" % wide)
    for name in ("try_get_next_sqrt_price_from_a", "try_get_next_sqrt_price_from_b"):
        g = K.need_fn(TK + name)
        bounds = [at for at in A.atoms(g) if at.false_fail and "SQRT_PRICE_OUT_OF_BOUNDS" in at.false_codes and mentions(at.term, lambda s: s[0] == "call" and s[1].endswith("contains"))]
        ok = len(bounds) == 1
        if ok:
            rng = [s for s in subterms(bounds[0].term) if s[0] == "call" and s[1].endswith("::new")]
            ok = bool(rng) and [arg for arg in map(lambda x: (strip(x)[2] or "").rsplit("::", 1)[-1] if strip(x)[0] == "const" else None, rng[0][2])] == ["MIN_SQRT_PRICE", "MAX_SQRT_PRICE"]
        run.check("R2b", "sdk:%s-bounds" % name, ok, "SDK %s does not reject results outside [MIN_SQRT_PRICE, MAX_SQRT_PRICE]" % name, loc=g.loc(), detail="result in [MIN, MAX] else SQRT_PRICE_OUT_OF_BOUNDS")



PRE_SUBS_P = [(r"\bamount\b", "token_amount"), (r"MIN_SQRT_PRICE_X64", "MIN_SQRT_PRICE"), (r"MAX_SQRT_PRICE_X64", "MAX_SQRT_PRICE"), (r"NO_EXPLICIT_SQRT_PRICE_LIMIT", "0"),
              (r"fail\(SqrtPriceOutOfBounds\)", "fail(SQRT_PRICE_LIMIT_OUT_OF_BOUNDS)"), (r"fail\((\w+)\)", lambda m: "fail(%s)" % (m.group(1) if m.group(1).isupper() or "_" in m.group(1) else _camel_to_snake(m)))]


from rules.common import enum_arms as _enum_arms, arm_prov as _arm_prov  # noqa: E402


def _sdk_roles(fn):
    """Loop variables of the SDK's compute_swap by role (never by name): {role: local}."""
    pv = Prov(fn, cut=True)
    roles = {}
    for l in range(fn.argc + 1, len(fn.locals)):
        if not fn.locals[l].get("n"):
            continue
        ds = pv.var_defs(l)
        if len(ds) < 2:
            continue
        terms = [strip(t) for _, _, t in ds]
        me = ("var", fn.locals[l]["n"], l)
        inits = [t for t in terms if not any(x == me for x in subterms(t))]
        upd = [t for t in terms if t not in inits]
        txt = " | ".join(show(t) for t in upd)
        role = None
        if any(is_param(t, "token_amount") for t in inits) and "checked_sub" in txt:
            role = "remaining"
        elif any(const_val(t) == 0 for t in inits) and "checked_add" in txt and ("amount_in" in txt or "amount_out" in txt):
            role = "calculated"
        elif any(t[0] == "field" and t[2] == "sqrt_price" for t in inits) and any(t[0] == "field" and t[2] == "next_sqrt_price" for t in terms):
            role = "price"
        elif any(t[0] == "field" and t[2] == "tick_current_index" for t in inits):
            role = "tick"
        elif any(t[0] == "field" and t[2] == "liquidity" for t in inits) and "get_next_liquidity" in txt:
            role = "liquidity"
        elif any(const_val(t) == 0 for t in inits) and any(t[0] == "bin" and t[1].startswith("Add") and strip(t[3])[0] == "field" and strip(t[3])[2] == "fee_amount" for t in upd):
            role = "trade_fee"
        elif any(is_param(x, "sqrt_price_limit") for t in terms for x in leaves(t)):
            role = "limit"
        if role:
            if role in roles:
                raise AnchorMissing("two loop variables of the SDK's compute_swap match role %s" % role)
            roles[role] = l
    return roles


def R3_loop(run):
    run.title("R3", "SDK compute_swap: the same limit defaulting / range / direction / zero-amount rejections as the program's swap(); per direction prev/next initialised tick and "
                    "max/min target; cursor := next - 1 iff a_to_b on reaching the tick, else tick of the new price; liquidity_net applied with the program's sign table only when the tick "
                    "is reached; remaining/calculated updated per mode; (token_a, token_b) = (swapped, calculated) iff a_to_b == specified_input")
    P, K = run.facts, run.sdk
    a = P.need_fn("manager::swap_manager::swap")
    b = K.need_fn(SW + "compute_swap")
    run.touch(a)
    roles = _sdk_roles(b)
    need = {"remaining", "calculated", "price", "tick", "liquidity", "trade_fee", "limit"}
    run.check("R3", "loop-variables", need <= set(roles), "the SDK's compute_swap lacks a loop variable for role(s) %s" % sorted(need - set(roles)), loc=b.loc(), detail="7 loop variables found by role")
    if not need <= set(roles):
        return
    sa = _apply(S.summary(a, S.Norm(**NORM_P)), PRE_SUBS_P)
    sb = S.summary(b, S.Norm(**NORM_S))
    fa = {x for x in sa["atoms"] if "fail(" in x and "fail()" not in x}     # (an assertion that only panics names no refusal)
    fb = {x for x in sb["atoms"] if "fail(" in x and "fail()" not in x}
    exempt_p = {"PARTIAL_FILL_ERROR": "exact-out partial fill without an explicit limit: the statement allows the SDK to answer",
                "AMOUNT_REMAINING_OVERFLOW": "checked_sub failures (SDK: ARITHMETIC_OVERFLOW through ok_or, compared in the per-mode update rule)",
                "AMOUNT_CALC_OVERFLOW": "same for checked_add"}
    exempt_s = {"INVALID_ADAPTIVE_FEE_INFO": "SDK-only input validation: the program receives the oracle through account constraints (C19)"}
    fa = {x for x in fa if not any(e in x for e in exempt_p)}
    fb = {x for x in fb if not any(e in x for e in exempt_s)}
    run.check("R3", "rejections", fa == fb and len(fa) >= 4, "swap() and the SDK's compute_swap reject different inputs:\n      program only: %s\n      SDK only: %s" %
              ("; ".join(sorted(fa - fb))[:600], "; ".join(sorted(fb - fa))[:600]), loc="%s | %s" % (a.loc(), b.loc()), detail="%d failing guards equal after the name map" % len(fa))
    # limit defaulting
    for ab in (True, False):
        pv = prov_of(b, {"a_to_b": ab}, cut=True)
        lim = roles.get("limit")
        vals = set()
        src = pv.var_defs(lim) if lim is not None else []
        for _, _, t in src:
            for x in leaves(t):
                x = strip(x)
                vals.add((x[2] or "").rsplit("::", 1)[-1] if x[0] == "const" else (x[1] if x[0] == "param" else sh(x, 30)))
        want = {"MIN_SQRT_PRICE" if ab else "MAX_SQRT_PRICE", "sqrt_price_limit"}
        run.check("R3", "limit-default[a_to_b=%d]" % ab, vals == want, "SDK default price limit for a_to_b=%s is %s, expected %s" % (ab, sorted(vals), sorted(want)), loc=b.loc(), detail="0 => %s" % sorted(want)[0])
    for ab in (True, False):
        ctx = {"a_to_b": ab}
        pv = prov_of(b, ctx, cut=True)
        fl = pv.flow
        seq = {callee_path(t).rsplit("::", 1)[-1] for bi, t in b.calls() if fl.state_in[bi] is not None and (callee_path(t) or "").endswith("_initialized_tick")}
        run.check("R3", "tick-search[a_to_b=%d]" % ab, seq == {"prev_initialized_tick" if ab else "next_initialized_tick"}, "SDK searches %s for a_to_b=%s" % (sorted(seq), ab), loc=b.loc(),
                  detail="prev" if ab else "next")
        ok = False
        # the step target as it reaches get_bounded_sqrt_price_target (a single-assignment local is seen through)
        cs = calls_to(b, ends("get_bounded_sqrt_price_target"), ctx=ctx, cut=True)
        tt = strip(cs[0][2][1]) if cs else ("x",)
        if tt[0] == "var":
            ds = pv.var_defs(tt[2])
            tt = strip(ds[0][2]) if len(ds) == 1 else ("x",)
        if tt[0] == "call" and tt[1].endswith("::max" if ab else "::min"):
            ok = any(mentions(x, lambda s: s[0] == "call" and s[1].endswith("tick_index_to_sqrt_price")) for x in tt[2]) and any(strip(x)[0] == "var" and strip(x)[2] == roles.get("limit") for x in tt[2])
        run.check("R3", "target[a_to_b=%d]" % ab, ok, "SDK step target for a_to_b=%s is %s, expected %s(next tick price, limit)" % (ab, sh(tt, 80), "max" if ab else "min"), loc=b.loc(),
                  detail="%s(price(next tick), limit)" % ("max" if ab else "min"))
        cur = roles.get("tick")
        ds = [strip(t) for blk, _, t in pv.var_defs(cur) if fl.state_in[blk] is not None] if cur is not None else []
        kinds = set()
        for t in ds:
            for x in leaves(t):
                x = strip(x)
                if x[0] == "bin" and x[1].startswith("Sub") and const_val(x[3]) == 1 and mentions(x[2], lambda s: s[0] == "call" and s[1].endswith("_initialized_tick")):
                    kinds.add("next-1")
                elif x[0] == "field" and mentions(x, lambda s: s[0] == "call" and s[1].endswith("_initialized_tick")):
                    kinds.add("next")
                elif is_call(x, "sqrt_price_to_tick_index"):
                    kinds.add("from-price")
                elif x[0] == "field" and x[2] == "tick_current_index":
                    kinds.add("init")
                else:
                    kinds.add("?" + sh(x, 40))
        want = {"init", "from-price", "next-1" if ab else "next"}
        run.check("R3", "cursor[a_to_b=%d]" % ab, kinds == want, "SDK tick cursor for a_to_b=%s takes %s, expected %s" % (ab, sorted(kinds), sorted(want)), loc=b.loc(),
                  detail="reached tick => %s; otherwise tick of the new price" % ("next - 1" if ab else "next"))
    # the cursor is recomputed from the price only when the step moved the price (same guard as the program, C10.R5)
    pvm = Prov(b, cut=True)
    mid_blocks = [blk for blk, _, t in pvm.var_defs(roles["tick"]) if is_call(strip(t), "sqrt_price_to_tick_index")]
    moved = None
    for at in A.atoms(b, cut=True):
        c = at.cond()
        if c and c[0] in ("Ne", "Eq"):
            def is_step_price(t):
                t = strip(t)
                return t[0] == "field" and t[2] == "next_sqrt_price"
            def is_price_var(t):
                t = strip(t)
                return t[0] == "var" and t[2] == roles["price"]
            if (is_step_price(c[1]) and is_price_var(c[2])) or (is_step_price(c[2]) and is_price_var(c[1])):
                moved = at
    ok = moved is not None and len(mid_blocks) == 1
    if ok:
        yes = moved.true_targets[0] if moved.cond()[0] == "Ne" else moved.false_targets[0]
        no = moved.false_targets[0] if moved.cond()[0] == "Ne" else moved.true_targets[0]
        stepb = [bi for bi, t in b.calls() if (callee_path(t) or "").endswith("compute_swap_step")]
        ok = mid_blocks[0] in cfg.reach(b, yes, cut_blocks=[moved.block]) and mid_blocks[0] not in cfg.reach(b, no, cut_blocks=[moved.block] + stepb)
    run.check("R3", "cursor-only-if-moved", ok, "the SDK recomputes the tick cursor from the price even when the step did not move the price", loc=b.loc(),
              detail="next price != current price => tick := sqrt_price_to_tick_index(next price)")
    # cursor / liquidity only when the step ended on the tick's price
    pv = prov_of(b, None, cut=True) if False else Prov(b, cut=True)
    reach_at = None
    for at in A.atoms(b, cut=True):
        c = at.cond()
        rhs = strip(c[2]) if c else None
        if rhs is not None and rhs[0] == "var" and len(pv.var_defs(rhs[2])) == 1:
            rhs = strip(pv.var_defs(rhs[2])[0][2])
        if c and c[0] in ("Eq", "Ne") and mentions(c[1], lambda s: s[0] == "field" and s[2] == "next_sqrt_price") and \
                (is_call(rhs, "tick_index_to_sqrt_price") and mentions(rhs, lambda s: s[0] == "call" and s[1].endswith("_initialized_tick"))):
            reach_at = at
    liq = roles.get("liquidity")
    ok = reach_at is not None and liq is not None
    if ok:
        yes = reach_at.true_targets[0] if reach_at.cond()[0] == "Eq" else reach_at.false_targets[0]
        no = reach_at.false_targets[0] if reach_at.cond()[0] == "Eq" else reach_at.true_targets[0]
        ry = cfg.reach(b, yes, cut_blocks=[reach_at.block])
        rn = cfg.reach(b, no, cut_blocks=[reach_at.block])
        upd = [(blk, strip(t)) for blk, _, t in pv.var_defs(liq) if is_call(t, "get_next_liquidity")]
        ok = len(upd) == 1 and upd[0][0] in ry - rn
        if ok:
            c = upd[0][1]
            ok = strip(c[2][0])[0] == "var" and strip(c[2][0])[2] == liq and is_param(c[2][2], "a_to_b") and mentions(c[2][1], lambda s: s[0] == "call" and s[1].endswith("_initialized_tick"))
    run.check("R3", "crossing-only-at-tick", ok, "SDK applies get_next_liquidity(current, next tick, a_to_b) elsewhere than on `step.next_sqrt_price == next_tick_sqrt_price`", loc=b.loc(),
              detail="next price == tick price => liquidity := get_next_liquidity(liquidity, tick, a_to_b)")
    for name, edge, cmpop, stepper in (("next_initialized_tick", "end_index", "Gt", "get_next_initializable_tick_index"), ("prev_initialized_tick", "start_index", "Lt", "get_prev_initializable_tick_index")):
        sfn = K.need_fn("math::tick_array::TickArraySequence::<SIZE>::" + name)
        run.touch(sfn)
        pvs = Prov(sfn, cut=True)
        ats = A.atoms(sfn, cut=True)
        init = [at for at in ats if strip(at.term)[0] == "field" and strip(at.term)[2] == "initialized"]
        oob = [at for at in ats if at.cond() and at.cond()[0] == cmpop and strip(at.cond()[1])[0] == "var" and is_call(at.cond()[2], edge)]
        ok = len(init) == 1 and len(oob) == 1
        if ok:
            some_r, none_r = set(), set()
            for bi, bb in enumerate(sfn.blocks):
                if bb["t"]["k"] != "ret":
                    continue
                for l in leaves(pvs.local(0, bi, len(bb["s"]))):
                    pl = _ok_payload(l)
                    if pl is None or pl[0] != "tuple":
                        continue
                    first = strip(pl[1][0])
                    src = [d for d in pvs.defs.get(0, [])]
                    if first[0] == "agg" and first[2] == "Some":
                        some_r.add((sh(dict(first[3])["0"], 60), sh(pl[1][1], 30)))
                        ok = ok and mentions(first, lambda s: s[0] == "call" and s[1].endswith(">::tick")) and strip(pl[1][1])[0] == "var"
                    elif first[0] == "agg" and first[2] == "None":
                        none_r.add(sh(pl[1][1], 40))
                        ok = ok and is_call(pl[1][1], edge)
            ok = ok and len(some_r) == 1 and len(none_r) == 1
            # Some(..) is constructed only on the initialised side
            some_blocks = [bi for bi, bb in enumerate(sfn.blocks) for si_, st in enumerate(bb["s"]) if st["k"] == "=" and (st["rv"].get("agg") or {}).get("v") == "Some" and
                           mentions(pvs._rvalue(st["rv"], bi, si_, 0), lambda s: s[0] == "call" and s[1].endswith(">::tick"))]
            at = init[0]
            ok = ok and bool(some_blocks) and all(b_ in cfg.reach(sfn, at.true_targets[0], cut_blocks=[at.block]) and b_ not in cfg.reach(sfn, at.false_targets[0], cut_blocks=[at.block]) for b_ in some_blocks)
            steps = {callee_path(t).rsplit("::", 1)[-1] for _, t in sfn.calls() if "initializable_tick_index" in (callee_path(t) or "")}
            ok = ok and stepper in steps
        # what the search refuses: only a start past its own far edge (next: tick_index >= end_index; prev: tick_index < start_index).
        # The program's b_to_a search accepts a start up to one spacing below the first array (shifted range): a lower-bound test
        # added to `next` refuses states the program trades on
        ref = [at for at in A.atoms(sfn) if at.true_fail != at.false_fail and (at.true_codes | at.false_codes)]
        okr = len(ref) == 1
        if okr:
            from rules.common import decided
            dc = decided(ref[0], lambda t: is_param(t, "tick_index"), ("Ge", "Lt"))
            okr = dc is not None and is_call(dc[2], edge) and dc[0] == ("Ge" if name == "next_initialized_tick" else "Lt") and cfg.fail_only(sfn, dc[3][0])
        run.check("R3", "sequence-refusals@" + name, okr, "SDK %s refuses on %s; expected only `tick_index %s %s()`" % (name, [at.describe()[:60] for at in ref], ">=" if name == "next_initialized_tick" else "<", edge),
                  loc=sfn.loc(), detail="one refusal: tick_index %s %s()" % (">=" if name == "next_initialized_tick" else "<", edge))
        # inclusiveness: the a_to_b (prev) search examines the start tick itself first - the program's a_to_b search is inclusive, an
        # initialised tick at the current index must be crossed; the b_to_a (next) search steps before it looks
        lookups = [bi for bi, t in sfn.calls() if (callee_path(t) or "").endswith(">::tick") and not sfn.blocks[bi]["c"]]
        stepb = [bi for bi, t in sfn.calls() if (callee_path(t) or "").rsplit("::", 1)[-1] == stepper and not sfn.blocks[bi]["c"]]
        if len(lookups) == 1 and len(stepb) == 1:
            dom = cfg.dominates(sfn, stepb[0], lookups[0])
            want_dom = name == "next_initialized_tick"
            run.check("R3", "sequence-inclusive@" + name, dom == want_dom,
                      "SDK %s %s before its first lookup; the program's %s search is %s of the start tick" % (name, "steps" if dom else "does not step", "b_to_a" if want_dom else "a_to_b", "exclusive" if want_dom else "inclusive"),
                      loc=sfn.loc(), detail="first lookup %s the step" % ("after" if want_dom else "before"))
        else:
            run.missing("R3", "sequence-inclusive@" + name, "expected one tick lookup and one %s call, found %d / %d" % (stepper, len(lookups), len(stepb)), loc=sfn.loc())
        run.check("R3", "sequence@" + name, ok, "SDK %s must return Some(tick) only for an initialised tick and (None, %s()) when the search leaves the supplied arrays" % (name, edge), loc=sfn.loc(),
                  detail="initialized => (Some(tick), index); beyond the arrays => (None, %s)" % edge)
    g = K.need_fn(SW + "get_next_liquidity")
    run.touch(g)
    neg = [at for at in A.atoms(g) if at.cond() and at.cond()[0] in ("Lt", "Ge") and const_val(at.cond()[2]) == 0]
    # the same table written as one test: `a_to_b == (net < 0)` (liquidity grows exactly when direction flag and sign agree)
    fused = []
    for at in A.atoms(g):
        c = at.cond()
        if c and c[0] in ("Eq", "Ne"):
            for (x, y) in ((c[1], c[2]), (c[2], c[1])):
                y_ = strip(y)
                if is_param(x, "a_to_b") and y_[0] == "bin" and y_[1] in ("Lt", "Ge") and const_val(y_[3]) == 0:
                    fused.append((at, c[0] == "Eq", y_[1] == "Lt"))
    table = {}
    for ab in (True, False):
        for isneg in (True, False):
            asm = [(at, (at.cond()[0] == "Lt") == isneg) for at in neg]
            # fused atom holds iff (a_to_b == (net < 0)) [resp. !=, resp. written with >=]
            asm += [(at, ((ab == (isneg if is_lt else not isneg)) == is_eq)) for (at, is_eq, is_lt) in fused]
            pva = prov_assuming(g, asm, {"a_to_b": ab})
            ops = set()
            for r in _rets(g, pva, ok_only=False):
                if r[0] == "bin" and strip(r[2]) == ("param", "current_liquidity") and is_call(r[3], "unsigned_abs"):
                    ops.add(r[1].replace("WithOverflow", ""))
                else:
                    ops.add("?" + sh(r, 40))
            table[(ab, isneg)] = ops
    want = {(True, True): {"Add"}, (True, False): {"Sub"}, (False, True): {"Sub"}, (False, False): {"Add"}}
    run.check("R3", "crossing-sign-table", bool(neg or fused) and table == want, "SDK get_next_liquidity sign table is %s, expected a_to_b: net<0 => +|net| else -|net|; b_to_a: the reverse" %
              {k: sorted(v) for k, v in table.items()}, loc=g.loc(), detail="a_to_b subtracts liquidity_net, b_to_a adds it")
    lq = [strip(pv_) for pv_ in []]
    # liquidity_net of an absent (uninitialised / out of sequence) tick is zero
    pvg = prov_of(g)
    netdef = [s for r in _rets(g, pvg, ok_only=False) for s in subterms(r) if s[0] == "call" and s[1].endswith("unwrap_or")]
    ok = bool(netdef) and all(const_val(s[2][1]) == 0 for s in netdef)
    if not netdef:
        # the same default written as a match: the magnitude applied is |phi{0 | next_tick?.liquidity_net}|
        mags = [s for r in _rets(g, pvg, ok_only=False) for s in subterms(r) if s[0] == "call" and s[1].endswith("unsigned_abs")]
        alts = {(const_val(l) if const_val(l) is not None else ("net" if (strip(l)[0] == "field" and strip(l)[2] == "liquidity_net" and mentions(l, lambda q: q[0] == "param" and q[1] == "next_tick")) else sh(l, 30)))
                for m_ in mags for l in leaves(strip(m_[2][0]))}
        ok = bool(mags) and alts == {0, "net"}
    run.check("R3", "absent-tick-zero", ok, "SDK get_next_liquidity does not treat a missing tick as liquidity_net = 0", loc=g.loc(), detail="next_tick.map(net).unwrap_or(0)")
    # per-mode amount updates
    for si in (True, False):
        ctx = {"specified_input": si}
        pvc = prov_of(b, ctx, cut=True)
        rem, cal = roles.get("remaining"), roles.get("calculated")

        def upd(local, opname):
            out = []
            for blk, _, t in pvc.var_defs(local):
                if pvc.flow.state_in[blk] is None:
                    continue
                fs = sorted(s[2] for s in subterms(t) if s[0] == "field" and s[2] in ("amount_in", "amount_out", "fee_amount"))
                ops = sorted({s[1].rsplit("::", 1)[-1] for s in subterms(t) if s[0] == "call" and s[1].rsplit("::", 1)[-1] in ("checked_sub", "checked_add")})
                if fs:
                    out.append((tuple(fs), tuple(ops)))
            return out
        r_, c_ = upd(rem, "checked_sub"), upd(cal, "checked_add")
        want_r = [(("amount_in", "fee_amount"), ("checked_sub",))] if si else [(("amount_out",), ("checked_sub",))]
        want_c = [(("amount_out",), ("checked_add",))] if si else [(("amount_in", "fee_amount"), ("checked_add",))]
        run.check("R3", "amount-updates[exact_in=%d]" % si, r_ == want_r and c_ == want_c, "SDK per-step bookkeeping in mode exact_in=%s: remaining %s, calculated %s; expected remaining -= %s, calculated += %s" %
                  (si, r_, c_, "in + fee" if si else "out", "out" if si else "in + fee"), loc=b.loc(), detail="remaining -= %s; calculated += %s" % ("in + fee" if si else "out", "out" if si else "in + fee"))
    pvx = Prov(b, cut=True)
    tf = roles.get("trade_fee")
    ds = [strip(t) for _, _, t in pvx.var_defs(tf)] if tf is not None else []
    ok = len(ds) == 2 and any(const_val(d) == 0 for d in ds) and any(d[0] == "bin" and d[1].startswith("Add") and strip(d[2])[0] == "var" and strip(d[2])[2] == tf and strip(d[3])[0] == "field" and strip(d[3])[2] == "fee_amount" for d in ds)
    run.check("R3", "trade-fee-sum", ok, "SDK trade_fee is not the running sum of the steps' fee_amount", loc=b.loc(), detail="trade_fee += step.fee_amount")
    cp = roles.get("price")
    ds = [strip(t) for _, _, t in pvx.var_defs(cp)] if cp is not None else []
    ok = len(ds) == 2 and any(d[0] == "field" and d[2] == "sqrt_price" for d in ds) and any(d[0] == "field" and d[2] == "next_sqrt_price" and mentions(d, lambda s: s[0] == "call" and s[1].endswith("compute_swap_step")) for d in ds)
    run.check("R3", "price-update", ok, "SDK current_sqrt_price is not whirlpool.sqrt_price then each step's next_sqrt_price", loc=b.loc(), detail="price := step.next_sqrt_price")
    cs = calls_to(b, ends("compute_swap_step"), ctx={}, cut=True)
    ok = len(cs) == 1
    if ok:
        aa = cs[0][2]
        isv = lambda t, n: strip(t)[0] == "var" and strip(t)[2] == roles.get(n)
        ok = isv(aa[0], "remaining") and is_call(aa[1], "get_total_fee_rate") and isv(aa[2], "liquidity") and isv(aa[3], "price") and \
            mentions(aa[4], lambda s: s[0] == "call" and s[1].endswith("get_bounded_sqrt_price_target")) and is_param(aa[5], "a_to_b") and is_param(aa[6], "specified_input")
    run.check("R3", "step-inputs", ok, "SDK does not call compute_swap_step(remaining, total fee rate, liquidity, price, bounded target, a_to_b, specified_input)", loc=b.loc(),
              detail="(remaining, get_total_fee_rate(), liquidity, price, bounded target.0, a_to_b, specified_input)")
    nw = calls_to(b, ends("FeeRateManager::new"), ctx={}, cut=True)
    ok = len(nw) == 1 and is_param(nw[0][2][0], "a_to_b") and arg_name(nw[0][2][1]) == "tick_current_index" and is_param(nw[0][2][2], "timestamp") and arg_name(nw[0][2][3]) == "fee_rate" and \
        is_param(strip(nw[0][2][4])[1] if strip(nw[0][2][4])[0] == "ref" else nw[0][2][4], "adaptive_fee_info")
    run.check("R3", "manager-inputs", ok, "SDK FeeRateManager::new is not given (a_to_b, pool tick, timestamp, pool fee_rate, adaptive_fee_info)", loc=b.loc(), detail="new(a_to_b, tick, now, fee_rate, info)")
    for ctx in preach.contexts(["specified_input", "a_to_b"]):
        si, ab = ctx["specified_input"], ctx["a_to_b"]
        pvc = prov_of(b, ctx, cut=True)
        q = [_ok_payload(r) for r in _rets(b, pvc)]
        q = [x for x in q if x is not None and x[0] == "agg"]
        ok = len(q) == 1
        if ok:
            f = dict(q[0][3])

            def kind(t):
                t = strip(t)
                if t[0] == "var" and t[2] == roles.get("calculated"):
                    return "calculated"
                if t[0] == "bin" and t[1].startswith("Sub") and is_param(t[2], "token_amount") and strip(t[3])[0] == "var" and strip(t[3])[2] == roles.get("remaining"):
                    return "swapped"
                if t[0] == "var":
                    ds = pvc.var_defs(t[2])
                    ks = {kind(d[2]) for d in ds if pvc.flow.state_in[d[0]] is not None}
                    return ks.pop() if len(ks) == 1 else "?"
                return "?" + sh(t, 30)
            got = (kind(f["token_a"]), kind(f["token_b"]))
            want = ("swapped", "calculated") if ab == si else ("calculated", "swapped")
            ok = got == want
        run.check("R3", "result-sides[exact_in=%d,a_to_b=%d]" % (si, ab), ok, "SDK (token_a, token_b) in context exact_in=%s a_to_b=%s is %s" % (si, ab, got if q else None), loc=b.loc(),
                  detail="(token_a, token_b) = %s" % str(("swapped", "calculated") if ab == si else ("calculated", "swapped")))


def R5_quotes(run):
    run.title("R5", "SDK quotes: exact-in quote runs compute_swap(a_to_b = specified_token_a, exact-in) and puts min-slippage on the output; exact-out runs (a_to_b = !specified_token_a, "
                    "exact-out) and puts max-slippage on the input; min = floor(x * (D - s) / D), max = ceil(x * (D + s) / D); liquidity estimates use the three-case table (below: A over "
                    "[lower, upper]; inside: A over [current, upper] and B over [lower, current]; above: B over [lower, upper]); increases round up and take the max, decreases round down "
                    "and take the min")
    K = run.sdk
    for name, flag, sign in (("try_get_min_amount_with_slippage_tolerance", 0, "Sub"), ("try_get_max_amount_with_slippage_tolerance", 1, "Add")):
        g = K.need_fn(TK + name)
        run.touch(g)
        cs = calls_to(g, ends("try_mul_div"))
        ok = len(cs) == 1
        if ok:
            a = cs[0][2]
            pr = strip(a[1])
            ok = is_param(a[0], "amount") and const_val(a[3]) == flag and const_val(a[2]) == 10000 and pr[0] == "bin" and pr[1].startswith(sign) and const_val(pr[2]) == 10000 and is_param(pr[3], "slippage_tolerance_bps")
        run.check("R5", name, ok, "SDK %s is not try_mul_div(amount, BPS %s slippage, BPS, round_up=%s)" % (name, "-" if sign == "Sub" else "+", bool(flag)), loc=g.loc(),
                  detail="%s(amount * (10000 %s s) / 10000)" % ("ceil" if flag else "floor", "-" if sign == "Sub" else "+"))
        fails = [at for at in A.atoms(g) if at.true_fail and "INVALID_SLIPPAGE_TOLERANCE" in at.true_codes]
        ok = len(fails) == 1 and fails[0].cond()[0] == "Gt" and const_val(fails[0].cond()[2]) == 10000
        run.check("R5", name + "-range", ok, "SDK %s does not reject slippage above 100%%" % name, loc=g.loc(), detail="s > 10000 => error")
    for name, exact_in in (("swap_quote_by_input_token", True), ("swap_quote_by_output_token", False)):
        g = K.need_fn(SW + name)
        run.touch(g)
        cs = calls_to(g, ends("compute_swap"))
        ok = len(cs) == 1
        if ok:
            a = cs[0][2]
            dirn = strip(a[4])
            dir_ok = is_param(dirn, "specified_token_a") if exact_in else (dirn[0] == "un" and dirn[1] == "Not" and is_param(dirn[2], "specified_token_a"))
            ok = dir_ok and const_val(a[5]) == (1 if exact_in else 0) and const_val(a[1]) == 0 and is_param(a[2], "whirlpool") and is_param(a[6], "timestamp")
        run.check("R5", name + "-engine", ok, "SDK %s does not run compute_swap(amount, no limit, pool, ticks, a_to_b = %sspecified_token_a, specified_input = %s, timestamp, oracle)" %
                  (name, "" if exact_in else "!", exact_in), loc=g.loc(), detail="a_to_b = %sspecified_token_a, exact_%s" % ("" if exact_in else "!", "in" if exact_in else "out"))
        pv = prov_of(g)
        q = [_ok_payload(r) for r in _rets(g, pv)]
        q = [x for x in q if x is not None and x[0] == "agg"]
        ok = len(q) == 1
        if ok:
            f = dict(q[0][3])
            if exact_in:
                m = strip(f["token_min_out"])
                m = m[1] if m[0] == "q" else m
                ok = is_call(m, "try_get_min_amount_with_slippage_tolerance") and strip(m[2][0]) == strip(f["token_est_out"]) and is_param(m[2][1], "slippage_tolerance_bps")
            else:
                m = strip(f["token_max_in"])
                m = m[1] if m[0] == "q" else m
                ok = is_call(m, "try_get_max_amount_with_slippage_tolerance") and strip(m[2][0]) == strip(f["token_est_in"]) and is_param(m[2][1], "slippage_tolerance_bps")
        run.check("R5", name + "-slippage", ok, "SDK %s does not put the slippage on the safe side (%s)" % (name, "token_min_out = min(token_est_out)" if exact_in else "token_max_in = max(token_est_in)"),
                  loc=g.loc(), detail="min on the estimated output" if exact_in else "max on the estimated input")
        # which token is the estimated side
        for sa in (True, False):
            pvc = prov_of(g, {"specified_token_a": sa})
            q = [_ok_payload(r) for r in _rets(g, pvc)]
            q = [x for x in q if x is not None and x[0] == "agg"]
            ok = len(q) == 1
            if ok:
                f = dict(q[0][3])
                est = f["token_est_out"] if exact_in else f["token_est_in"]
                flds = {s[2] for s in subterms(est) if s[0] == "field" and s[2] in ("token_a", "token_b")}
                # exact-in on A: output is B; exact-out of A: input is B
                ok = flds == {"token_b" if sa else "token_a"}
            run.check("R5", "%s-side[specified_a=%d]" % (name, sa), ok, "SDK %s estimates the wrong token for specified_token_a=%s" % (name, sa), loc=g.loc(), detail="other side = token_%s" % ("b" if sa else "a"))
    # which mint's transfer fee goes with which amount: the caller's own amount is in the specified token, the computed amount in
    # the other one (for an exact-out quote the specified token is the *output*, so the roles of the two fees are not those of
    # `a_to_b`)
    for name in ("swap_quote_by_input_token", "swap_quote_by_output_token"):
        g = K.need_fn(SW + name)
        for sa in (True, False):
            pvc = prov_of(g, {"specified_token_a": sa})
            bad, seen = [], 0
            for bi, t in g.calls():
                last = (callee_path(t) or "").rsplit("::", 1)[-1]
                if last not in ("try_apply_transfer_fee", "try_reverse_apply_transfer_fee") or g.blocks[bi]["c"] or pvc.flow.state_in[bi] is None:
                    continue
                amt = pvc.operand(t["a"][0], bi, len(g.blocks[bi]["s"]))
                fee = pvc.operand(t["a"][1], bi, len(g.blocks[bi]["s"]))
                fees = {x[1] for l in leaves(fee) for x in subterms(l) if x[0] == "param" and x[1] in ("transfer_fee_a", "transfer_fee_b")}
                # the token an amount is in: a computed amount is swap_result.token_a / token_b; the caller's own amount is in the
                # specified token
                toks = {x[2][-1] for l in leaves(amt) for x in subterms(l) if x[0] == "field" and x[2] in ("token_a", "token_b") and mentions(x[1], lambda y: y[0] == "call" and y[1].endswith("compute_swap"))}
                if not toks and mentions(amt, lambda x: x[0] == "param" and x[1] in ("token_in", "token_out")):
                    toks = {"a" if sa else "b"}
                seen += 1
                if len(toks) != 1 or fees != {"transfer_fee_" + next(iter(toks))}:
                    bad.append("%s on an amount of token %s takes %s" % (last, sorted(toks), sorted(fees)))
            run.check("R5", "%s-transfer-fees[specified_a=%d]" % (name, sa), seen == 3 and not bad, "SDK %s (specified_token_a=%s): %s" % (name, sa, "; ".join(bad) or "%d transfer-fee applications, expected 3" % seen),
                      loc=g.loc(), detail="each of the 3 fee applications uses the fee of the token its amount is in")
    g = K.need_fn("quote::liquidity::try_get_token_estimates_from_liquidity")
    run.touch(g)
    arms = _enum_arms(g, K, lambda t: is_call(t, "position_status"))
    ok = arms is not None
    if ok:
        sw, amap = arms
        want = {"PriceBelowRange": ("A:lower,upper", "0"), "PriceInRange": ("A:current,upper", "B:lower,current"), "PriceAboveRange": ("0", "B:lower,upper"), "Invalid": ("0", "0")}
        got = {}

        def price(t):
            t = strip(t)
            if is_param(t, "current_sqrt_price"):
                return "current"
            if mentions(t, lambda s: s[0] == "param" and s[1] == "tick_lower_index") and mentions(t, lambda s: s[0] == "call" and s[1].endswith("tick_index_to_sqrt_price")):
                return "lower"
            if mentions(t, lambda s: s[0] == "param" and s[1] == "tick_upper_index") and mentions(t, lambda s: s[0] == "call" and s[1].endswith("tick_index_to_sqrt_price")):
                return "upper"
            return "?"

        def side(t):
            t = strip(t)
            if const_val(t) == 0:
                return "0"
            t = t[1] if t[0] == "q" else t
            for nm, tag in (("try_get_token_a_from_liquidity", "A"), ("try_get_token_b_from_liquidity", "B")):
                if is_call(t, nm):
                    if not (is_param(t[2][0], "liquidity_delta") and is_param(t[2][3], "round_up")):
                        return "?args"
                    return "%s:%s,%s" % (tag, price(t[2][1]), price(t[2][2]))
            return "?" + sh(t, 30)
        for v, tgt in amap.items():
            pva = _arm_prov(g, sw, tgt)
            rs = [_ok_payload(r) for r in _rets(g, pva)]
            rs = [r for r in rs if r is not None and r[0] == "tuple"]
            tuples = {(side(r[1][0]), side(r[1][1])) for r in rs} - {("0", "0")} if v != "Invalid" else {(side(r[1][0]), side(r[1][1])) for r in rs}
            got[v] = tuples
        ok = all(got.get(v) == {w} for v, w in want.items())
        run.check("R5", "liquidity-case-table", ok, "SDK token estimates per position status are %s, expected %s" % ({k: sorted(v) for k, v in got.items()}, want), loc=g.loc(),
                  detail="below: A[lower,upper]; inside: A[current,upper] + B[lower,current]; above: B[lower,upper]")
    else:
        run.missing("R5", "liquidity-case-table", "no match on position_status(..) in try_get_token_estimates_from_liquidity", loc=g.loc())
    ps = K.need_fn("math::position::position_status")
    run.touch(ps)
    pv = prov_of(ps)
    table = {}
    for at in A.atoms(ps):
        c = at.cond()
        if not c or c[0] not in ("Le", "Ge", "Lt", "Gt"):
            continue
        which = "lower" if mentions(c[2], lambda s: s[0] == "field" and s[2] == "tick_lower_index") else ("upper" if mentions(c[2], lambda s: s[0] == "field" and s[2] == "tick_upper_index") else None)
        if which and is_param(c[1], "current_sqrt_price"):
            table[which] = c[0]
    # strictness at the bounds is immaterial for amounts: at price == bound the in-range formulas give the one-sided amounts
    run.check("R5", "position-status", table.get("lower") in ("Le", "Lt") and table.get("upper") in ("Ge", "Gt") and len(table) == 2, "SDK position_status compares the price with the bounds as %s, expected price <= lower => below, price >= upper => above" % table,
              loc=ps.loc(), detail="price <= price(lower) => below; price >= price(upper) => above")
    for name, ru, slip, fee in (("increase_liquidity_quote", 1, "try_get_max_amount_with_slippage_tolerance", "try_reverse_apply_transfer_fee"),
                                ("decrease_liquidity_quote", 0, "try_get_min_amount_with_slippage_tolerance", "try_apply_transfer_fee")):
        g = K.need_fn("quote::liquidity::" + name)
        run.touch(g)
        cs = calls_to(g, ends("try_get_token_estimates_from_liquidity"))
        ok = len(cs) == 1 and const_val(cs[0][2][4]) == ru
        run.check("R5", name + "-rounding", ok, "SDK %s estimates with round_up = %s" % (name, [const_val(c[2][4]) for c in cs]), loc=g.loc(), detail="round_up = %s" % bool(ru))
        slips = {callee_path(t).rsplit("::", 1)[-1] for _, t in g.calls() if "slippage" in (callee_path(t) or "")}
        fees = {callee_path(t).rsplit("::", 1)[-1] for _, t in g.calls() if "transfer_fee" in (callee_path(t) or "") and "unwrap" not in (callee_path(t) or "")}
        run.check("R5", name + "-safe-side", slips == {slip} and fees == {fee}, "SDK %s uses %s / %s, expected %s / %s" % (name, sorted(slips), sorted(fees), slip, fee), loc=g.loc(),
                  detail="%s, %s" % (slip.replace("try_get_", "").replace("_amount_with_slippage_tolerance", ""), fee.replace("try_", "")))


def R6_cross_checks(run):
    run.title("R6", 'the program side the SDK is compared with is itself the same on both packagings: the token-delta case table and rounding of both implementations (C08.R1 instances)')
    from rules.common import RuleProxy
    from rules import C08
    C08.R1_case_split(RuleProxy(run, 'R6'))


def R3b_grid_steppers(run):
    run.title("R3b", "the SDK's grid steppers floor towards minus infinity, as the program's tick-array search does for negative ticks: "
                     "next = t - rem_euclid(t, s) + s; prev = t - s on the grid, t - rem_euclid(t, s) off it; array start = div_euclid(div_euclid(t, s), 88) * s * 88 "
                     "(a truncating % or / is one spacing / one array off for negative unaligned indexes)")
    from analysis.poly import poly, show_poly
    K = run.sdk

    def atom(t):
        t = strip(t)
        if t[0] == "param":
            return {"tick_index": "t", "tick_spacing": "s"}.get(t[1], t[1])
        if t[0] == "call" and t[1].rsplit("::", 1)[-1] in ("rem_euclid", "div_euclid") and len(t[2]) == 2:
            inner = poly(t[2][0], atom)
            return "%s(%s, %s)" % (t[1].rsplit("::", 1)[-1], show_poly(inner), show_poly(poly(t[2][1], atom)))
        return show(t, True)

    def rets(fn):
        pv = prov_of(fn)
        out = set()
        for bi, bb in enumerate(fn.blocks):
            if bb["t"]["k"] == "ret":
                for l in leaves(pv.local(0, bi, len(bb["s"]))):
                    out.add(show_poly(poly(l, atom)))
        return out
    R = "rem_euclid(t, s)"
    table = (("get_next_initializable_tick_index", {show_poly({("t",): 1, (R,): -1, ("s",): 1})}),
             ("get_prev_initializable_tick_index", {show_poly({("t",): 1, ("s",): -1}), show_poly({("t",): 1, (R,): -1})}),
             ("get_tick_array_start_tick_index", {show_poly({tuple(sorted(["div_euclid(div_euclid(t, s), 88)", "s"])): 88})}))
    for name, want in table:
        fn = K.need_fn("math::tick::" + name)
        run.touch(fn)
        got = rets(fn)
        run.check("R3b", "formula@" + name, got == want, "SDK %s returns %s, expected %s" % (name, sorted(got), sorted(want)), loc=fn.loc(), detail=" | ".join(sorted(want)))
    p = K.need_fn("math::tick::get_prev_initializable_tick_index")
    on_grid = [at for at in A.atoms(p) if at.cond() and at.cond()[0] in ("Eq", "Ne") and const_val(at.cond()[2]) == 0 and is_call(at.cond()[1], "rem_euclid")]
    run.check("R3b", "prev-on-grid-test", len(on_grid) == 1, "SDK get_prev_initializable_tick_index no longer tests rem_euclid(t, s) == 0 to step a whole spacing from a grid tick", loc=p.loc(),
              detail="rem_euclid(t, s) == 0 => t - s")


def R3c_sequence_lookup(run):
    run.title("R3c", "the SDK's tick lookup serves exactly the ticks of the supplied arrays: tick(i) refuses i outside [start_index, end_index] and i off the grid; the array is "
                     "(i - first start) / (88 * spacing) and the slot (i - that array's start) / spacing; start_index = max(first start, MIN_TICK), "
                     "end_index = min(last present array's start + 88 * spacing - 1, MAX_TICK)")
    from analysis.poly import poly, show_poly
    K = run.sdk
    pre = "math::tick_array::TickArraySequence::<SIZE>::"
    fn = K.need_fn(pre + "tick")
    run.touch(fn)
    pv = prov_of(fn)
    conds = set()
    for at in A.atoms(fn):
        c = at.cond()
        if not c or not at.true_fail:
            continue
        codes = at.true_codes
        if is_param(c[1], "tick_index") and c[0] in ("Lt", "Gt") and strip(c[2])[0] == "call":
            conds.add((c[0], strip(c[2])[1].rsplit("::", 1)[-1], ",".join(sorted(codes))))
        l_ = strip(c[1])
        if c[0] == "Ne" and const_val(c[2]) == 0 and l_[0] == "bin" and l_[1] == "Rem" and is_param(l_[2], "tick_index") and is_field(strip(l_[3]), "tick_spacing"):
            conds.add(("off-grid", "", ",".join(sorted(codes))))
    want = {("Lt", "start_index", "TICK_INDEX_OUT_OF_BOUNDS"), ("Gt", "end_index", "TICK_INDEX_OUT_OF_BOUNDS"), ("off-grid", "", "INVALID_TICK_INDEX")}
    run.check("R3c", "lookup-refusals", conds == want, "SDK tick() refuses %s, expected %s" % (sorted(conds), sorted(want)), loc=fn.loc(), detail="i < start, i > end => out of bounds; i % spacing != 0 => invalid")

    def atom(t):
        t = strip(t)
        if t[0] == "param" and t[1] == "tick_index":
            return "i"
        if is_field(t, "tick_spacing"):
            return "s"
        if t[0] == "call" and t[1].endswith("tick_array::start_tick_index") and len(t[2]) == 1:
            ix = strip(t[2][0])
            if ix[0] == "index" and is_field(strip(ix[1]), "tick_arrays"):
                return "start[%s]" % ("0" if const_val(ix[2]) == 0 else "k")
        return show(t, True)
    ok = False
    found = "?"
    for bi, bb in enumerate(fn.blocks):
        if bb["t"]["k"] != "ret":
            continue
        # (the private `ticks(&Option<TickArrayFacade>)` selector is read spliced in: a present array gives its ticks, a missing one
        # the empty slice, whose indexing panics)
        pays = []
        for l in leaves(pv.local(0, bi, len(bb["s"]))):
            p_ = _ok_payload(l)
            if p_ is not None:
                pays += [strip(x) for x in leaves(p_)]
        for p_ in pays:
            if p_[0] != "index":
                found = "a value that is no slot of an array: " + show(p_)[:80]
                ok = False
                break
            slot, arr = strip(p_[2]), strip(p_[1])
            if arr[0] == "array" and not arr[1]:
                continue    # the missing-array arm
            src = arr[1] if (arr[0] == "field" and arr[2] == "ticks") else None
            while src is not None and src[0] in ("q", "cast", "payload"):
                src = src[1]
            if not (slot[0] == "bin" and slot[1] == "Div" and src is not None and src[0] == "index" and is_field(strip(src[1]), "tick_arrays")):
                found = "slot %s of %s" % (show(slot)[:60], show(arr)[:60])
                ok = False
                break
            ai = strip(src[2])
            if not (ai[0] == "bin" and ai[1] == "Div"):
                continue
            num_a, den_a = poly(ai[2], atom), poly(ai[3], atom)
            num_s, den_s = poly(slot[2], atom), poly(slot[3], atom)
            found = "array (%s)/(%s), slot (%s)/(%s)" % (show_poly(num_a), show_poly(den_a), show_poly(num_s), show_poly(den_s))
            ok = num_a == {("i",): 1, ("start[0]",): -1} and den_a == {("s",): 88} and num_s == {("i",): 1, ("start[k]",): -1} and den_s == {("s",): 1}
            # ... and the array whose start is subtracted is the array the tick is read from
            st_ix = [strip(x[2][0])[2] for x in subterms(slot[2]) if x[0] == "call" and x[1].endswith("tick_array::start_tick_index") and strip(x[2][0])[0] == "index"
                     and const_val(strip(x[2][0])[2]) != 0]
            ok = ok and len(st_ix) == 1 and strip(st_ix[0]) == ai
    run.check("R3c", "lookup-formula", ok, "SDK tick() reads %s" % found, loc=fn.loc(), detail="arrays[(i - start[0]) / (88 s)].ticks[(i - start[k]) / s]")
    g = K.need_fn(pre + "start_index")
    run.touch(g)
    pg = prov_of(g)
    r = [strip(l) for bi, bb in enumerate(g.blocks) if bb["t"]["k"] == "ret" for l in leaves(pg.local(0, bi, len(bb["s"])))]
    ok = len(r) == 1 and r[0][0] == "call" and r[0][1].endswith("::max") and {atom(x) if const_val(x) is None else const_val(x) for x in r[0][2]} == {"start[0]", -443636}
    run.check("R3c", "start-index", ok, "SDK start_index is %s, expected max(first array's start, MIN_TICK_INDEX)" % [sh(x, 60) for x in r], loc=g.loc(), detail="max(start[0], -443636)")
    e = K.need_fn(pre + "end_index")
    run.touch(e)
    pe = prov_of(e)
    r = [strip(l) for bi, bb in enumerate(e.blocks) if bb["t"]["k"] == "ret" for l in leaves(pe.local(0, bi, len(bb["s"])))]
    ok = len(r) == 1 and r[0][0] == "call" and r[0][1].endswith("::min") and any(const_val(x) == 443636 for x in r[0][2])
    if ok:
        body = [x for x in r[0][2] if const_val(x) != 443636][0]

        def atom_e(t):
            t = strip(t)
            if is_field(t, "tick_spacing"):
                return "s"
            if t[0] != "bin" and mentions(t, lambda x: (x[0] in ("call", "fn")) and x[1].rsplit("::", 1)[-1] in ("start_index", "start_tick_index")):
                return "last"       # a start index chosen among the arrays (a scan with a running variable, or an iterator search)
            return show(t, True)
        ok = poly(body, atom_e) == {("last",): 1, ("s",): 88, (): -1}
        # the start carried into the formula is that of a present array: a start is compared with i32::MAX (in the scan, or in the
        # predicate of the iterator search)
        bodies = [e] + [K.fn(x[1]) for x in subterms(body) if x[0] == "closure" and K.fn(x[1]) is not None]
        tests = [at for f_ in bodies for at in A.atoms(f_) if at.cond() and at.cond()[0] in ("Ne", "Eq") and const_val(at.cond()[2]) == 2147483647]
        rets_ = [1 for f_ in bodies[1:] for bi, bb in enumerate(f_.blocks) if bb["t"]["k"] == "ret"
                 for l in leaves(prov_of(f_).local(0, bi, len(bb["s"]))) if strip(l)[0] == "bin" and strip(l)[1] in ("Ne", "Eq") and 2147483647 in (const_val(strip(l)[2]), const_val(strip(l)[3]))]
        ok = ok and len(tests) + len(rets_) == 1
    run.check("R3c", "end-index", ok, "SDK end_index is %s, expected min(last present array's start + 88 * spacing - 1, MAX_TICK_INDEX)" % [sh(x, 80) for x in r], loc=e.loc(),
              detail="min(last + 88 s - 1, 443636)")


def R5b_transfer_fee_arithmetic(run):
    run.title("R5b", "the SDK's Token-2022 transfer-fee arithmetic (what a quote adds to / takes off the amounts the pool sees): fee = min(ceil(amount * bps / 10_000), max_fee) "
                     "taken off; the inverse is ceil(amount * 10_000 / (10_000 - bps)) unless its fee reaches max_fee (then amount + max_fee), and amount + max_fee at 100 %")
    K = run.sdk
    cvk = K.const_value
    den = cvk("math::token::BPS_DENOMINATOR") if hasattr(K, "const_value") else None
    def is_den(t):
        return const_val(t) == 10000
    def fld(t, name):
        t = strip(t)
        return t[0] == "field" and t[2] == name and is_param(strip(t[1]), "transfer_fee")
    def ceil_of(t):
        """div_ceil(checked_mul(a, b)?, d) -> (a, b, d) through ok_or / ? / map_err / try_into"""
        for x in subterms(t):
            if x[0] == "call" and x[1].endswith("::div_ceil") and len(x[2]) == 2:
                mm = [y for y in subterms(x[2][0]) if y[0] == "call" and y[1].endswith("::checked_mul") and len(y[2]) == 2]
                if len(mm) == 1:
                    return (strip(mm[0][2][0]), strip(mm[0][2][1]), strip(x[2][1]))
        return None
    fn = K.need_fn("math::token::try_apply_transfer_fee")
    run.touch(fn)
    pv = prov_of(fn)
    outs = [_ok_payload(l) for bi, bb in enumerate(fn.blocks) if bb["t"]["k"] == "ret" for l in leaves(pv.local(0, bi, len(bb["s"])))]
    outs = [o for o in outs if o is not None]
    net = [o for o in outs if o[0] == "bin"]
    same = [o for o in outs if is_param(o, "amount")]
    ok = len(net) == 1 and len(same) >= 1 and len(outs) == len(net) + len(same)
    if ok:
        o = net[0]
        ok = o[1] in ("Sub", "SubWithOverflow") and is_param(o[2], "amount")
        m_ = strip(o[3])
        ok = ok and m_[0] == "call" and m_[1].endswith("::min") and len(m_[2]) == 2 and any(fld(x, "max_fee") for x in m_[2])
        if ok:
            c = ceil_of([x for x in m_[2] if not fld(x, "max_fee")][0])
            ok = c is not None and {("amount" if is_param(c[0], "amount") else "bps" if fld(c[0], "fee_bps") else "?"), ("amount" if is_param(c[1], "amount") else "bps" if fld(c[1], "fee_bps") else "?")} == {"amount", "bps"} and is_den(c[2])
    run.check("R5b", "apply", ok, "SDK try_apply_transfer_fee returns %s, expected amount - min(ceil(amount * fee_bps / 10_000), max_fee) (or amount unchanged)" % [sh(o, 100) for o in outs], loc=fn.loc(),
              detail="amount - min(ceil(amount * bps / 10000), max_fee)")
    conds = {(at.cond()[0], "bps" if fld(at.cond()[1], "fee_bps") else "amount" if is_param(at.cond()[1], "amount") else "?", const_val(at.cond()[2])) for at in A.atoms(fn) if at.cond()}
    run.check("R5b", "apply-cases", conds == {("Gt", "bps", 10000), ("Eq", "bps", 0), ("Eq", "amount", 0)}, "SDK try_apply_transfer_fee distinguishes %s" % sorted(conds), loc=fn.loc(),
              detail="bps > 10000 => error; bps == 0 or amount == 0 => unchanged")
    g = K.need_fn("math::token::try_reverse_apply_transfer_fee")
    run.touch(g)
    # (>= or >: at fee == max_fee both arms give amount + max_fee)
    cap = [at for at in A.atoms(g) if at.cond() and at.cond()[0] in ("Ge", "Lt", "Gt", "Le") and fld(strip(at.cond()[2]), "max_fee")]
    ok = len(cap) == 1
    why = "no test of the fee against max_fee"
    if ok:
        at = cap[0]
        fee = strip(at.cond()[1])
        sub = [x for x in subterms(fee) if x[0] == "call" and x[1].endswith("::checked_sub") and len(x[2]) == 2]
        ok = len(sub) == 1 and is_param(strip(sub[0][2][1]), "amount")
        c = ceil_of(sub[0][2][0]) if ok else None
        d_ = strip(c[2]) if c else None
        kind_ = lambda x: "amount" if is_param(x, "amount") else "den" if is_den(x) else "?"
        ok = ok and c is not None and {kind_(c[0]), kind_(c[1])} == {"amount", "den"} and \
            d_[0] == "bin" and d_[1].startswith("Sub") and is_den(d_[2]) and fld(d_[3], "fee_bps")
        why = "the fee compared with max_fee is %s" % sh(fee, 120)
        if ok:
            ge_ = at.cond()[0] in ("Ge", "Gt")
            pc, pp = prov_assuming(g, [(at, ge_)]), prov_assuming(g, [(at, not ge_)])
            def rets(pv_):
                return [strip(l) for bi, bb in enumerate(g.blocks) if bb["t"]["k"] == "ret" and pv_.flow.state_in[bi] is not None for l in leaves(pv_.local(0, bi, len(bb["s"])))
                        if not (strip(l)[0] == "call" and "from_residual" in strip(l)[1]) and not (strip(l)[0] == "agg")]
            rc, rp = rets(pc), rets(pp)
            okc = any(x[0] == "call" and x[1].endswith("ok_or") and is_call(x[2][0], "checked_add") and is_param(strip(x[2][0])[2][0], "amount") and fld(strip(x[2][0])[2][1], "max_fee") for x in rc)
            okp = any(ceil_of(x) is not None and not any(y[0] == "call" and y[1].endswith("checked_add") for y in subterms(x)) for x in rp)
            ok = okc and okp
            why = "capped side returns %s, other side %s" % ([sh(x, 60) for x in rc], [sh(x, 60) for x in rp])
    run.check("R5b", "reverse", ok, "SDK try_reverse_apply_transfer_fee: %s" % why, loc=g.loc(),
              detail="pre = ceil(amount * 10000 / (10000 - bps)); pre - amount >= max_fee => amount + max_fee else pre")
    conds = {(at.cond()[0], "bps" if fld(at.cond()[1], "fee_bps") else "amount" if is_param(at.cond()[1], "amount") else "?", const_val(at.cond()[2])) for at in A.atoms(g) if at.cond() and at not in cap}
    run.check("R5b", "reverse-cases", conds == {("Gt", "bps", 10000), ("Eq", "bps", 0), ("Eq", "amount", 0), ("Eq", "bps", 10000)}, "SDK try_reverse_apply_transfer_fee distinguishes %s" % sorted(conds),
              loc=g.loc(), detail="bps > 10000 => error; bps == 0 => unchanged; amount == 0 => 0; bps == 10000 => amount + max_fee")


RULES = [R1_constants, R2_step, R2b_rounding_primitives, R3_loop, R3b_grid_steppers, R3c_sequence_lookup, R4_fee_manager_ports, R5_quotes, R5b_transfer_fee_arithmetic, R6_cross_checks]
