"""C20 The Rust core SDK reproduces the program's swap / tick / liquidity results.

The SDK (rust-sdk/core, compiled in place through the sdkview harness with a signature-only
stand-in for the `ethnum` crate) is analysed with the same extractor as the program.
Decided: the SDK's published constants, both 19-rung tick ladders, the inverse's constants and
final choice are literally the program's; the SDK's FeeRateManager, AdaptiveFeeVariables and
integer-division helpers are guard-for-guard, call-for-call and store-for-store ports of the
program's; the SDK swap step has the program's rounding-polarity table and next-price
dispatch, applies the fee with floor and reverses it with ceil, and keeps the remainder as fee
on a partial exact-in step; its rounding primitives add one only when rounding up and only
behind a remainder test; its swap loop validates the limit, moves the tick cursor, applies
liquidity_net with the program's sign table and assigns (token_a, token_b) as the program
does; liquidity quotes use the program's three-case table with round-up for deposits and
round-down for withdrawals and put slippage on the safe side.
Not decided: numeric equality of the two arithmetic formulations (U256 vs U256Muldiv), "never
fails where the program succeeds", the WASM / TypeScript packaging."""
import re
from analysis import cfg, atoms as A, preach, siblings as S
from analysis.ir import callee_path, AnchorMissing
from analysis.prov import Prov, prov_of, prov_assuming, strip, leaves, subterms, show
from analysis.match import is_param, is_field, is_call, const_val, sh, mentions
from rules.common import calls_to, ends, arg_name
from rules import C09

NEEDS_SDK = True

NORM_P = dict(rename={"sqrt_price_from_tick_index": "tick_index_to_sqrt_price", "tick_index_from_sqrt_price": "sqrt_price_to_tick_index"})
NORM_S = dict()

ERR_MAP = {"InvalidTimestamp": "INVALID_TIMESTAMP"}

CONST_PAIRS = [
    ("math::tick_math::MAX_SQRT_PRICE_X64", "constants::swap::MAX_SQRT_PRICE"),
    ("math::tick_math::MIN_SQRT_PRICE_X64", "constants::swap::MIN_SQRT_PRICE"),
    ("state::tick::MAX_TICK_INDEX", "constants::tick::MAX_TICK_INDEX"),
    ("state::tick::MIN_TICK_INDEX", "constants::tick::MIN_TICK_INDEX"),
    ("state::tick_array::TICK_ARRAY_SIZE", "constants::tick::TICK_ARRAY_SIZE"),
    ("math::tick_math::FULL_RANGE_ONLY_TICK_SPACING_THRESHOLD", "constants::tick::FULL_RANGE_ONLY_TICK_SPACING_THRESHOLD"),
    ("math::token_math::FEE_RATE_MUL_VALUE", "constants::swap::FEE_RATE_DENOMINATOR"),
    ("manager::fee_rate_manager::FEE_RATE_HARD_LIMIT", "constants::adaptive_fee::FEE_RATE_HARD_LIMIT"),
    ("state::oracle::ADAPTIVE_FEE_CONTROL_FACTOR_DENOMINATOR", "constants::adaptive_fee::ADAPTIVE_FEE_CONTROL_FACTOR_DENOMINATOR"),
    ("state::oracle::VOLATILITY_ACCUMULATOR_SCALE_FACTOR", "constants::adaptive_fee::VOLATILITY_ACCUMULATOR_SCALE_FACTOR"),
    ("state::oracle::REDUCTION_FACTOR_DENOMINATOR", "constants::adaptive_fee::REDUCTION_FACTOR_DENOMINATOR"),
    ("state::oracle::MAX_REFERENCE_AGE", "constants::adaptive_fee::MAX_REFERENCE_AGE"),
    ("state::whirlpool::NUM_REWARDS", "constants::pool::NUM_REWARDS"),
    ("state::position_bundle::POSITION_BUNDLE_SIZE", "constants::bundle::POSITION_BUNDLE_SIZE"),
    ("math::tick_math::LOG_B_2_X32", "math::tick::LOG_B_2_X32"),
    ("math::tick_math::BIT_PRECISION", "math::tick::BIT_PRECISION"),
    ("math::tick_math::LOG_B_P_ERR_MARGIN_LOWER_X64", "math::tick::LOG_B_P_ERR_MARGIN_LOWER_X64"),
    ("math::tick_math::LOG_B_P_ERR_MARGIN_UPPER_X64", "math::tick::LOG_B_P_ERR_MARGIN_UPPER_X64"),
    ("anchor_spl::token_2022::spl_token_2022::extension::transfer_fee::MAX_FEE_BASIS_POINTS", "constants::token::BPS_DENOMINATOR"),
]


def R1_constants(run):
    run.title("R1", "every constant the SDK shares with the program has the program's value (19 scalars), both tick ladders have the program's 2 x 20 literals, masks, "
                    "step primitive and final shift, and the SDK's inverse has the program's constants, margins and final choice")
    P, K = run.facts, run.sdk
    n = 0
    for pp, sp in CONST_PAIRS:
        pv, sv = P.const_value(pp), K.const_value(sp)
        n += 1
        run.check("R1", "const@" + sp.rsplit("::", 1)[-1], pv is not None and pv == sv, "SDK %s = %s but the program's %s = %s" % (sp, sv, pp, pv), detail="%s on both sides" % pv)
    run.floor("R1", "shared constants", n, 19)
    lad = {}
    for side, facts, tm, tag in (("program", P, "math::tick_math::", ""), ("sdk", K, "math::tick::", "sdk:")):
        rule = "R1"

        class Quiet:
            """Forward to run, but the program's own ladder shape is C09's business: only extraction failures matter here."""
            def __init__(self, run, silent):
                self._r, self._s = run, silent

            def __getattr__(self, k):
                return getattr(self._r, k)

            def ok(self, *a, **kw):
                if not self._s:
                    return self._r.ok(*a, **kw)

            def check(self, rule, inst, cond, msg, **kw):
                if cond and self._s:
                    return None
                return self._r.check(rule, inst, cond, msg, **kw)
        q = Quiet(run, side == "program")
        pos = C09._ladder(q, "get_sqrt_price_positive_tick", C09._tick_is_param, facts=facts, tm=tm, tag=tag)
        neg = C09._ladder(q, "get_sqrt_price_negative_tick", C09._tick_is_abs, facts=facts, tm=tm, tag=tag)
        lad[side] = (pos, neg)
    for i, name in enumerate(("positive", "negative")):
        a, b = lad["program"][i], lad["sdk"][i]
        if a is None or b is None:
            run.missing("R1", "ladder@" + name, "could not extract the %s ladder on the %s side" % (name, "program" if a is None else "SDK"))
            continue
        diffs = []
        if a[0] != b[0]:
            diffs.append("start values %s vs %s" % (a[0], b[0]))
        for (m1, l1), (m2, l2) in zip(a[1], b[1]):
            if (m1, l1) != (m2, l2):
                diffs.append("bit %d: program %d, SDK %d" % (m1.bit_length() - 1, l1, l2))
        if a[2] != b[2]:
            diffs.append("final shift %s vs %s" % (a[2], b[2]))
        run.check("R1", "ladder@" + name, not diffs and len(a[1]) == len(b[1]) == 18, "the SDK's %s tick ladder differs from the program's: %s" % (name, "; ".join(diffs[:5])),
                  detail="2 start values + 18 rung literals + shift identical")
    # dispatch, mul_shift_96 and the inverse on the SDK side
    d = K.need_fn("math::tick::tick_index_to_sqrt_price")
    run.touch(d)
    ats = A.atoms(d)
    ok = len(ats) == 1 and ats[0].cond() and ats[0].cond()[0] in ("Ge", "Gt") and is_param(ats[0].cond()[1], "tick_index") and const_val(ats[0].cond()[2]) == 0
    if ok:
        tr = cfg.reach(d, ats[0].true_targets[0]) - cfg.reach(d, ats[0].false_targets[0])
        fr = cfg.reach(d, ats[0].false_targets[0]) - cfg.reach(d, ats[0].true_targets[0])
        tc = {callee_path(t) for b, t in d.calls() if b in tr and (callee_path(t) or "").startswith("math::tick::get_")}
        fc = {callee_path(t) for b, t in d.calls() if b in fr and (callee_path(t) or "").startswith("math::tick::get_")}
        ok = tc == {"math::tick::get_sqrt_price_positive_tick"} and fc == {"math::tick::get_sqrt_price_negative_tick"}
    run.check("R1", "sdk-dispatch", ok, "the SDK's tick_index_to_sqrt_price is not `tick >= 0 => positive ladder else negative ladder`", loc=d.loc(), detail="tick >= 0 => positive ladder")
    ms = K.need_fn("math::tick::mul_shift_96")
    run.touch(ms)
    pvm = prov_of(ms)
    r = [strip(pvm.local(0, bi, len(bb["s"]))) for bi, bb in enumerate(ms.blocks) if bb["t"]["k"] == "ret"]
    ok = len(r) == 1 and is_call(r[0], "as_u128")
    if ok:
        sh_ = strip(r[0][2][0])
        ok = sh_[0] == "call" and sh_[1].endswith("::shr") and const_val(sh_[2][1]) == 96
        if ok:
            m = strip(sh_[2][0])
            ok = m[0] == "call" and m[1].endswith("::mul") and sorted(sh(strip(x), 40) for x in m[2]) == sorted(["n0", "n1"]) or \
                (m[0] == "call" and m[1].endswith("::mul") and {_inner_param(x) for x in m[2]} == {"n0", "n1"})
    run.check("R1", "sdk-mul_shift_96", ok, "the SDK's mul_shift_96 is not (U256(n0) * U256(n1)) >> 96 truncated to 128 bits", loc=ms.loc(), detail="(n0 * n1) >> 96 over 256 bits")
    C09.check_inverse(run, K, "math::tick::", "sqrt_price_to_tick_index", "tick_index_to_sqrt_price", ("sqrt_price", "sqrt_price_x64"), rule="R1", tag="sdk-")


def _inner_param(t):
    t = strip(t)
    while t[0] == "call" and len(t[2]) == 1:
        t = strip(t[2][0])
    return t[1] if t[0] == "param" else None


def _camel_to_snake(m):
    s = m.group(1)
    return re.sub(r"(?<!^)(?=[A-Z])", "_", s).upper()


SUBS_P = [(r"^None$", "()"), (r"Result::Ok\{0: \(\)\}", "()"), (r"^Result::Ok\{0: (.*)\}$", r"\1"), (r"Result::Err\{0: ErrorCode::(\w+)\{\}\}", lambda m: "Result::Err{0: %s}" % _camel_to_snake(m)),
          (r"fail\((\w+)\)", lambda m: "fail(%s)" % _camel_to_snake(m)), (r"\?", "")]
SUBS_S = [(r"^None$", "()"), (r"Result::Ok\{0: \(\)\}", "()"), (r"^Result::Ok\{0: (.*)\}$", r"\1"), (r"\?", ""), (r"Facade\b", "")]

FRM_P = "manager::fee_rate_manager::FeeRateManager::"
FRM_S = "math::adaptive_fee::FeeRateManager::"
AFV_P = "state::oracle::AdaptiveFeeVariables::"
AFV_S = "math::adaptive_fee::<impl types::oracle::AdaptiveFeeVariablesFacade>::"
ALL = ("atoms", "calls", "returns", "stores")

PORTS = [dict(p=FRM_P + n, s=FRM_S + n) for n in ("new", "update_volatility_accumulator", "update_major_swap_timestamp", "advance_tick_group", "advance_tick_group_after_skip",
                                                  "get_total_fee_rate", "get_bounded_sqrt_price_target", "get_next_adaptive_fee_info", "compute_adaptive_fee_rate")] + \
        [dict(p=AFV_P + n, s=AFV_S + n) for n in ("update_volatility_accumulator", "update_reference", "update_major_swap_timestamp")] + \
        [dict(p="math::int_division_math::" + n, s="math::adaptive_fee::" + n) for n in ("floor_division", "ceil_division_u128", "ceil_division_u32")]


def _apply(summary, subs):
    out = {}
    for k, v in summary.items():
        s2 = set()
        for x in v:
            for (pat, rep) in subs:
                x = re.sub(pat, rep, x)
            s2.add(x)
        out[k] = s2
    return out


def compare_port(run, rule, pp, sp, keys=ALL, exempt=()):
    P, K = run.facts, run.sdk
    a, b = P.fn(pp), K.fn(sp)
    inst = "%s~sdk" % pp.split("::", 2)[-1]
    if a is None or b is None:
        run.missing(rule, inst, "port pair member not found: %s" % (pp if a is None else sp))
        return
    run.touch(a)
    sa = _apply(S.summary(a, S.Norm(**NORM_P)), SUBS_P)
    sb = _apply(S.summary(b, S.Norm(**NORM_S)), SUBS_S)
    d = S.diff(sa, sb, keys, exempt=list(exempt))
    if not d:
        run.ok(rule, inst, detail="%s equal after the name map (%s)" % ("/".join(keys), ", ".join("%d %s" % (len(sa[k]), k) for k in keys)))
        return
    parts = []
    for k, oa, ob in d:
        for x in oa:
            parts.append("%s only in the program: %s" % (k, x[:300]))
        for x in ob:
            parts.append("%s only in the SDK: %s" % (k, x[:300]))
    run.bad(rule, inst, "the SDK's port differs from the program's function:\n      " + "\n      ".join(parts[:8]), loc="%s | %s" % (a.loc(), b.loc()))


def R4_fee_manager_ports(run):
    run.title("R4", "FeeRateManager (9 methods), AdaptiveFeeVariables (3 update functions) and the 3 integer-division helpers: the SDK function has the same guard atoms with the same "
                    "outcomes, the same calls with the same argument terms, the same returned terms and the same field stores as the program's, after the name map")
    for pr in PORTS:
        compare_port(run, "R4", pr["p"], pr["s"], keys=pr.get("keys", ALL), exempt=pr.get("exempt", ()))
    run.floor("R4", "ported pairs", len(PORTS), 15)
    # is_major_swap: different 256-bit formulation; same shape: larger >= (smaller * price(threshold)) >> 64
    K = run.sdk
    fn = K.need_fn(AFV_S + "is_major_swap")
    pv = prov_of(fn)
    rets = [strip(x) for bi, bb in enumerate(fn.blocks) if bb["t"]["k"] == "ret" for x in leaves(pv.local(0, bi, len(bb["s"])))]
    ok = len(rets) == 1 and rets[0][0] == "bin" and rets[0][1] in ("Ge", "Le")
    if ok:
        big, tgt = (rets[0][2], rets[0][3]) if rets[0][1] == "Ge" else (rets[0][3], rets[0][2])
        shr = [s for s in subterms(tgt) if s[0] == "call" and s[1].endswith("::shr") and const_val(s[2][1]) == 64]
        ok = len(shr) == 1
        if ok:
            mul = strip(shr[0][2][0])
            ok = mul[0] == "call" and mul[1].endswith("::mul") and any(mentions(x, lambda s: s[0] == "call" and s[1].endswith("tick_index_to_sqrt_price")) for x in mul[2])
            price = [x for x in mul[2] if mentions(x, lambda s: s[0] == "call" and s[1].endswith("tick_index_to_sqrt_price"))]
            ok = ok and mentions(price[0], lambda s: s[0] == "param" and s[1] == "major_swap_threshold_ticks")
        # smaller / larger selection
        ats = [at for at in A.atoms(fn) if at.cond() and at.cond()[0] in ("Lt", "Gt", "Le", "Ge")]
        ok = ok and len(ats) == 1
        if ok:
            c = ats[0].cond()
            pre_lt_post = (c[0] in ("Lt", "Le")) == is_param(c[1], "pre_sqrt_price")
            pvt = prov_assuming(fn, [(ats[0], True)])
            rt = [strip(x) for bi, bb in enumerate(fn.blocks) if bb["t"]["k"] == "ret" and pvt.flow.state_in[bi] is not None for x in leaves(pvt.local(0, bi, len(bb["s"])))]
            bigt = rt[0][2] if rt[0][1] == "Ge" else rt[0][3]
            ok = len(rt) == 1 and is_param(bigt, "post_sqrt_price" if pre_lt_post else "pre_sqrt_price")
    run.check("R4", "is_major_swap~sdk", ok, "the SDK's is_major_swap is not `larger >= (smaller * price(threshold)) >> 64` with (smaller, larger) ordered", loc=fn.loc(),
              detail="larger >= (smaller * tick_index_to_sqrt_price(threshold)) >> 64")


RULES = [R1_constants, R4_fee_manager_ports]
