"""C07 A position earns its pro-rata share of fees only while the price is in range.

Decided: wrap-around discipline (cumulative growth values are only ever combined with
wrapping ops; no plain / checked / saturating arithmetic or ordering on them); the
outside-growth flip on crossing (same side, same reward index); the initialisation
convention of a newly used tick; inside = global - below - above with the three-way
selection per bound and the statement's terms in each arm; the position credit formula
(floor multiply, overflow -> 0, wrapping add, checkpoint := inside); the swap loop hands
the crossing the updated growth for the input token and the stored one for the other, in
the order step -> fee split -> running growth -> crossing within one iteration.
Also decided: each growth value reaches the parameter of its own side in both packagings (C05.R2 instances
re-decided here);
Not decided: the quantitative pro-rata bound."""
from analysis import cfg, atoms as A, preach, writes
from analysis.ir import callee_path, AnchorMissing
from analysis.prov import prov_of, prov_assuming, strip, leaves, subterms, show
from analysis.match import is_param, is_field, is_call, const_val, sh, mentions
from rules.common import calls_to, ends, arg_name
from rules import swaploop as SL

PM = "pinocchio::ported::manager_liquidity_manager::"
GROWTH = {"fee_growth_global_a", "fee_growth_global_b", "fee_growth_outside_a", "fee_growth_outside_b", "fee_growth_checkpoint_a",
          "fee_growth_checkpoint_b", "growth_global_x64", "reward_growths_outside", "growth_inside_checkpoint"}
SRC_CALLS = ("next_fee_growths_inside", "next_reward_growths_inside", "to_reward_growths", "next_whirlpool_reward_growth_global")
SCOPE = ("manager::", "state::", "pinocchio::ported::", "pinocchio::state::", "instructions::", "util::", "pinocchio::instructions::")


def tainted(t, depth=0):
    """Does the term carry a cumulative (wrap-around) growth value?"""
    if depth > 40:
        return False
    k = t[0]
    if k == "field":
        return t[2] in GROWTH or tainted(t[1], depth + 1)
    if k in ("param", "var"):
        return "growth" in t[1]
    if k == "call":
        last = t[1].rsplit("::", 1)[-1]
        if last.startswith("pino_"):
            last = last[5:]
        if last in GROWTH or last in SRC_CALLS:
            return True
        if last in ("wrapping_add", "wrapping_sub"):
            return any(tainted(a, depth + 1) for a in t[2])
        return False
    if k in ("q", "cast", "discr", "payload", "variant", "trybranch", "index"):
        return tainted(t[1], depth + 1)
    if k == "phi":
        return any(tainted(x, depth + 1) for x in t[1])
    if k in ("tuple", "array"):
        return any(tainted(x, depth + 1) for x in t[1])
    if k == "bin":
        return tainted(t[2], depth + 1) or tainted(t[3], depth + 1)
    return False


def wrap_discipline(run, rule, floor):
    facts = run.facts
    nwrap = 0
    sinks = []
    for f in facts.fn_list:
        if f.kind == "const" or f.trait or not f.path.startswith(SCOPE):
            continue
        pv = prov_of(f)
        for bi, bb in enumerate(f.blocks):
            if bb["c"]:
                continue
            for si, st in enumerate(bb["s"]):
                if st["k"] == "=" and st["rv"].get("bin") in ("Add", "Sub", "AddWithOverflow", "SubWithOverflow", "Lt", "Le", "Gt", "Ge", "AddUnchecked", "SubUnchecked"):
                    a = pv.operand(st["rv"]["a"], bi, si)
                    b = pv.operand(st["rv"]["b"], bi, si)
                    if tainted(a) or tainted(b):
                        sinks.append((f, st["l"], st["rv"]["bin"], a, b))
            t = bb["t"]
            if t["k"] == "call":
                p = callee_path(t) or ""
                last = p.rsplit("::", 1)[-1]
                if last in ("checked_add", "checked_sub", "saturating_add", "saturating_sub", "overflowing_add", "overflowing_sub",
                            "wrapping_add", "wrapping_sub", "lt", "le", "gt", "ge", "max", "min", "cmp"):
                    args = [pv.operand(a, bi, len(bb["s"])) for a in t["a"]]
                    if any(tainted(a) for a in args):
                        if last in ("wrapping_add", "wrapping_sub"):
                            nwrap += 1
                            run.touch(f)
                        else:
                            sinks.append((f, t["l"], last, args[0], args[1] if len(args) > 1 else ("unknown", "")))
    for (f, line, op, a, b) in sinks:
        run.bad(rule, "sink:%s:%s" % (f.path, op), "cumulative growth value combined with non-wrapping `%s` in %s: %s , %s (result would depend on accumulator wrap-around)" % (
            op, f.path, sh(a, 70), sh(b, 70)), loc=f.loc(line))
    if not sinks:
        run.ok(rule, "no-non-wrapping-op-on-growth", detail="0 plain/checked/saturating/ordering operations on growth values; %d wrapping operations" % nwrap)
    run.floor(rule, "wrapping operations on growth values", nwrap, floor)


def R1_wrap_discipline(run):
    run.title("R1", "taint: values read from the cumulative fee / reward growth accumulators (global, outside, checkpoint, inside) are combined only "
                    "by wrapping_add / wrapping_sub; any plain, checked or saturating + / - or ordering comparison on them is a violation")
    wrap_discipline(run, "R1", 30)


def R2_flip_on_cross(run):
    run.title("R2", "next_tick_cross_update: outside_x := global_x wrapping_sub outside_x for x in {a, b} (same side both operands) and per initialised "
                    "reward i with the same index on all three")
    facts = run.facts
    fn = facts.need_fn("manager::tick_manager::next_tick_cross_update")
    run.touch(fn)
    pv = prov_of(fn)
    # stores into an update copied from the tick, or one struct literal - the same three values either way
    ws = writes.struct_writes(facts, fn, pv, "state::tick::TickUpdate")
    seen = set()
    for w in ws:
        val = strip(w["val"])
        f = w["field"]
        if f in ("fee_growth_outside_a", "fee_growth_outside_b"):
            side = f[-1]
            ok = val[0] == "call" and val[1].endswith("wrapping_sub") and is_param(val[2][0], "fee_growth_global_" + side) and \
                is_field(val[2][1], f) and is_param(strip(val[2][1])[1], "tick")
            run.check("R2", "flip:" + f, ok, "crossing stores %s := %s, expected fee_growth_global_%s.wrapping_sub(tick.%s)" % (f, sh(val, 100), side, f), loc=fn.loc(w["line"]),
                      detail="%s := global_%s wrapping_sub tick.%s" % (f, side, f))
            seen.add(f)
        elif f == "reward_growths_outside" and w["how"] != "literal":
            # update.reward_growths_outside[i] := reward_infos[i].growth_global_x64.wrapping_sub(tick.reward_growths_outside[i])
            didx = w["idx"]
            ok = val[0] == "call" and val[1].endswith("wrapping_sub") and len(didx) == 1
            if ok:
                g, o = strip(val[2][0]), strip(val[2][1])
                ok = g[0] == "field" and g[2] == "growth_global_x64" and o[0] == "index" and is_field(o[1], "reward_growths_outside")
                if ok:
                    # same index everywhere: destination index i, outside[i], and the reward info is the i-th element of the enumeration
                    ok = strip(o[2]) == strip(didx[0])
                    enum_src = [s for s in subterms(g) if s[0] == "call" and s[1].endswith("::next")]
                    idx_src = [s for s in subterms(didx[0]) if s[0] == "call" and s[1].endswith("::next")]
                    ok = ok and bool(enum_src) and bool(idx_src) and enum_src[0] == idx_src[0]
            run.check("R2", "flip:reward", ok, "crossing stores reward_growths_outside[..] := %s; expected reward_infos[i].growth_global_x64.wrapping_sub(tick.reward_growths_outside[i]) with one index i" % sh(val, 120),
                      loc=fn.loc(w["line"]), detail="reward_growths_outside[i] := reward_infos[i].growth wrapping_sub tick.outside[i]")
            seen.add("reward")
    run.check("R2", "all-three-flipped", seen == {"fee_growth_outside_a", "fee_growth_outside_b", "reward"}, "crossing does not flip all of a, b and rewards (flips %s)" % sorted(seen), loc=fn.loc(),
              detail="a, b, rewards")
    # uninitialised rewards skipped
    ok = any(mentions(at.term, lambda s: s[0] == "call" and s[1].endswith("initialized")) for at in A.atoms(fn))
    run.check("R2", "uninitialised-rewards-skipped", ok, "crossing no longer skips uninitialised rewards", loc=fn.loc(), detail="!initialized() => continue")
    # starts from a copy of the tick (net, gross, initialized unchanged)
    ok = any(c["fn"] is fn for c in writes.constructions(facts, "state::tick::TickUpdate")) or \
        any((callee_path(t) or "").endswith("From<state::tick::Tick>>::from") for _, t in fn.calls())
    run.check("R2", "copy-of-tick", ok, "crossing update does not start from a copy of the tick", loc=fn.loc(), detail="TickUpdate::from(*tick)")


def _tickupdate_fields(fn):
    pv = prov_of(fn)
    for bi, bb in enumerate(fn.blocks):
        if bb["t"]["k"] == "ret":
            for r in leaves(pv.local(0, bi, len(bb["s"]))):
                if r[0] == "agg" and r[2] == "Ok":
                    inner = strip(dict(r[3])["0"])
                    if inner[0] == "agg" and inner[1].endswith("TickUpdate") and const_val(dict(inner[3]).get("initialized")) == 1:
                        return dict(inner[3])
    return None


def R3_init_convention(run):
    run.title("R3", "next_tick_modify_liquidity_update (both): a tick with gross == 0 takes (global_a, global_b, reward growths) as its outside values iff "
                    "tick_current_index >= tick_index, else zeros; an already used tick keeps its stored outside values")
    facts = run.facts
    for path in ("manager::tick_manager::next_tick_modify_liquidity_update", PM + "pino_next_tick_modify_liquidity_update"):
        fn = facts.need_fn(path)
        run.touch(fn)
        short = path.rsplit("::", 1)[-1]
        ats = A.atoms(fn)
        a_gross = a_ge = None
        for at in ats:
            c = at.cond()
            if not c:
                continue
            op, a, b = c
            for (o, x, y) in ((op, a, b), (A.SWAP[op], b, a)):
                if o in ("Eq", "Ne") and arg_name(x) == "liquidity_gross" and const_val(y) == 0 and not is_call(x, "add_liquidity_delta"):
                    a_gross = (at, o)
                if o in ("Ge", "Lt") and is_param(x, "tick_current_index") and is_param(y, "tick_index"):
                    a_ge = (at, o)
        if a_gross is None or a_ge is None:
            run.missing("R3", "atoms@" + short, "%s: tests `tick.liquidity_gross == 0` / `tick_current_index >= tick_index` not found" % path, loc=fn.loc())
            continue

        def fields(assumptions):
            pv = prov_assuming(fn, assumptions)
            for bi, bb in enumerate(fn.blocks):
                if bb["t"]["k"] == "ret" and pv.flow.state_in[bi] is not None:
                    for r in leaves(pv.local(0, bi, len(bb["s"]))):
                        if r[0] == "agg" and r[2] == "Ok":
                            inner = strip(dict(r[3])["0"])
                            if inner[0] == "agg" and inner[1].endswith("TickUpdate") and const_val(dict(inner[3]).get("initialized")) == 1:
                                return dict(inner[3])
            return None
        g_at, g_op = a_gross
        c_at, c_op = a_ge
        new_true = (g_op == "Eq")          # truth value of the atom meaning "tick unused"
        ge_true = (c_op == "Ge")
        cases = [
            ("new-tick-below-or-at-price", [(g_at, new_true), (c_at, ge_true)], "global"),
            ("new-tick-above-price", [(g_at, new_true), (c_at, not ge_true)], "zero"),
            ("used-tick", [(g_at, not new_true)], "keep"),
        ]
        for name, assumptions, want in cases:
            f = fields(assumptions)
            ok = f is not None
            found = None
            if ok:
                fa, fb, fr = strip(f["fee_growth_outside_a"]), strip(f["fee_growth_outside_b"]), strip(f["reward_growths_outside"])
                found = "%s, %s, %s" % (sh(fa, 40), sh(fb, 40), sh(fr, 60))
                if want == "global":
                    ok = is_param(fa, "fee_growth_global_a") and is_param(fb, "fee_growth_global_b") and (is_call(fr, "to_reward_growths") or is_param(fr, "reward_growth_global"))
                elif want == "zero":
                    ok = const_val(fa) == 0 and const_val(fb) == 0 and (fr[0] == "repeat" and const_val(fr[1]) == 0)
                else:
                    ok = arg_name(fa) == "fee_growth_outside_a" and arg_name(fb) == "fee_growth_outside_b" and arg_name(fr) == "reward_growths_outside" and \
                        all(mentions(x, lambda s: s[0] == "param" and s[1] == "tick") for x in (fa, fb, fr))
            run.check("R3", "%s@%s" % (name, short), ok, "%s: case %s yields outside values (%s), expected %s" % (path, name, found, want), loc=fn.loc(),
                      detail="%s -> %s" % (name, want))


def R4_inside(run):
    run.title("R4", "next_fee_growths_inside (both): below = global if lower uninitialised, global-outside if current < lower index, else outside; "
                    "above = 0 if upper uninitialised, outside if current < upper index, else global-outside; inside = global - below - above (wrapping), per side")
    facts = run.facts
    for path in ("manager::tick_manager::next_fee_growths_inside", PM + "pino_next_fee_growths_inside"):
        fn = facts.need_fn(path)
        run.touch(fn)
        short = path.rsplit("::", 1)[-1]
        ats = {}
        for at in A.atoms(fn):
            s = show(at.term)
            c = at.cond()
            if c is None and "initialized" in s:
                which = "lower" if "tick_lower" in s else "upper" if "tick_upper" in s else None
                if which:
                    ats[which + ".init"] = at
            elif c:
                op, a, b = c
                for (o, x, y) in ((op, a, b), (A.SWAP[op], b, a)):
                    if o in ("Lt", "Ge") and is_param(x, "tick_current_index") and strip(y)[0] == "param" and strip(y)[1] in ("tick_lower_index", "tick_upper_index"):
                        ats[strip(y)[1][5:10] + ".lt"] = (at, o)
        if set(ats) != {"lower.init", "upper.init", "lower.lt", "upper.lt"}:
            run.missing("R4", "atoms@" + short, "%s: expected the four tests (lower/upper initialised, current < lower/upper index), found %s" % (path, sorted(ats)), loc=fn.loc())
            continue

        def init_assume(which, val):
            at = ats[which + ".init"]
            # atom term is `initialized` possibly negated: cond true means (neg ? !init : init)
            return (at, val)

        def lt_assume(which, val):
            at, o = ats[which + ".lt"]
            return (at, val if o == "Lt" else (not val))

        def result(assumptions):
            pv = prov_assuming(fn, assumptions)
            for bi, bb in enumerate(fn.blocks):
                if bb["t"]["k"] == "ret" and pv.flow.state_in[bi] is not None:
                    return pv.local(0, bi, len(bb["s"]))
            return None

        def wsub(t):
            t = strip(t)
            if t[0] == "call" and t[1].endswith("wrapping_sub") and len(t[2]) == 2:
                return t[2]
            return None

        def classify(t, side, which):
            t = strip(t)
            if is_param(t, "fee_growth_global_" + side):
                return "global"
            if const_val(t) == 0:
                return "zero"
            if arg_name(t) == "fee_growth_outside_" + side and mentions(t, lambda s: s[0] == "param" and s[1] == "tick_" + which):
                return "outside"
            w = wsub(t)
            if w and is_param(w[0], "fee_growth_global_" + side) and arg_name(w[1]) == "fee_growth_outside_" + side and mentions(w[1], lambda s: s[0] == "param" and s[1] == "tick_" + which):
                return "global-outside"
            return "?" + sh(t, 50)
        lower_cases = [("uninit", [init_assume("lower", False)], "global"), ("below", [init_assume("lower", True), lt_assume("lower", True)], "global-outside"),
                       ("at-or-above", [init_assume("lower", True), lt_assume("lower", False)], "outside")]
        upper_cases = [("uninit", [init_assume("upper", False)], "zero"), ("below", [init_assume("upper", True), lt_assume("upper", True)], "outside"),
                       ("at-or-above", [init_assume("upper", True), lt_assume("upper", False)], "global-outside")]
        for (ln, la, lwant) in lower_cases:
            for (un, ua, uwant) in upper_cases:
                r = result(la + ua)
                ok = r is not None and r[0] == "tuple" and len(r[1]) == 2
                got = []
                if ok:
                    for side, comp in zip("ab", r[1]):
                        w1 = wsub(comp)
                        if not w1:
                            ok = False
                            got.append("?" + sh(comp, 40))
                            continue
                        w0 = wsub(w1[0])
                        grouped = strip(w1[1])
                        if not w0 and is_param(w1[0], "fee_growth_global_" + side) and grouped[0] == "call" and grouped[1].endswith("wrapping_add") and len(grouped[2]) == 2:
                            # global - (below + above): the same value modulo 2^128
                            cand = [(grouped[2][0], grouped[2][1]), (grouped[2][1], grouped[2][0])]
                            pick = [c_ for c_ in cand if not classify(c_[0], side, "lower").startswith("?") and not classify(c_[1], side, "upper").startswith("?")]
                            if pick:
                                below, above = classify(pick[0][0], side, "lower"), classify(pick[0][1], side, "upper")
                                got.append("%s: global - (%s + %s)" % (side, below, above))
                                if (below, above) != (lwant, uwant):
                                    ok = False
                                continue
                        if not w0 and is_param(w1[0], "fee_growth_global_" + side) and not classify(grouped, side, "lower").startswith("?"):
                            # global - (below + 0): the zero term of an uninitialised upper tick folds away
                            below, above = classify(grouped, side, "lower"), "zero"
                            got.append("%s: global - (%s + 0)" % (side, below))
                            if (below, above) != (lwant, uwant):
                                ok = False
                            continue
                        if not w0 or not is_param(w0[0], "fee_growth_global_" + side):
                            ok = False
                            got.append("?" + sh(comp, 40))
                            continue
                        below, above = classify(w0[1], side, "lower"), classify(w1[1], side, "upper")
                        got.append("%s: global - %s - %s" % (side, below, above))
                        if (below, above) != (lwant, uwant):
                            ok = False
                run.check("R4", "inside[lower=%s,upper=%s]@%s" % (ln, un, short), ok,
                          "%s: with lower %s / upper %s relative to the current tick, inside growth is %s; expected global - %s - %s on each side" % (path, ln, un, got, lwant, uwant),
                          loc=fn.loc(), detail="global - %s - %s" % (lwant, uwant))


def R5_credit(run):
    run.title("R5", "position credit (both): owed := owed wrapping_add floor(liquidity * (inside wrapping_sub checkpoint) >> 64) with overflow -> 0; "
                    "checkpoint := inside; side- and index-consistent")
    facts = run.facts
    for path in ("manager::position_manager::next_position_modify_liquidity_update", PM + "pino_next_position_modify_liquidity_update"):
        fn = facts.need_fn(path)
        run.touch(fn)
        short = path.rsplit("::", 1)[-1]
        pv = prov_of(fn)
        ws = [w for w in writes.field_stores(facts) if w["fn"] is fn and w["last"] and w["kind"] == "assign"]
        got = {}
        for w in ws:
            got.setdefault(w["field"], []).append(strip(pv._rvalue(w["rv"], w["block"], w["stmt"], 0)))
        for side in "ab":
            ck = got.get("fee_growth_checkpoint_" + side, [])
            ok = len(ck) == 1 and is_param(ck[0], "fee_growth_inside_" + side)
            run.check("R5", "checkpoint_%s@%s" % (side, short), ok, "%s: fee_growth_checkpoint_%s := %s, expected fee_growth_inside_%s" % (path, side, [sh(x, 40) for x in ck], side), loc=fn.loc(),
                      detail="checkpoint_%s := inside_%s" % (side, side))
            ow = got.get("fee_owed_" + side, [])
            ok = len(ow) == 1
            if ok:
                t = ow[0]
                ok = t[0] == "call" and t[1].endswith("wrapping_add") and arg_name(t[2][0]) == "fee_owed_" + side
                if ok:
                    d = strip(t[2][1])
                    ok = d[0] == "call" and d[1].endswith("unwrap_or") and const_val(d[2][1]) == 0 and is_call(d[2][0], "checked_mul_shift_right")
                    if ok:
                        m = strip(d[2][0])
                        g = strip(m[2][1])
                        ok = m[1].endswith("bit_math::checked_mul_shift_right") and arg_name(m[2][0]) == "liquidity" and g[0] == "call" and g[1].endswith("wrapping_sub") and \
                            is_param(g[2][0], "fee_growth_inside_" + side) and arg_name(g[2][1]) == "fee_growth_checkpoint_" + side
            run.check("R5", "owed_%s@%s" % (side, short), ok, "%s: fee_owed_%s := %s; expected owed.wrapping_add(checked_mul_shift_right(liquidity, inside_%s.wrapping_sub(checkpoint_%s)).unwrap_or(0))" % (
                path, side, [sh(x, 160) for x in ow], side, side), loc=fn.loc(), detail="owed_%s += floor(liquidity * (inside_%s - checkpoint_%s) >> 64), overflow -> 0" % (side, side, side))
        # rewards (field stores into the update slot, or a whole PositionRewardInfo literal stored into it)
        if not got.get("growth_inside_checkpoint") and not got.get("amount_owed"):
            for adt_ in [a for a in facts.adts if a.endswith("::PositionRewardInfo")]:
                for w in writes.struct_writes(facts, fn, pv, adt_):
                    if w["how"] == "literal":
                        got.setdefault(w["field"], []).append(strip(w["val"]))
        gc = got.get("growth_inside_checkpoint", [])
        ao = got.get("amount_owed", [])
        ok = len(gc) == 1 and len(ao) == 1
        if ok:
            g = gc[0]
            ok = g[0] == "index" and is_param(g[1], "reward_growths_inside")
            t = ao[0]
            ok = ok and t[0] == "call" and t[1].endswith("wrapping_add") and arg_name(t[2][0]) == "amount_owed"
            if ok:
                d = strip(t[2][1])
                ok = d[0] == "call" and d[1].endswith("unwrap_or") and const_val(d[2][1]) == 0 and is_call(d[2][0], "checked_mul_shift_right")
                if ok:
                    m = strip(d[2][0])
                    gg = strip(m[2][1])
                    ok = arg_name(m[2][0]) == "liquidity" and gg[0] == "call" and gg[1].endswith("wrapping_sub") and strip(gg[2][0]) == g and arg_name(gg[2][1]) == "growth_inside_checkpoint"
                    # same index i for inside[i], position.reward_infos[i]
                    if ok:
                        idx_inside = strip(g[2])
                        pos_idx = [s for s in subterms(gg[2][1]) if s[0] == "index"]
                        ok = bool(pos_idx) and strip(pos_idx[0][2]) == idx_inside
        run.check("R5", "rewards@" + short, ok, "%s: reward credit is not owed[i].wrapping_add(floor(liquidity * (inside[i] - checkpoint[i]))) / checkpoint[i] := inside[i]: %s ; %s" % (
            path, [sh(x, 120) for x in ao], [sh(x, 60) for x in gc]), loc=fn.loc(), detail="per reward index i, same formula")
        lq = got.get("liquidity", [])
        ok = len(lq) == 1 and lq[0][0] == "q" or (len(lq) == 1 and is_call(lq[0], "add_liquidity_delta"))
        ok = ok and is_call(lq[0], "add_liquidity_delta") and arg_name(strip(lq[0])[2][0]) == "liquidity" and is_param(strip(lq[0])[2][1], "liquidity_delta")
        run.check("R5", "liquidity@" + short, ok, "%s: position liquidity := %s, expected add_liquidity_delta(position.liquidity, liquidity_delta)?" % (path, [sh(x, 60) for x in lq]), loc=fn.loc(),
                  detail="liquidity := add_liquidity_delta(liquidity, delta)?")


def R6_swap_growth_handoff(run):
    run.title("R6", "swap loop: the crossing update receives the loop's running fee growth for the input token and the pool's stored growth for the other; "
                    "the running growth starts from the pool's growth of the input token")
    facts = run.facts
    sw = facts.need_fn(SL.SWAP)
    run.touch(sw)
    for ab in (False, True):
        ctx = {"a_to_b": ab}
        m = SL.SwapModel(facts, ctx)
        # (calculate_update is always analysed inlined into the loop; the crossing is its next_tick_cross_update call)
        cu = calls_to(sw, ends("next_tick_cross_update"), ctx=ctx, cut=True)
        ok = len(cu) == 1
        found = None
        if ok:
            a = cu[0][2]
            ga, gb = a[1], a[2]
            found = "(%s, %s)" % (sh(ga, 50), sh(gb, 50))
            if ab:
                ok = m.is_var(ga, "fee_growth_input") and is_field(gb, "fee_growth_global_b") and is_param(strip(gb)[1], "whirlpool")
            else:
                ok = m.is_var(gb, "fee_growth_input") and is_field(ga, "fee_growth_global_a") and is_param(strip(ga)[1], "whirlpool")
        run.check("R6", "handoff[a_to_b=%d]" % ab, ok, "crossing receives growths %s for a_to_b=%s; expected %s" % (
            found, ab, "(running, pool.b)" if ab else "(pool.a, running)"), loc=sw.loc(), detail="(growth_a, growth_b) = %s" % ("(running, pool.b)" if ab else "(pool.a, running)"))
        inits = [t for (_, _, t) in m.defs(m.var("fee_growth_input")) if is_field(t, "fee_growth_global_a") or is_field(t, "fee_growth_global_b")]
        want = "fee_growth_global_a" if ab else "fee_growth_global_b"
        run.check("R6", "seed[a_to_b=%d]" % ab, len(inits) == 1 and is_field(inits[0], want), "running fee growth starts from %s, expected whirlpool.%s" % ([sh(x, 40) for x in inits], want),
                  loc=sw.loc(), detail="starts at whirlpool." + want)
    # the running growth already contains this step's fee when a tick reached by this step is crossed
    m = SL.SwapModel(facts, {})
    var = m.var("fee_growth_input")
    upd = [(b, t) for (b, _, t) in m.defs(var) if mentions(t, lambda s_: s_[0] == "call" and s_[1].endswith("calculate_fees"))]
    cross = calls_to(sw, ends("next_tick_cross_update"), ctx={}, cut=True)
    step = calls_to(sw, ends("compute_swap"), ctx={}, cut=True)
    fees = calls_to(sw, ends("calculate_fees"), ctx={}, cut=True)
    ok = len(upd) == 1 and len(cross) == 1 and len(step) == 1 and len(fees) == 1
    if ok:
        ub, cb, sb, fb = upd[0][0], cross[0][0], step[0][0], fees[0][0]
        ok = cfg.dominates(sw, sb, fb) and cfg.dominates(sw, fb, ub) and cfg.dominates(sw, ub, cb) and cb in cfg.reach(sw, ub, cut_blocks=[sb])
    if ok:
        # the value handed to the crossing is *read* after the update too (a pair captured before calculate_fees would be one step stale)
        from rules.common import var_read_sites
        pvc = prov_of(sw, {}, cut=True)
        t_ = sw.blocks[cb]["t"]
        sites = set()
        for a_ in t_["a"][1:3]:
            sites |= var_read_sites(sw, pvc, a_, cb, len(sw.blocks[cb]["s"]), var)
        usi = max([d_[1] for d_ in pvc.defs.get(var, []) if d_[0] == ub and d_[2] is None] or [-1])
        ok = bool(sites) and all((b_ == ub and s_ > usi) or (b_ != ub and cfg.dominates(sw, ub, b_) and b_ in cfg.reach(sw, ub, cut_blocks=[sb])) for (b_, s_) in sites)
    run.check("R6", "growth-booked-before-crossing", ok, "in one loop iteration the order must be compute_swap -> calculate_fees -> running growth := its result -> tick crossing; "
              "otherwise a tick reached by a step is flipped against a growth that lacks that step's own fee", loc=sw.loc(), detail="step fee is in the running growth before the crossing of the same iteration")
    # the reward infos used for crossings are the ones brought up to date at swap start
    m = SL.SwapModel(facts, {})
    cu2 = calls_to(sw, ends("next_tick_cross_update"), ctx={}, cut=True)
    ok = len(cu2) == 1 and is_call(cu2[0][2][3], "next_whirlpool_reward_infos")
    run.check("R6", "reward-infos-updated", ok, "crossings do not use next_whirlpool_reward_infos(whirlpool, timestamp)", loc=sw.loc(), detail="reward infos := next_whirlpool_reward_infos(pool, timestamp)?")


def R7_cross_checks(run):
    run.title("R7", 'both packagings hand each growth to the parameter of the same side (C05.R2 argument-name instances)')
    from rules.common import RuleProxy
    from rules import C05
    C05.R2_one_delta(RuleProxy(run, 'R7'))


def R8_settle_always(run):
    run.title("R8", "calculate_fee_and_reward_growths (both): whatever the current tick, the position is settled - the inside growths are computed and the position update "
                    "built from them on every successful path (fees earned before the price left the range are credited when the position is next touched, "
                    "also through update_fees_and_rewards)")
    facts = run.facts
    for wrapper, inner, pre in (("manager::liquidity_manager::calculate_fee_and_reward_growths", "manager::liquidity_manager::_calculate_modify_liquidity", ""),
                                (PM + "pino_calculate_fee_and_reward_growths", PM + "_pino_calculate_modify_liquidity", "pino_")):
        w = facts.need_fn(wrapper)
        run.touch(w)
        def through(f_, depth=0):
            """blocks of f_ whose call goes (on every successful path of the callee) through `inner`"""
            out_ = []
            for bi, t in f_.calls():
                p_ = callee_path(t)
                if f_.blocks[bi]["c"] or not p_:
                    continue
                if p_ == inner:
                    out_.append(bi)
                elif depth < 2 and p_.rsplit("::", 1)[0] == inner.rsplit("::", 1)[0] and facts.fn(p_) is not None and facts.fn(p_) is not f_:
                    g_ = facts.fn(p_)
                    sub_ = through(g_, depth + 1)
                    if len(sub_) == 1 and not cfg.success_reach(g_, 0, cut_blocks=sub_):
                        out_.append(bi)
            return out_
        cs = through(w)
        ok = len(cs) == 1 and not cfg.success_reach(w, 0, cut_blocks=cs)
        run.check("R8", "settles@" + wrapper.rsplit("::", 1)[-1], ok, "%s can succeed without going through %s" % (wrapper, inner.rsplit("::", 1)[-1]), loc=w.loc(),
                  detail="%s(.., delta 0, ..) on every successful path" % inner.rsplit("::", 1)[-1])
        fn = facts.need_fn(inner)
        run.touch(fn)
        short = inner.rsplit("::", 1)[-1]
        for name in ("next_fee_growths_inside", "next_reward_growths_inside", "next_position_modify_liquidity_update"):
            cs = [bi for bi, t in fn.calls() if (callee_path(t) or "").rsplit("::", 1)[-1] == pre + name and not fn.blocks[bi]["c"]]
            ok = len(cs) == 1 and not cfg.success_reach(fn, 0, cut_blocks=cs)
            run.check("R8", "%s@%s" % (name, short), ok, "%s can succeed without calling %s%s (%d call sites)" % (inner, pre, name, len(cs)), loc=fn.loc(),
                      detail="%s%s on every successful path" % (pre, name))


RULES = [R1_wrap_discipline, R2_flip_on_cross, R3_init_convention, R4_inside, R5_credit, R6_swap_growth_handoff, R7_cross_checks, R8_settle_always]
