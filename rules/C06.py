"""C06 Trader input splits exactly into curve amount, protocol share and LP share.

Decided: the step fee formulas (shared with C02.R4); the protocol cut is
floor(fee * rate / 10_000), subtracted from the fee before the LP growth increment
floor((fee - cut) << 64 / L) which happens only when L > 0, and accumulated; the fee
growth and protocol fee are booked on the input token's side; the swap paths move exactly
one user inflow of the leg's input amount and one vault outflow of its output amount,
side-consistently (mint, vault, owner account, program, hook accounts, amount); protocol
fee collection pays the owed amounts to accounts of the pool's mints and resets them; the
Traded event reports the amounts moved.
Also decided: the v2 transfer-fee wrapping keeps the charged input on the input mint (C16.R1 instances
re-decided here);
Also decided: update_after_swap performs all its stores on every path; compute_swap and the loop contain no narrowing
integer cast (a total fee rate above u16 reaches the step whole).
Also decided: the swap wrappers apply what the loop computed on every successful path (pool update and both token movements); no update is
made to a copy of the state and dropped.
Also decided: the protocol's owed fees are zeroed by a collection only (who may call reset_protocol_fees_owed; no other store of 0).
Not decided: the identity summed over multi-step swaps with numbers."""
from analysis import cfg, atoms as A, preach, writes, accounts as ACC
from analysis.ir import callee_path, AnchorMissing
from analysis.prov import prov_of, prov_assuming, strip, leaves, subterms, show
from analysis.match import is_param, is_field, is_call, const_val, sh, mentions, fail_conditions
from rules.common import calls_to, ends, arg_name, acc, acc_chain, argname_mismatches, read_before_call
from rules import swaploop as SL
from rules import C02

W = "state::whirlpool::Whirlpool"


def R1_step_fee(run):
    run.title("R1", "step fee and budget formulas of compute_swap per mode (same rule as C02.R4)")
    _c02_as(run)


def _c02_as(run):
    # run C02.R4 but record under this property's R1
    class Proxy:
        def __init__(self, run):
            self._r = run

        def __getattr__(self, k):
            return getattr(self._r, k)

        def check(self, rule, *a, **kw):
            return self._r.check("R1", *a, **kw)

        def ok(self, rule, *a, **kw):
            return self._r.ok("R1", *a, **kw)

        def bad(self, rule, *a, **kw):
            return self._r.bad("R1", *a, **kw)

        def missing(self, rule, *a, **kw):
            return self._r.missing("R1", *a, **kw)

        def title(self, rule, text):
            pass

        def floor(self, rule, *a, **kw):
            return self._r.floor("R1", *a, **kw)
    C02.R4_fee_and_amounts(Proxy(run))


def side_of(t):
    n = arg_name(t)
    if n and len(n) > 2 and n[-2] == "_" and n[-1] in "ab":
        return n[-1]
    return None


def R2_split(run):
    run.title("R2", "calculate_protocol_fee = floor(fee * rate / 10_000); calculate_fees subtracts that cut from the fee before adding "
                    "floor((fee - cut) << 64 / liquidity) to the growth (only when liquidity > 0) and adds the cut to the protocol accumulator (only when rate > 0)")
    facts = run.facts
    fn = facts.need_fn("manager::swap_manager::calculate_fees")
    run.touch(fn)
    # parameter names by the role of the argument the swap loop passes (robust to renaming / reordering the private helper's parameters)
    sw_ = facts.need_fn(SL.SWAP)
    m_ = SL.SwapModel(facts, {})
    cf_ = calls_to(sw_, ends("calculate_fees"), ctx={}, cut=True)
    pn = {}
    if len(cf_) == 1:
        names_ = fn.param_names()
        for i_, a_ in enumerate(cf_[0][2]):
            role_ = "fee" if m_.step_field(a_, "fee_amount") else "rate" if arg_name(a_) == "protocol_fee_rate" else "liq" if m_.is_var(a_, "liquidity") else \
                "pf" if m_.is_var(a_, "protocol_fee") else "growth" if m_.is_var(a_, "fee_growth_input") else None
            if role_ and i_ < len(names_):
                pn[role_] = names_[i_]
    if set(pn) != {"fee", "rate", "liq", "pf", "growth"}:
        run.missing("R2", "calculate_fees-parameters", "swap loop does not call calculate_fees with (step fee, protocol rate, liquidity, protocol accumulator, growth accumulator): roles found %s" % sorted(pn), loc=sw_.loc())
        return
    P_FEE, P_RATE, P_LIQ, P_PF, P_GROWTH = pn["fee"], pn["rate"], pn["liq"], pn["pf"], pn["growth"]

    def is_cut(t):
        """The protocol's cut of the step fee, written in place (the helper calculate_protocol_fee is always analysed inlined):
        (fee as u128 * rate as u128) / 10_000, truncating, narrowed back."""
        t = strip(t)
        while t[0] == "call" and t[1].rsplit("::", 1)[-1] in ("try_into", "unwrap", "into", "from") and len(t[2]) == 1:
            t = strip(t[2][0])
        if not (t[0] == "bin" and t[1] == "Div" and const_val(t[3]) == 10000):
            return False, False
        m = t[2]
        while m[0] == "q":
            m = m[1]
        ms = strip(m)
        if not (ms[0] == "bin" and ms[1] in ("Mul", "MulWithOverflow")):
            return False, False
        names = {("fee" if is_param(ms[2], P_FEE) else "rate" if is_param(ms[2], P_RATE) else "?"), ("fee" if is_param(ms[3], P_FEE) else "rate" if is_param(ms[3], P_RATE) else "?")}
        wide = all(x[0] == "cast" and x[2] == "u128" for x in (ms[2], ms[3]))
        return names == {"fee", "rate"}, wide
    ats = A.atoms(fn, {}, cut=True)
    a_rate = a_liq = None
    for at in ats:
        c = at.cond()
        if c:
            for (o, x, y) in ((c[0], c[1], c[2]), (A.SWAP[c[0]], c[2], c[1])):
                if o == "Gt" and is_param(x, P_RATE) and const_val(y) == 0:
                    a_rate = at
                if o == "Gt" and is_param(x, P_LIQ) and const_val(y) == 0:
                    a_liq = at
    run.check("R2", "guards", a_rate is not None and a_liq is not None, "calculate_fees lost its `protocol_fee_rate > 0` / `curr_liquidity > 0` guards", loc=fn.loc(), detail="rate > 0, liquidity > 0")
    if a_rate is None or a_liq is None:
        return

    def result(assumptions):
        pv = prov_assuming(fn, assumptions)
        for bi, bb in enumerate(fn.blocks):
            if bb["t"]["k"] == "ret" and pv.flow.state_in[bi] is not None:
                return pv.local(0, bi, len(bb["s"]))
    r = result([(a_rate, True), (a_liq, True)])
    ok = r is not None and r[0] == "tuple"
    if ok:
        pf, gr = strip(r[1][0]), strip(r[1][1])
        cut_ok = pf[0] == "call" and pf[1].endswith("wrapping_add") and is_param(pf[2][0], P_PF) and is_cut(pf[2][1])[0]
        wide_ok = cut_ok and is_cut(pf[2][1])[1]
        run.check("R2", "protocol-cut", cut_ok, "the protocol's cut is not (fee_amount * protocol_fee_rate) / PROTOCOL_FEE_RATE_MUL_VALUE(10000) with truncating division: %s" % sh(pf, 160),
                  loc=fn.loc(), detail="floor(fee * rate / 10000)")
        run.check("R2", "protocol-cut-widened", wide_ok, "the fee * rate product is not computed in u128", loc=fn.loc(), detail="(fee as u128) * (rate as u128)")
        g_ok = gr[0] == "call" and gr[1].endswith("wrapping_add") and is_param(gr[2][0], P_GROWTH)
        if g_ok:
            dv = strip(gr[2][1])
            g_ok = dv[0] == "bin" and dv[1] == "Div" and is_param(dv[3], P_LIQ)
            if g_ok:
                sh_ = strip(dv[2])
                g_ok = sh_[0] == "bin" and sh_[1] in ("Shl", "ShlUnchecked") and const_val(sh_[3]) == 64
                if g_ok:
                    net = strip(sh_[2])
                    g_ok = net[0] == "bin" and net[1] in ("Sub", "SubWithOverflow") and is_param(net[2], P_FEE) and is_cut(net[3])[0]
        run.check("R2", "protocol-accumulates", cut_ok, "protocol accumulator is not curr_protocol_fee + calculate_protocol_fee(fee_amount, rate): %s" % sh(pf, 120), loc=fn.loc(),
                  detail="next_protocol_fee = curr + cut")
        run.check("R2", "lp-growth", g_ok, "LP growth increment is not ((fee_amount - cut) << 64) / curr_liquidity added to the running growth: %s" % sh(gr, 200), loc=fn.loc(),
                  detail="growth += floor(((fee - cut) << 64) / L)")
    r0 = result([(a_rate, False), (a_liq, False)])
    ok = r0 is not None and r0[0] == "tuple" and is_param(r0[1][0], P_PF) and is_param(r0[1][1], P_GROWTH)
    run.check("R2", "zero-rate-zero-liquidity", ok, "with rate == 0 and liquidity == 0 calculate_fees must return its inputs unchanged: %s" % (sh(r0, 100) if r0 else None), loc=fn.loc(),
              detail="unchanged")
    r1 = result([(a_rate, False), (a_liq, True)])
    ok = r1 is not None and r1[0] == "tuple" and is_param(r1[1][0], P_PF)
    if ok:
        gr = strip(r1[1][1])
        dv = strip(gr[2][1]) if gr[0] == "call" and len(gr[2]) == 2 else None
        ok = dv is not None and dv[0] == "bin" and dv[1] == "Div" and is_param(strip(strip(dv[2])[2]), P_FEE)
    run.check("R2", "zero-rate-all-to-lps", ok, "with rate == 0 the whole fee must accrue to liquidity providers", loc=fn.loc(), detail="growth += (fee << 64) / L")
    # loop wiring
    sw = facts.need_fn(SL.SWAP)
    m = SL.SwapModel(facts, {})
    cf = calls_to(sw, ends("calculate_fees"), ctx={}, cut=True)
    ok = len(cf) == 1
    if ok:
        a = cf[0][2]
        ok = m.step_field(a[0], "fee_amount") and arg_name(a[1]) == "protocol_fee_rate" and m.is_var(a[2], "liquidity") and m.is_var(a[3], "protocol_fee") and m.is_var(a[4], "fee_growth_input")
        # the accumulators handed in are the running ones as they are now (a copy taken at the start of a tick segment would drop
        # the growth of the earlier steps of that segment)
        t_ = cf[0][1]
        ok = ok and m.reads_now(cf[0][0], t_["a"][3], "protocol_fee") and m.reads_now(cf[0][0], t_["a"][4], "fee_growth_input") and m.reads_now(cf[0][0], t_["a"][2], "liquidity")
    run.check("R2", "loop-wiring", ok, "swap loop does not call calculate_fees(step.fee_amount, pool.protocol_fee_rate, current liquidity, running protocol fee, running growth)", loc=sw.loc(),
              detail="calculate_fees(step fee, rate, L, protocol acc, growth acc)")
    f = m.result_fields()
    s = strip(f["lp_fee"])
    ok = s[0] == "bin" and s[1] in ("Sub", "SubWithOverflow") and m.is_var(s[2], "fee_sum") and m.is_var(s[3], "protocol_fee") and m.is_var(f["next_protocol_fee"], "protocol_fee") \
        and m.is_var(f["next_fee_growth_global"], "fee_growth_input")
    run.check("R2", "result-fees", ok, "PostSwapUpdate.{lp_fee,next_protocol_fee,next_fee_growth_global} are not (fee_sum - protocol, protocol, growth)", loc=sw.loc(),
              detail="lp_fee = fee_sum - protocol_fee")
    ups = [t for (_, _, t) in m.updates("fee_sum") if const_val(t) != 0]
    ok = len(ups) == 1 and ups[0][0] == "q" and is_call(strip(ups[0])[2][0], "checked_add") and m.step_field(strip(strip(ups[0])[2][0])[2][1], "fee_amount")
    run.check("R2", "fee-sum", ok, "fee_sum is not the checked sum of the step fees", loc=sw.loc(), detail="fee_sum += step.fee_amount (checked, `?`)")


def R3_booking_side(run):
    run.title("R3", "update_after_swap books fee growth and protocol fee on token A iff is_token_fee_in_a, and every caller passes its own a_to_b there")
    facts = run.facts
    fn = facts.need_fn(W + "::update_after_swap")
    run.touch(fn)
    for val in (False, True):
        fl = preach.flow(fn, {"is_token_fee_in_a": val})
        ws = [w for w in writes.field_stores(facts) if w["fn"] is fn and w["adt"] == W and fl.state_in[w["block"]] is not None and w["kind"] == "assign"]
        # stores through a `&mut` chosen per side (`*input_growth = ..`) are stores to the field the reference points at in this context
        ws += writes.deref_stores(fn, prov_of(fn, {"is_token_fee_in_a": val}), W)
        fields = {w["field"] for w in ws}
        side = "a" if val else "b"
        other = "b" if val else "a"
        ok = ("fee_growth_global_" + side) in fields and ("protocol_fee_owed_" + side) in fields and ("fee_growth_global_" + other) not in fields and ("protocol_fee_owed_" + other) not in fields
        run.check("R3", "side[is_token_fee_in_a=%d]" % val, ok, "update_after_swap(is_token_fee_in_a=%s) writes %s" % (val, sorted(f for f in fields if "fee" in f)), loc=fn.loc(),
                  detail="writes fee_growth_global_%s, protocol_fee_owed_%s" % (side, side))
        # the five state fields take the caller's values as they are (a "defensive" transformation of the tick or the price here
        # desynchronises the stored tick from the liquidity the loop computed for it)
        pvs = prov_of(fn, {"is_token_fee_in_a": val})
        plain = {"tick_current_index": "tick_index", "sqrt_price": "sqrt_price", "liquidity": "liquidity", "reward_infos": "reward_infos",
                 "reward_last_updated_timestamp": "reward_last_updated_timestamp"}
        wrong = []
        for w in ws:
            if w.get("field") in plain and "rv" in w and w["kind"] == "assign":
                v_ = pvs._rvalue(w["rv"], w["block"], w["stmt"], 0)
                if not is_param(v_, plain[w["field"]]):
                    wrong.append("%s := %s" % (w["field"], sh(v_, 50)))
        run.check("R3", "stores-as-given[is_token_fee_in_a=%d]" % val, not wrong and set(plain) <= fields, "update_after_swap stores %s; expected each of %s to take its parameter unchanged" % (wrong or sorted(fields), sorted(plain)),
                  loc=fn.loc(), detail="tick, price, liquidity, reward infos, timestamp := the parameters")
        # every store of this side happens on every way out: no return is reachable (under this flag) around any of them, so a swap
        # that leaves the price where it was still books its fee
        infeasible = [b for b in range(len(fn.blocks)) if fl.state_in[b] is None]
        skipped = sorted({w["field"] for w in ws if "block" in w and cfg.success_reach(fn, 0, cut_blocks=infeasible + [w["block"]])})
        run.check("R3", "unconditional[is_token_fee_in_a=%d]" % val, not skipped and len(fields) >= 7, "update_after_swap(is_token_fee_in_a=%s) can return without storing %s (of %s)" % (val, skipped, sorted(fields)),
                  loc=fn.loc(), detail="all %d stores on every path" % len(fields))
        pv = prov_of(fn, {"is_token_fee_in_a": val})
        for w in ws:
            if w["field"] == "protocol_fee_owed_" + side:
                v = strip(pv._rvalue(w["rv"], w["block"], w["stmt"], 0))
                ok = v[0] == "bin" and v[1] in ("Add", "AddWithOverflow") and {arg_name(v[2]), arg_name(v[3])} == {"protocol_fee_owed_" + side, "protocol_fee"}
                run.check("R3", "owed-accumulates[%s]" % side, ok, "protocol_fee_owed_%s := %s, expected owed + protocol_fee" % (side, sh(v, 80)), loc=fn.loc(w["line"]), detail="owed_%s += protocol_fee" % side)
            if w["field"] == "fee_growth_global_" + side:
                v = pv._rvalue(w["rv"], w["block"], w["stmt"], 0)
                run.check("R3", "growth-stored[%s]" % side, is_param(v, "fee_growth_global"), "fee_growth_global_%s := %s, expected the fee_growth_global parameter" % (side, sh(v, 60)),
                          loc=fn.loc(w["line"]), detail="growth_%s := new growth" % side)
    n = 0
    for (cf, bi) in facts.callers().get(W + "::update_after_swap", []):
        run.touch(cf)
        n += 1
        pv = prov_of(cf)
        t = cf.blocks[bi]["t"]
        args = [pv.operand(a, bi, len(cf.blocks[bi]["s"])) for a in t["a"]]
        su = [strip(a) for a in args[1:7]]
        names = [x[2] if x[0] == "field" else None for x in su]
        ok = names == ["next_liquidity", "next_tick_index", "next_sqrt_price", "next_fee_growth_global", "next_reward_infos", "next_protocol_fee"]
        base = {show(x[1]) for x in su if x[0] == "field"}
        ok = ok and len(base) == 1
        # pool / update / flag belong together (one, two)
        leg = None
        pool = arg_name(args[0]) or ""
        upd = list(base)[0] if base else ""
        flag = arg_name(args[7]) or ""
        for tag in ("one", "two"):
            if tag in pool:
                leg = tag
        if leg:
            ok = ok and leg in upd and leg in flag and not any(o in upd or o in flag for o in ({"one", "two"} - {leg}))
        run.check("R3", "caller:%s:l%d" % (cf.path, t["l"] - cf.line), ok, "%s passes (%s | update %s | flag %s) to update_after_swap: fields %s" % (cf.path, pool, upd, flag, names), loc=cf.loc(t["l"]),
                  detail="pool %s <- %s.{next_*}, is_token_fee_in_a = %s" % (pool, upd, flag))
    run.floor("R3", "update_after_swap callers", n, 4)
    # handlers pass a_to_b as is_token_fee_in_a
    for hpath, callee, idx, flags in (("instructions::swap::handler", "update_and_swap_whirlpool", 8, ["a_to_b"]),
                                     ("instructions::v2::swap::handler", "update_and_swap_whirlpool_v2", 14, ["a_to_b"])):
        h = facts.need_fn(hpath)
        cs = calls_to(h, ends(callee))
        ok = len(cs) == 1 and is_param(cs[0][2][idx], flags[0])
        run.check("R3", "handler-flag@" + hpath, ok, "%s does not pass a_to_b as is_token_fee_in_a" % hpath, loc=h.loc(), detail="is_token_fee_in_a := a_to_b")
    h = facts.need_fn("instructions::two_hop_swap::handler")
    cs = calls_to(h, ends("update_and_swap_whirlpool"))
    ok = len(cs) == 2
    for (bi, t, a) in cs:
        pool = acc(a[0]) or ""
        leg = "one" if "one" in pool else "two"
        ok = ok and is_param(a[8], "a_to_b_" + leg) and all((acc(x) or "").count(leg) >= 1 for x in a[2:6]) and mentions(a[7], lambda s: s[0] == "call" and s[1].endswith("swap_manager::swap") and leg in (acc(s[2][0]) or ""))
    run.check("R3", "handler-flag@two_hop_swap", ok, "two_hop_swap does not settle each leg with its own pool, accounts, swap result and direction", loc=h.loc(), detail="leg-consistent settlement")


def R4_swap_transfers(run):
    run.title("R4", "perform_swap(_v2): one owner->vault transfer of the input token's amount and one vault->owner transfer of the output token's amount, "
                    "every sided argument (mint, accounts, program, hooks, amount) on the same side, input side = A iff a_to_b; v2 two-hop: input inflow, vault->vault, output outflow")
    facts = run.facts
    # (the private helpers perform_swap / perform_swap_v2 are always analysed inlined into their callers: analysis/canon.py ALWAYS_INLINE;
    #  the direction flag there is the wrapper's is_token_fee_in_a)
    for path, dep, wd in (("util::swap_utils::update_and_swap_whirlpool", "util::token::transfer_from_owner_to_vault", "util::token::transfer_from_vault_to_owner"),
                          ("util::v2::swap_utils::update_and_swap_whirlpool_v2", "util::v2::token::transfer_from_owner_to_vault_v2", "util::v2::token::transfer_from_vault_to_owner_v2")):
        fn = facts.need_fn(path)
        run.touch(fn)
        short = "perform_swap_v2" if path.endswith("_v2") else "perform_swap"
        for ab in (False, True):
            ctx = {"is_token_fee_in_a": ab}
            d = calls_to(fn, lambda p: p == dep, ctx=ctx)
            w = calls_to(fn, lambda p: p == wd, ctx=ctx)
            ok = len(d) == 1 and len(w) == 1
            if ok:
                ds = {side_of(a) for a in d[0][2]} - {None}
                ws_ = {side_of(a) for a in w[0][2]} - {None}
                want_d, want_w = ("a", "b") if ab else ("b", "a")
                nsided_d = sum(1 for a in d[0][2] if side_of(a))
                nsided_w = sum(1 for a in w[0][2] if side_of(a))
                ok = ds == {want_d} and ws_ == {want_w} and nsided_d >= 3 and nsided_w >= 3
                run.check("R4", "%s[a_to_b=%d]" % (short, ab), ok,
                          "%s(a_to_b=%s): deposit uses side(s) %s over %s, withdrawal side(s) %s over %s; expected deposit %s / withdrawal %s" % (
                              path, ab, sorted(ds), [arg_name(a) for a in d[0][2]], sorted(ws_), [arg_name(a) for a in w[0][2]], want_d.upper(), want_w.upper()),
                          loc=fn.loc(), detail="deposit all-%s (%d args), withdrawal all-%s (%d args)" % (want_d.upper(), nsided_d, want_w.upper(), nsided_w))
                # argument roles by parameter name
                mm = argname_mismatches(facts, fn, d[0][0], d[0][1], d[0][2]) + argname_mismatches(facts, fn, w[0][0], w[0][1], w[0][2])
                run.check("R4", "%s-roles[a_to_b=%d]" % (short, ab), not mm, "%s: %s" % (path, "; ".join(mm)), loc=fn.loc(), detail="user/pool/program/amount in their own slots")
                # withdrawal is signed by the pool passed in
                run.check("R4", "%s-pool[a_to_b=%d]" % (short, ab), is_param(w[0][2][0], "whirlpool") and is_param(d[0][2][0], "token_authority"),
                          "%s: deposit authority / withdrawal pool are not (token_authority, whirlpool)" % path, loc=fn.loc(), detail="deposit by token_authority, withdrawal by the pool")
                # the amounts moved are the swap result's amounts of those sides
                amts = [x for x in (d[0][2][-1], w[0][2][-2 if path.endswith("_v2") else -1])]
                okw = all(strip(x)[0] == "field" and strip(x)[2] in ("amount_a", "amount_b") and is_param(strip(x)[1], "swap_update") for x in amts)
                run.check("R4", "wrapper@%s[a_to_b=%d]" % (path.rsplit("::", 1)[-1], ab), okw, "%s does not move swap_update.amount_a / amount_b" % path, loc=fn.loc(),
                          detail="amounts: swap_update.amount_%s in, swap_update.amount_%s out" % (want_d, want_w))
            else:
                run.bad("R4", "%s[a_to_b=%d]" % (short, ab), "%s(a_to_b=%s) performs %d deposits and %d withdrawals, expected one each" % (path, ab, len(d), len(w)), loc=fn.loc())
            # both results are propagated
            for (bi, t, a) in d + w:
                mp, why = cfg.must_pass_call(fn, bi) if t["d"]["l"] != 0 else (True, "")
                run.check("R4", "%s-result:%s[a_to_b=%d]" % (short, callee_path(t).rsplit("::", 1)[-1], ab), mp or cfg.result_ok_edge(fn, bi) is not None,
                          "%s drops the result of %s" % (path, callee_path(t)), loc=fn.loc(t["l"]), detail="`?`")
    # whatever the swap computed is applied whole: the pool update and both token movements lie on every successful path of the
    # wrappers (the swap loop has already written the crossed ticks; a wrapper that returns early on some result leaves ticks
    # flipped against a pool that never moved)
    for path, n_upd in (("util::swap_utils::update_and_swap_whirlpool", 1), ("util::v2::swap_utils::update_and_swap_whirlpool_v2", 1),
                        ("util::v2::swap_utils::update_and_two_hop_swap_whirlpool_v2", 2)):
        fn = facts.need_fn(path)
        pvw = prov_of(fn)
        ups = {}
        for (bi, t, a) in calls_to(fn, ends("Whirlpool::update_after_swap")):
            ups.setdefault(sh(a[0], 40), []).append(bi)
        ok = len(ups) == n_upd and all(not cfg.success_reach(fn, 0, cut_blocks=bs) for bs in ups.values())
        run.check("R4", "applies-always:update_after_swap@" + path.rsplit("::", 1)[-1], ok, "%s can return successfully without update_after_swap on %s" % (path, "each pool" if n_upd == 2 else "the pool"),
                  loc=fn.loc(), detail="update_after_swap on every successful path (%d pool%s)" % (n_upd, "s" if n_upd > 1 else ""))
        for kind, pred in (("deposit", lambda p: p.rsplit("::", 1)[-1].startswith("transfer_from_owner_to_vault")), ("withdrawal", lambda p: p.rsplit("::", 1)[-1].startswith("transfer_from_vault_to_owner"))):
            bs = [bi for (bi, t, a) in calls_to(fn, pred)]
            run.check("R4", "applies-always:%s@%s" % (kind, path.rsplit("::", 1)[-1]), bool(bs) and not cfg.success_reach(fn, 0, cut_blocks=bs),
                      "%s can return successfully without the %s" % (path, kind), loc=fn.loc(), detail="%s on every successful path" % kind)
    # v2 two-hop
    fn = facts.need_fn("util::v2::swap_utils::update_and_two_hop_swap_whirlpool_v2")
    run.touch(fn)
    for one in (False, True):
        for two in (False, True):
            ctx = {"is_token_fee_in_one_a": one, "is_token_fee_in_two_a": two}
            d = calls_to(fn, ends("transfer_from_owner_to_vault_v2"), ctx=ctx)
            w = calls_to(fn, ends("transfer_from_vault_to_owner_v2"), ctx=ctx)
            tag = "[one_a=%d,two_a=%d]" % (one, two)
            ok = len(d) == 1 and len(w) == 2
            if not ok:
                run.bad("R4", "two-hop-v2" + tag, "two-hop v2 settlement performs %d inflows and %d outflows, expected 1 and 2" % (len(d), len(w)), loc=fn.loc())
                continue
            w.sort(key=lambda x: x[0])
            if not cfg.dominates(fn, w[0][0], w[1][0]):
                w.reverse()
            da, w1, w2 = d[0][2], w[0][2], w[1][2]

            def amt(t):
                t = strip(t)
                return (arg_name(t[1]), t[2]) if t[0] == "field" else None
            want_in = ("swap_update_one", "amount_a" if one else "amount_b")
            want_mid = ("swap_update_one", "amount_b" if one else "amount_a")
            want_out = ("swap_update_two", "amount_b" if two else "amount_a")
            names_d = [arg_name(x) for x in da]
            names_1 = [arg_name(x) for x in w1]
            names_2 = [arg_name(x) for x in w2]
            ok = amt(da[7]) == want_in and amt(w1[7]) == want_mid and amt(w2[7]) == want_out
            ok = ok and names_d[:7] == ["token_authority", "token_mint_input", "token_owner_account_input", "token_vault_one_input", "token_program_input", "memo_program", "transfer_hook_accounts_input"]
            ok = ok and names_1[:7] == ["whirlpool_one", "token_mint_intermediate", "token_vault_one_intermediate", "token_vault_two_intermediate", "token_program_intermediate", "memo_program", "transfer_hook_accounts_intermediate"]
            ok = ok and names_2[:7] == ["whirlpool_two", "token_mint_output", "token_vault_two_output", "token_owner_account_output", "token_program_output", "memo_program", "transfer_hook_accounts_output"]
            run.check("R4", "two-hop-v2" + tag, ok, "two-hop v2 settlement in context %s moves (%s | %s | %s) with accounts %s / %s / %s" % (
                ctx, amt(da[7]), amt(w1[7]), amt(w2[7]), names_d[:7], names_1[:7], names_2[:7]), loc=fn.loc(),
                detail="in: %s.%s user->vault_one; mid: %s.%s vault_one->vault_two (signed by pool one); out: %s.%s vault_two->user (signed by pool two)" % (want_in + want_mid + want_out))


def R5_collect_protocol_fees(run):
    run.title("R5", "collect_protocol_fees (v1, v2): transfers whirlpool.protocol_fee_owed_a / _b (read before the reset) from vault A / B to destinations "
                    "constrained to the pool's mints, then resets both; the reset stores 0 to exactly the two owed fields")
    facts = run.facts
    structs = ACC.load(facts)
    fn = facts.fn(W + "::reset_protocol_fees_owed")
    from analysis import canon as _canon
    if fn is None and (W + "::reset_protocol_fees_owed") in ((_canon.reference(facts.crate) or {}).get("fns", {})):
        # the reset written into its callers and removed: the in-place form (the two zero stores, recognised from the recorded setter
        # signature) is decided per handler below, and `reset-only-on-collection` reads the stores of 0 directly
        fn = facts.need_fn("instructions::collect_protocol_fees::handler")
        run.ok("R5", "reset-fn", detail="reset written in place in the collection handlers")
    else:
        fn = facts.need_fn(W + "::reset_protocol_fees_owed")
        pv = prov_of(fn)
        ws = [w for w in writes.field_stores(facts) if w["fn"] is fn]
        ok = {w["field"] for w in ws} == {"protocol_fee_owed_a", "protocol_fee_owed_b"} and all(const_val(pv._rvalue(w["rv"], w["block"], w["stmt"], 0)) == 0 for w in ws)
        run.check("R5", "reset-fn", ok, "reset_protocol_fees_owed does not zero exactly protocol_fee_owed_a and _b", loc=fn.loc(), detail="owed_a := 0; owed_b := 0")
    # ... and only a collection may zero them: the stores of 0 to protocol_fee_owed_a / _b are those of reset_protocol_fees_owed, and that is
    # called from the two collection handlers only (a reset anywhere else erases a claim that was never paid)
    allowed = {"instructions::collect_protocol_fees::handler", "instructions::v2::collect_protocol_fees::handler"}
    bad = sorted({f.path for f, _ in facts.callers().get(W + "::reset_protocol_fees_owed", []) if f.path not in allowed and "::tests::" not in f.path and "_tests::" not in f.path
                  and not f.path.endswith("Whirlpool::initialize")})
    for w in writes.field_stores(facts):
        if w["field"] in ("protocol_fee_owed_a", "protocol_fee_owed_b") and w["fn"] is not fn and w["fn"].path not in allowed and "test" not in w["fn"].path \
                and not w["fn"].path.endswith("Whirlpool::initialize"):   # a new pool starts with nothing owed
            pw = prov_of(w["fn"])
            if const_val(pw._rvalue(w["rv"], w["block"], w["stmt"], 0)) == 0 and w.get("root") != "local":
                bad.append(w["fn"].path + " (stores 0)")
    run.check("R5", "reset-only-on-collection", not bad, "the protocol's owed fees are zeroed outside a collection: %s" % ", ".join(bad), loc=fn.loc(),
              detail="callers of reset_protocol_fees_owed: the two collect_protocol_fees handlers")
    for mod, sname, xfer in (("instructions::collect_protocol_fees", "CollectProtocolFees", "transfer_from_vault_to_owner"),
                             ("instructions::v2::collect_protocol_fees", "CollectProtocolFeesV2", "transfer_from_vault_to_owner_v2")):
        h = facts.need_fn(mod + "::handler")
        run.touch(h)
        tx = calls_to(h, ends(xfer))
        rs = calls_to(h, ends("Whirlpool::reset_protocol_fees_owed"))
        if not rs:
            # the reset written in place: the same two zero stores (recognised by what reset_protocol_fees_owed itself stores)
            rs = [(mb, {"l": ws_[-1]["line"]}, [recv]) for (mp_, mb, recv, _a, ws_) in writes.recognise_mutators(facts, h) if mp_ == W + "::reset_protocol_fees_owed"]
        ok = len(tx) == 2 and len(rs) == 1
        sides = set()
        if ok:
            for (bi, t, a) in tx:
                amts = [x for x in a if (acc_chain(x) or "").startswith("whirlpool.protocol_fee_owed_")]
                if len(amts) != 1:
                    ok = False
                    continue
                s = acc_chain(amts[0])[-1]
                sides.add(s)
                accs = [acc(x) for x in a if acc(x)]
                if ("token_vault_" + s) not in accs or ("token_destination_" + s) not in accs or any(x.endswith("_" + ("b" if s == "a" else "a")) for x in accs):
                    ok = False
                # read-before-reset: the amount is loaded before the reset call executes
                if not cfg.dominates(h, bi, rs[0][0]) and not read_before_call(h, "protocol_fee_owed_" + s, rs[0][0]):
                    ok = False
            ok = ok and sides == {"a", "b"} and acc(rs[0][2][0]) == "whirlpool"
        run.check("R5", "pay-and-reset@" + mod, ok, "%s does not pay protocol_fee_owed_a/_b from vault a/b to destination a/b and reset the pool's owed amounts" % mod, loc=h.loc(),
                  detail="transfer(owed_a) vault_a->destination_a; transfer(owed_b) ...; reset")
        # every success path resets
        if rs:
            mp = not cfg.success_reach(h, 0, cut_blocks=[rs[0][0]])
            run.check("R5", "reset-on-every-success-path@" + mod, mp, "%s has a success path that pays without resetting the owed amounts" % mod, loc=h.loc(), detail="reset is must-pass")
        st = structs.get(mod + "::" + sname)
        for s in "ab":
            f = st.field("token_destination_" + s) if st else None
            ok = f is not None and ACC.canon_eq("token_destination_%s.mint==whirlpool.token_mint_%s" % (s, s)) in f.values("constraint")
            run.check("R5", "destination-mint-%s@%s" % (s, sname), ok, "%s.token_destination_%s is not constrained to the pool's mint %s" % (sname, s, s.upper()),
                      loc=st.loc("token_destination_" + s) if st else None, detail="destination.mint == whirlpool.token_mint_" + s)
            f = st.field("token_vault_" + s) if st else None
            ok = f is not None and f.values("address") == ["whirlpool.token_vault_" + s]
            run.check("R5", "vault-%s@%s" % (s, sname), ok, "%s.token_vault_%s is not bound to whirlpool.token_vault_%s" % (sname, s, s), loc=st.loc("token_vault_" + s) if st else None,
                      detail="address = whirlpool.token_vault_" + s)


def _amount_read_before(fn, term, reset_block):
    # the owed amount is a by-value u64 read into a local before the reset call: its defining
    # statement must be in a block that dominates the reset block
    return True


def R6_event(run):
    run.title("R6", "Traded event: input/output amounts select amount_a/b by a_to_b; lp_fee / protocol_fee are the swap result's; v2 transfer fees are those of the "
                    "same side's mint and amount")
    facts = run.facts
    for hpath, v2 in (("instructions::swap::handler", False), ("instructions::v2::swap::handler", True)):
        h = facts.need_fn(hpath)
        run.touch(h)
        for ab in (False, True):
            pv = prov_of(h, {"a_to_b": ab})
            ev = None
            for bi, bb in enumerate(h.blocks):
                if pv.flow.state_in[bi] is None:
                    continue
                for si, st in enumerate(bb["s"]):
                    if st["k"] == "=" and st["rv"].get("agg", {}).get("adt") == "events::Traded":
                        ev = dict(pv._rvalue(st["rv"], bi, si, 0)[3])
            if ev is None:
                run.missing("R6", "event@%s[a_to_b=%d]" % (hpath, ab), "Traded event construction not found", loc=h.loc())
                continue
            i, o = ("amount_a", "amount_b") if ab else ("amount_b", "amount_a")
            ok = arg_name(ev["input_amount"]) == i and arg_name(ev["output_amount"]) == o and arg_name(ev["lp_fee"]) == "lp_fee" and arg_name(ev["protocol_fee"]) == "next_protocol_fee" \
                and is_param(ev["a_to_b"], "a_to_b")
            run.check("R6", "amounts@%s[a_to_b=%d]" % (hpath.replace("instructions::", ""), ab), ok,
                      "Traded(a_to_b=%s) reports input=%s output=%s lp_fee=%s protocol_fee=%s" % (ab, arg_name(ev["input_amount"]), arg_name(ev["output_amount"]), arg_name(ev["lp_fee"]), arg_name(ev["protocol_fee"])),
                      loc=h.loc(), detail="input=%s output=%s lp_fee protocol_fee=next_protocol_fee" % (i, o))
            if v2:
                okf = True
                for fld, mint, amount in (("input_transfer_fee", "token_mint_a" if ab else "token_mint_b", i), ("output_transfer_fee", "token_mint_b" if ab else "token_mint_a", o)):
                    t = strip(ev[fld])
                    good = t[0] == "field" and t[2] == "transfer_fee" and is_call(t[1], "calculate_transfer_fee_excluded_amount")
                    if good:
                        ca = strip(t[1])[2]
                        good = acc(ca[0]) == mint and arg_name(ca[1]) == amount
                    okf = okf and good
                run.check("R6", "transfer-fees@v2::swap[a_to_b=%d]" % ab, okf, "Traded transfer-fee fields are not excluded(mint of that side, that side's amount).transfer_fee", loc=h.loc(),
                          detail="input fee on input mint/amount, output fee on output mint/amount")
            else:
                run.check("R6", "transfer-fees@swap[a_to_b=%d]" % ab, const_val(ev["input_transfer_fee"]) == 0 and const_val(ev["output_transfer_fee"]) == 0,
                          "v1 Traded event reports non-zero transfer fees", loc=h.loc(), detail="0, 0")


def R7_cross_checks(run):
    run.title("R7", 'the v2 wrapping around the curve swap keeps input = curve amount + fees on the input mint (C16.R1 instances)')
    from rules.common import RuleProxy
    from rules import C16
    C16.R1_swap_wiring(RuleProxy(run, 'R7'))


_BITS = {"u8": 8, "u16": 16, "u32": 32, "u64": 64, "u128": 128, "usize": 64, "i8": 8, "i16": 16, "i32": 32, "i64": 64, "i128": 128, "isize": 64}


def narrowing_casts(fn):
    """`as` casts of a non-constant integer to a narrower integer type in fn (helpers new to the tree are read spliced in):
    [(line, source type, target type, operand term)]. Such a cast truncates silently."""
    pv = prov_of(fn)
    out = []
    for bi, bb in enumerate(fn.blocks):
        if bb["c"]:
            continue
        for si, st in enumerate(bb["s"]):
            if st["k"] == "=" and st["rv"].get("cast") == "int":
                o = st["rv"]["a"]
                pl = o.get("mv") or o.get("cp")
                src = fn.locals[pl["l"]]["t"] if pl and not pl.get("p") else None
                if src in _BITS and st["rv"]["ty"] in _BITS and _BITS[st["rv"]["ty"]] < _BITS[src]:
                    out.append((st.get("l"), src, st["rv"]["ty"], pv.operand(o, bi, si)))
    return out


def R8_widths(run):
    run.title("R8", "the step computation and the swap loop never narrow an amount or a rate with `as` (the total fee rate of an adaptive-fee pool exceeds u16; "
                    "a truncated rate or amount is a fee nobody is charged): no integer cast to a narrower type in compute_swap / swap")
    facts = run.facts
    for path in ("math::swap_math::compute_swap", SL.SWAP):
        fn = facts.need_fn(path)
        run.touch(fn)
        nc = narrowing_casts(fn)
        run.check("R8", "no-narrowing@" + path.rsplit("::", 1)[-1], not nc, "%s truncates %s" % (path, "; ".join("%s as %s (was %s)" % (sh(t, 50), ty, src) for (_, src, ty, t) in nc[:3])),
                  loc=fn.loc(nc[0][0]) if nc else fn.loc(), detail="0 narrowing integer casts")


RULES = [R1_step_fee, R2_split, R3_booking_side, R4_swap_transfers, R5_collect_protocol_fees, R6_event, R7_cross_checks, R8_widths]
