"""C03 Swaps honour the trader's amount, price-limit and slippage bounds.

Decided: per (exact_in, direction) context each of the four swap handlers fails with the
right code exactly when the *output* (exact-in; its transfer-fee-excluded amount in v2) is
below / the *input* (exact-out) is above the threshold, using the right leg and side, and
that check precedes every state change; the limit defaults, bound and direction checks
and the zero-amount check in the swap loop precede the loop; the exact-out partial-fill
rejection; the per-step price target clamp; the amount accounting of the loop (checked
arithmetic with error propagation, which accumulator becomes amount_a / amount_b); the
trader's amount and each pool's own price limit reach the engine unchanged (v2 exact-in
charges `amount` or the fee-included swap input on the input mint; two-hop legs are wired
to their own pool / limit / direction / oracle).
Also decided: the swap loop is left without failing only through its own condition (amount used up, or price at the limit).
Not decided: that the loop never overshoots, final price == limit on partial fills,
behaviour over reachable pool states."""
from analysis import cfg, atoms as A, preach
from analysis.ir import callee_path, AnchorMissing
from analysis.prov import prov_of, strip, leaves, subterms, show, field_chain
from analysis.match import is_param, is_field, is_call, const_val, const_name, sh, mentions, fail_conditions
from rules.common import calls_to, ends, ctx_fail_conditions, acc, acc_chain, effect_guarded
from rules import swaploop as SL

SWAPFN = "manager::swap_manager::swap"
SWAPV2 = "instructions::v2::swap::swap_with_transfer_fee_extension"
EXCL = "util::v2::token::calculate_transfer_fee_excluded_amount"

HANDLERS = [
    dict(path="instructions::swap::handler", v2=False, two_hop=False),
    dict(path="instructions::v2::swap::handler", v2=True, two_hop=False),
    dict(path="instructions::two_hop_swap::handler", v2=False, two_hop=True),
    dict(path="instructions::v2::two_hop_swap::handler", v2=True, two_hop=True),
]
EFFECTS = ("update_and_swap_whirlpool", "update_and_swap_whirlpool_v2", "update_and_two_hop_swap_whirlpool_v2",
           "OracleAccessor::<'info>::update_adaptive_fee_variables")


def _swap_result(t):
    """(pool account, field) if t is <swap(..)?>.amount_x"""
    t = strip(t)
    if t[0] != "field" or t[2] not in ("amount_a", "amount_b"):
        return None
    base = strip(t[1])
    if base[0] == "call" and base[1] in (SWAPFN, SWAPV2):
        return (acc(base[2][0]), t[2])
    return None


def R1_threshold_table(run):
    run.title("R1", "in every (exact_in, a_to_b[, a_to_b_two]) context the only slippage failure is: exact-in => AmountOutBelowMinimum iff "
                    "output < threshold on the output side of the (last) leg (v2: its transfer-fee-excluded amount on the output mint); "
                    "exact-out => AmountInAboveMaximum iff input > threshold on the input side of the (first) leg")
    facts = run.facts
    n = 0
    for hd in HANDLERS:
        h = facts.need_fn(hd["path"])
        run.touch(h)
        names = ["amount_specified_is_input"] + (["a_to_b_one", "a_to_b_two"] if hd["two_hop"] else ["a_to_b"])
        for ctx in preach.contexts(names):
            n += 1
            ei = ctx["amount_specified_is_input"]
            if hd["two_hop"]:
                leg = "whirlpool_two" if ei else "whirlpool_one"
                ab = ctx["a_to_b_two"] if ei else ctx["a_to_b_one"]
            else:
                leg = "whirlpool"
                ab = ctx["a_to_b"]
            # exact-in: output field of the last leg; exact-out: input field of the first leg
            if ei:
                want_field = "amount_b" if ab else "amount_a"
                want_code, want_op = "AmountOutBelowMinimum", "Lt"
            else:
                want_field = "amount_a" if ab else "amount_b"
                want_code, want_op = "AmountInAboveMaximum", "Gt"
            conds = ctx_fail_conditions(h, ctx, codes=("AmountOutBelowMinimum", "AmountInAboveMaximum"))
            inst = "%s[%s]" % (hd["path"].replace("instructions::", "").replace("::handler", ""), ",".join("%s=%d" % (k[:12], v) for k, v in ctx.items()))
            desc = []
            ok = len(conds) == 1
            why = "expected exactly one slippage failure condition, found %d" % len(conds)
            for (op, a, b, at) in conds:
                if is_param(b, "other_amount_threshold"):
                    o, val = op, a
                elif is_param(a, "other_amount_threshold"):
                    o, val = A.SWAP[op], b
                else:
                    ok, why = False, "comparison does not involve other_amount_threshold: %s %s %s" % (sh(a, 60), op, sh(b, 60))
                    continue
                codes = at.true_codes | at.false_codes
                desc.append("%s %s threshold => %s" % (sh(val, 90), o, ",".join(sorted(codes))))
                if codes != {want_code}:
                    ok, why = False, "error code is %s, expected %s" % (sorted(codes), want_code)
                    continue
                if o != want_op:
                    ok, why = False, "fails when value %s threshold, expected value %s threshold" % (o, want_op)
                    continue
                v = strip(val)
                if hd["v2"] and ei:
                    # transfer-fee-excluded amount of the output mint
                    if not (v[0] == "field" and v[2] == "amount" and is_call(v[1], "calculate_transfer_fee_excluded_amount")):
                        ok, why = False, "v2 exact-in must compare the transfer-fee-excluded output: %s" % sh(val, 90)
                        continue
                    cargs = strip(v[1])[2]
                    mint = acc(cargs[0])
                    want_mint = ("token_mint_output" if hd["two_hop"] else ("token_mint_b" if ab else "token_mint_a"))
                    if mint != want_mint:
                        ok, why = False, "fee-excluded output is computed on mint `%s`, expected `%s`" % (mint, want_mint)
                        continue
                    v = strip(cargs[1])
                sr = _swap_result(v)
                if sr is None:
                    ok, why = False, "compared value is not an amount of a swap result: %s" % sh(val, 90)
                    continue
                if sr != (leg, want_field):
                    ok, why = False, "compares %s.%s, expected %s.%s (%s side of the %s leg)" % (sr[0], sr[1], leg, want_field, "output" if ei else "input", "last" if ei else "first")
                    continue
            run.check("R1", inst, ok, "slippage check of %s in context %s: %s" % (hd["path"], ctx, why), loc=h.loc(),
                      expected="%s.%s %s threshold => %s" % (leg, want_field, want_op, want_code), found="; ".join(desc) or "none",
                      detail="; ".join(desc))
            # R2: ordering
            if ok:
                at = conds[0][3]
                eff = [bi for bi, t in h.calls() if any((callee_path(t) or "").endswith(e) for e in EFFECTS)]
                g = bool(eff) and effect_guarded(h, ctx, at, eff)
                run.check("R2", inst, g, "a state change (pool update / transfer / oracle update) is reachable without passing the slippage check in context %s" % ctx,
                          loc=h.loc(), detail="%d effect calls only behind the non-failing edge" % len(eff))
    run.title("R2", "the slippage failure dominates every state change (pool update, transfers, oracle update) in each context")
    run.floor("R1", "handler contexts", n, 24)


def R3_limit_validation(run):
    run.title("R3", "swap(): no explicit limit => MIN price when a_to_b else MAX; limit outside [MIN, MAX] => SqrtPriceOutOfBounds; limit on the wrong "
                    "side of the current price => InvalidSqrtPriceLimitDirection; amount == 0 => ZeroTradableAmount; all before the loop")
    facts = run.facts
    fn = facts.need_fn(SWAPFN)
    run.touch(fn)
    loop_calls = [bi for bi, t in fn.calls() if (callee_path(t) or "").endswith(("compute_swap", "get_next_initialized_tick_index"))]
    for ab in (False, True):
        m = SL.SwapModel(facts, {"a_to_b": ab})
        lim = m.var("limit")
        defs = m.defs(lim)
        consts = {const_val(t) for (_, _, t) in defs if const_val(t) is not None}
        params = [t for (_, _, t) in defs if is_param(t, "sqrt_price_limit")]
        want = 4295048016 if ab else 79226673515401279992447579055
        run.check("R3", "default-limit[a_to_b=%d]" % ab, consts == {want} and len(params) == 1,
                  "default price limit for a_to_b=%s is %s, expected %s" % (ab, sorted(consts), "MIN_SQRT_PRICE_X64" if ab else "MAX_SQRT_PRICE_X64"), loc=fn.loc(),
                  detail="limit in {sqrt_price_limit, %s}" % ("MIN" if ab else "MAX"))
        # default only when limit == NO_EXPLICIT_SQRT_PRICE_LIMIT (0)
        conds = ctx_fail_conditions(fn, {"a_to_b": ab}, cut=True)
        lo = hi = direction = zero = False
        for (op, a, b, at) in conds:
            codes = at.true_codes | at.false_codes
            for (o, x, y) in ((op, a, b), (A.SWAP[op], b, a)):
                if m.is_var(x, "limit"):
                    if o == "Lt" and const_val(y) == 4295048016 and codes == {"SqrtPriceOutOfBounds"}:
                        lo = True
                    if o == "Gt" and const_val(y) == 79226673515401279992447579055 and codes == {"SqrtPriceOutOfBounds"}:
                        hi = True
                    if is_field(y, "sqrt_price") and codes == {"InvalidSqrtPriceLimitDirection"} and o == ("Ge" if ab else "Le"):
                        direction = True
                if is_param(x, "amount") and o == "Eq" and const_val(y) == 0 and codes == {"ZeroTradableAmount"}:
                    zero = True
            if lo and hi and direction and zero:
                pass
        for name, val, msg in (("limit-lower", lo, "limit < MIN_SQRT_PRICE_X64 is not rejected with SqrtPriceOutOfBounds"),
                               ("limit-upper", hi, "limit > MAX_SQRT_PRICE_X64 is not rejected with SqrtPriceOutOfBounds"),
                               ("limit-direction", direction, "a limit %s the current price is not rejected with InvalidSqrtPriceLimitDirection" % (">=" if ab else "<=")),
                               ("zero-amount", zero, "amount == 0 is not rejected with ZeroTradableAmount")):
            run.check("R3", "%s[a_to_b=%d]" % (name, ab), val, "swap(a_to_b=%s): %s" % (ab, msg), loc=fn.loc(), detail=name)
        # all four dominate the loop
        ok = True
        for (op, a, b, at) in conds:
            codes = at.true_codes | at.false_codes
            if codes & {"SqrtPriceOutOfBounds", "InvalidSqrtPriceLimitDirection", "ZeroTradableAmount"}:
                if not effect_guarded(fn, {"a_to_b": ab}, at, loop_calls):
                    ok = False
        run.check("R3", "before-loop[a_to_b=%d]" % ab, ok and loop_calls, "a validation of swap() does not precede the swap loop", loc=fn.loc(), detail="validations dominate compute_swap")
    # default applies only for NO_EXPLICIT_SQRT_PRICE_LIMIT
    ok = False
    for at in A.atoms(fn):
        c = at.cond()
        if c and c[0] in ("Eq", "Ne") and (is_param(c[1], "sqrt_price_limit") or is_param(c[2], "sqrt_price_limit")):
            other = c[2] if is_param(c[1], "sqrt_price_limit") else c[1]
            if const_val(other) == 0:
                ok = True
    run.check("R3", "no-explicit-limit-sentinel", ok, "the default limit is not selected by sqrt_price_limit == NO_EXPLICIT_SQRT_PRICE_LIMIT (0)", loc=fn.loc(), detail="sqrt_price_limit == 0")


def R4b_loop_exits(run):
    run.title("R4b", "the swap loop ends successfully only through its own condition: the specified amount is used up, or the price has reached the (explicit or protocol) "
                     "limit; every other way out is an error (a `break` on running out of tick arrays would settle a partial fill away from the limit)")
    facts = run.facts
    fn = facts.need_fn(SWAPFN)
    run.touch(fn)
    from analysis.prov import Prov
    pv = Prov(fn, cut="loop")
    cyc = pv.cycle_blocks()
    ats = {at.block: at for at in A.atoms(fn, {}, cut="loop")}
    exits, odd = 0, []
    for b in sorted(cyc):
        if fn.blocks[b]["c"]:
            continue
        for s_ in fn.succ()[b]:
            if s_ in cyc or fn.blocks[s_]["c"] or cfg.fail_only(fn, s_):
                continue
            exits += 1
            at = ats.get(b)
            c = at.cond() if at is not None else None
            good = False
            if c:
                x, y = strip(c[1]), strip(c[2])
                rem = any(t[0] == "var" and t[1] == "amount_remaining" for t in (x, y)) and any(const_val(t) == 0 for t in (x, y)) and c[0] in ("Gt", "Ne", "Eq", "Le", "Lt")
                lim = c[0] in ("Ne", "Eq") and any(t[0] == "var" and "sqrt_price" in t[1] for t in (x, y)) and \
                    any(mentions(t, lambda z: (z[0] == "param" and z[1] == "sqrt_price_limit") or (z[0] == "const" and z[2] and z[2].endswith(("MIN_SQRT_PRICE_X64", "MAX_SQRT_PRICE_X64")))) for t in (x, y))
                good = rem or lim
            if not good:
                odd.append("block %d (%s)" % (b, sh(at.term, 60) if at is not None else fn.blocks[b]["t"]["k"]))
    run.check("R4b", "loop-exits", exits >= 2 and not odd, "swap() leaves its loop without failing at %s; only `amount_remaining > 0` and `price != limit` may end it" % (odd or "no recognisable exit"),
              loc=fn.loc(), detail="%d exits, all through amount_remaining > 0 / sqrt_price != limit" % exits)


def R4_partial_fill(run):
    run.title("R4", "exact-out with no explicit limit and amount remaining > 0 fails with PartialFillError before Ok")
    facts = run.facts
    fn = facts.need_fn(SWAPFN)
    for ab in (False, True):
        ctx = {"amount_specified_is_input": False, "a_to_b": ab}
        m = SL.SwapModel(facts, ctx)
        conds = [c for c in ctx_fail_conditions(fn, ctx, codes=("PartialFillError",))]
        # the conjunction is lowered to nested switches: collect the comparison atoms whose failing side is PartialFillError
        have_rem = have_lim = False
        for at in A.atoms(fn, ctx, cut=True):
            c = at.cond()
            codes = at.true_codes | at.false_codes
            if c is None:
                continue
            op, a, b = c
            for (o, x, y) in ((op, a, b), (A.SWAP[op], b, a)):
                if m.is_var(x, "remaining") and o == "Gt" and const_val(y) == 0:
                    # true side must be able to reach the PartialFillError construction
                    r = cfg.reach(fn, at.true_targets[0])
                    if any("PartialFillError" in cfg.block_error_codes(fn, bb) for bb in r):
                        have_rem = True
                if is_param(x, "sqrt_price_limit") and o == "Eq" and const_val(y) == 0 and "PartialFillError" in at.true_codes:
                    have_lim = True
        run.check("R4", "partial-fill[a_to_b=%d]" % ab, have_rem and have_lim,
                  "exact-out partial fill without explicit limit is not rejected (remaining>0 test: %s, limit==0 test: %s)" % (have_rem, have_lim), loc=fn.loc(),
                  detail="amount_remaining > 0 && sqrt_price_limit == 0 => PartialFillError")
        # unreachable in exact-in
        ctx2 = {"amount_specified_is_input": True, "a_to_b": ab}
        fl = preach.flow(fn, ctx2)
        errb = [bi for bi in range(len(fn.blocks)) if "PartialFillError" in cfg.block_error_codes(fn, bi)]
        run.check("R4", "exact-in-never-partial-fill-error[a_to_b=%d]" % ab, errb and not any(fl.state_in[b] is not None for b in errb),
                  "PartialFillError is reachable for exact-in swaps", loc=fn.loc(), detail="unreachable when exact_in")
    # every Ok return is after the check: the check block dominates the PostSwapUpdate construction
    fn = facts.need_fn(SWAPFN)


def R5_target_clamp(run):
    run.title("R5", "get_next_sqrt_prices: the step target is max(limit, tick price) when a_to_b, min(limit, tick price) otherwise; the tick price is returned unchanged")
    facts = run.facts
    # (the private helper get_next_sqrt_prices is always analysed inlined into the swap loop: analysis/canon.py ALWAYS_INLINE)
    fn = facts.need_fn(SWAPFN)
    run.touch(fn)
    for ab in (False, True):
        m = SL.SwapModel(facts, {"a_to_b": ab})
        bnd = calls_to(fn, ends("get_bounded_sqrt_price_target"), ctx={"a_to_b": ab}, cut=True)
        ok = len(bnd) == 1
        found = None
        if ok:
            tgt = strip(bnd[0][2][1])
            if tgt[0] == "var":
                ds = [t for (_, _, t) in m.pv.var_defs(tgt[2])]
                tgt = strip(ds[0]) if len(ds) == 1 else tgt
            found = sh(tgt, 120)
            is_tp = lambda t: is_call(t, "sqrt_price_from_tick_index")
            ok = tgt[0] == "call" and tgt[1].endswith("::max" if ab else "::min") and len(tgt[2]) == 2
            if ok:
                x, y = tgt[2]
                ok = (m.is_var(x, "limit") and is_tp(y)) or (m.is_var(y, "limit") and is_tp(x))
        run.check("R5", "clamp[a_to_b=%d]" % ab, ok, "step target for a_to_b=%s is not %s(limit, tick price)" % (ab, "max" if ab else "min"), loc=fn.loc(),
                  found=found, detail="(tick_price, %s(limit, tick_price))" % ("max" if ab else "min"))
    # the loop uses them in that role
    sw = facts.need_fn(SWAPFN)
    pv = prov_of(sw, {}, cut="all")
    ok = False
    for (bi, t, args) in calls_to(sw, ends("compute_swap"), ctx={}, cut="all"):
        tgt = strip(args[4])
        # bounded target derives from get_next_sqrt_prices(..).1 through the fee-rate manager
        def derives(t_, depth=0):
            # through named temporaries (a helper spliced in hands the value on through its own locals)
            if mentions(t_, lambda s: s[0] == "call" and s[1].endswith("get_bounded_sqrt_price_target")):
                return True
            if depth < 3:
                for s_ in subterms(t_):
                    if s_[0] == "var":
                        ds = pv.var_defs(s_[2])
                        if 1 <= len(ds) <= 2 and all(derives(d[2], depth + 1) for d in ds):
                            return True
            return False
        l = tgt[2] if tgt[0] == "var" else None
        if l is not None:
            ds0 = pv.var_defs(l)
            ok = bool(ds0) and all(derives(term) for (_, _, term) in ds0)
    run.check("R5", "target-used", ok, "compute_swap's target price does not come from get_bounded_sqrt_price_target(step target)", loc=sw.loc(),
              detail="compute_swap(.., bounded target, ..)")


def R6_amount_accounting(run):
    run.title("R6", "loop accounting: remaining -= amount_in + fee (exact-in) / amount_out (exact-out) and calculated += the other side, all through "
                    "checked ops whose None is an error; (amount_a, amount_b) = (amount - remaining, calculated) iff a_to_b == exact_in")
    facts = run.facts
    fn = facts.need_fn(SWAPFN)
    for ctx in SL.contexts():
        ei, ab = ctx["amount_specified_is_input"], ctx["a_to_b"]
        m = SL.SwapModel(facts, ctx)
        tag = "[exact_in=%d,a_to_b=%d]" % (ei, ab)
        # remaining
        def chain(t, op, role):
            """A definition var := ((var op X)? op Y)? ... : the fields X, Y, .. applied, or None unless every link is
            `checked_<op>(..).ok_or(..)?` (None is an error) and the chain starts at the role variable itself."""
            out_ = []
            first = True
            for _ in range(4):
                if t[0] != "q":
                    return None
                s = strip(t)  # q(ok_or(checked_op(inner, X), Err)); inner links of an `and_then` chain share the outer ok_or
                if s[0] == "call" and s[1].endswith("ok_or") and is_call(s[2][0], op):
                    cs = strip(s[2][0])
                elif not first and is_call(s, op):
                    cs = s
                else:
                    return None
                first = False
                out_.append(strip(cs[2][1])[2] if strip(cs[2][1])[0] == "field" else "?")
                inner = cs[2][0]
                while inner[0] == "cast":
                    inner = inner[1]
                if m.is_var(inner, role):
                    return out_
                t = inner
            return None
        ups = [t for (_, _, t) in m.updates("remaining") if not is_param(t, "amount")]
        subs = []
        good = True
        for t in ups:
            c_ = chain(t, "checked_sub", "remaining")
            if c_ is None:
                good = False
                continue
            subs.extend(c_)
        want = ["amount_in", "fee_amount"] if ei else ["amount_out"]
        run.check("R6", "remaining" + tag, good and sorted(subs) == sorted(want),
                  "amount_remaining is decreased by %s, expected %s via checked_sub(..).ok_or(..)?" % (subs, want), loc=fn.loc(), detail="remaining -= %s (checked, `?`)" % "+".join(want))
        ups = [t for (_, _, t) in m.updates("calculated") if const_val(t) != 0]
        adds = []
        good = True
        for t in ups:
            c_ = chain(t, "checked_add", "calculated")
            if c_ is None:
                good = False
                continue
            adds.extend(c_)
        want = ["amount_out"] if ei else ["amount_in", "fee_amount"]
        run.check("R6", "calculated" + tag, good and sorted(adds) == sorted(want),
                  "amount_calculated is increased by %s, expected %s via checked_add(..).ok_or(..)?" % (adds, want), loc=fn.loc(), detail="calculated += %s (checked, `?`)" % "+".join(want))
        f = m.result_fields()
        spec, calc = ("amount_a", "amount_b") if ab == ei else ("amount_b", "amount_a")
        s = strip(f[spec])
        ok1 = s[0] == "bin" and s[1] == "Sub" and is_param(s[2], "amount") and m.is_var(s[3], "remaining")
        ok2 = m.is_var(f[calc], "calculated")
        run.check("R6", "result-amounts" + tag, ok1 and ok2, "PostSwapUpdate.%s / .%s are %s / %s, expected (amount - remaining) / calculated" % (spec, calc, sh(f[spec], 60), sh(f[calc], 60)),
                  loc=fn.loc(), detail="%s = amount - remaining; %s = calculated" % (spec, calc))
        # price/tick/liquidity results are the loop variables
        ok = m.is_var(f["next_sqrt_price"], "price") and m.is_var(f["next_tick_index"], "tick") and m.is_var(f["next_liquidity"], "liquidity")
        run.check("R6", "result-state" + tag, ok, "PostSwapUpdate price/tick/liquidity are not the loop's current values", loc=fn.loc(), detail="next_* = current loop state")
    # the steps are computed with the loop's current state
    for (bi, t, args) in calls_to(fn, ends("compute_swap"), ctx={}, cut=True):
        m = SL.SwapModel(facts, {})
        ok = m.is_var(args[0], "remaining") and m.is_var(args[2], "liquidity") and m.is_var(args[3], "price") and is_param(args[5], "amount_specified_is_input") and is_param(args[6], "a_to_b")
        # ... read as they are at this step, not from a copy taken earlier in the loop
        ok = ok and m.reads_now(bi, t["a"][0], "remaining") and m.reads_now(bi, t["a"][2], "liquidity") and m.reads_now(bi, t["a"][3], "price")
        run.check("R6", "step-inputs", ok, "compute_swap is not called with (remaining, rate, current liquidity, current price, target, exact_in, a_to_b): %s" % [sh(a, 40) for a in args],
                  loc=fn.loc(t["l"]), detail="compute_swap(remaining, rate, liquidity, price, target, exact_in, a_to_b)")
    # loop exit conditions
    m = SL.SwapModel(facts, {})
    conds = set()
    for at in A.atoms(fn, {}, cut=True):
        c = at.cond()
        if c is None:
            continue
        op, a, b = c
        for (o, x, y) in ((op, a, b), (A.SWAP[op], b, a)):
            if m.is_var(x, "remaining") and const_val(y) == 0:
                conds.add("remaining %s 0" % o)
            if m.is_var(x, "price") and m.is_var(y, "limit"):
                conds.add("price %s limit" % o)
            if m.is_var(y, "price") and m.is_var(x, "limit"):
                conds.add("price %s limit" % A.SWAP[o])
    run.check("R6", "loop-conditions", "remaining Gt 0" in conds and ("price Ne limit" in conds or "price Eq limit" in conds),
              "the swap loop no longer runs while amount_remaining > 0 && price != limit (found %s)" % sorted(conds), loc=fn.loc(), detail=", ".join(sorted(conds)))


def R7_amount_and_limit_wiring(run):
    run.title("R7", "the trader's amount and per-pool price limit reach the engine unchanged: v2 exact-in charges `amount` when fully used else the transfer-fee-included swap input "
                    "on the input mint (C16.R1 instances); each two-hop leg runs with its own pool, limit, direction and oracle state (C17.R1 instances)")
    from rules.common import RuleProxy
    from rules import C16, C17
    C16.R1_swap_wiring(RuleProxy(run, "R7"))
    C17.R1_legs(RuleProxy(run, "R7"))
    from rules.common import entry_forwarding
    entry_forwarding(run, "R7", only=("swap",))


RULES = [R1_threshold_table, R3_limit_validation, R4_partial_fill, R4b_loop_exits, R5_target_clamp, R6_amount_accounting, R7_amount_and_limit_wiring]
