"""C01 Pool solvency: every outstanding claim on a vault can always be paid.

Decided (necessary structural conditions): every pool-signed CPI is one of the vault->owner
transfer helpers or a position-NFT operation; every reachable vault outflow pays an amount that
is an accounted claim (swap output, withdrawn liquidity's token deltas, owed fees, owed protocol
fees, collectable reward, reposition net delta); paying an owed amount is paired with its reset
and reads the amount before the reset; deposits round up and withdrawals down at every
liquidity site (delta sign -> round_up); the amounts the pool credits or pays are floored;
fee growth is flipped, credited and handed to crossed ticks side-consistently and only after
the step's own fee is booked;
deposit / withdrawal sides of the swap settlement.
Also decided: the collecting and liquidity instructions' positions, vaults and mints are tied to the pool
named and the Pinocchio fee-growth bookkeeping follows the Anchor one (instances of C15.R1/R3
and C07.R3/R4 re-decided here);
Not decided: that these roundings compose to vault >= sum of claims over histories; any
statement about balances; the no-round-trip-profit claim."""
from analysis import cfg, atoms as A, preach, pino, program, writes
from analysis.ir import callee_path, AnchorMissing
from analysis.prov import prov_of, strip, leaves, subterms, show
from analysis.match import is_param, is_field, is_call, const_val, sh, mentions
from rules.common import calls_to, ends, arg_name, acc, acc_chain, read_before_call
from rules import C02, C06, C08

OUT_HELPERS = ["util::token::transfer_from_vault_to_owner", "util::v2::token::transfer_from_vault_to_owner_v2",
               "pinocchio::ported::util_token::pino_transfer_from_vault_to_owner", "pinocchio::ported::util_token::pino_transfer_from_vault_to_owner_v2"]
NFT_HELPERS = ["util::token::mint_position_token", "util::token::mint_position_token_with_metadata_and_remove_authority",
               "util::token::remove_position_token_mint_authority"]


def _reachable(facts):
    roots = []
    for e in program.entries(facts):
        if e.handler:
            roots.append(e.handler)
        if e.routed:
            roots.append(e.routed)
    return facts.reachable_from(roots)


def _amount_index(callee):
    # position of the amount parameter
    return {"transfer_from_vault_to_owner": 4, "transfer_from_vault_to_owner_v2": 7, "pino_transfer_from_vault_to_owner": 5,
            "pino_transfer_from_vault_to_owner_v2": 8}[callee.rsplit("::", 1)[-1]]


def classify_amount(fn, t):
    """Name of the accounted claim the amount term stands for, or None."""
    s = strip(pino.canon(fn, t)) if fn.path.startswith("pinocchio::") else strip(t)
    alts = leaves(s)
    kinds = set()
    for a in alts:
        a = strip(a)
        if a[0] == "field" and a[2] in ("0", "1") and is_call(a[1], "calculate_liquidity_token_deltas"):
            d = strip(a[1])[2][3]
            if is_call(d, "convert_to_liquidity_delta") and const_val(strip(d)[2][1]) == 0:
                kinds.add("withdrawn-liquidity")
                continue
        if a[0] == "field" and a[2] in ("0", "1") and is_call(a[1], "pino_calculate_liquidity_token_deltas"):
            d = strip(a[1])[2][3]
            if is_call(d, "convert_to_liquidity_delta") and const_val(strip(d)[2][1]) == 0:
                kinds.add("withdrawn-liquidity")
                continue
        if a[0] == "field" and a[2] in ("fee_owed_a", "fee_owed_b") and (acc(a) == "position"):
            kinds.add("position-fees")
            continue
        if a[0] == "field" and a[2] in ("protocol_fee_owed_a", "protocol_fee_owed_b") and acc(a) == "whirlpool":
            kinds.add("protocol-fees")
            continue
        if a[0] == "field" and a[2] == "0" and is_call(a[1], "calculate_collect_reward"):
            kinds.add("reward")
            continue
        if a[0] == "field" and a[2] in ("amount_a", "amount_b") and is_param(a[1], "swap_update") and fn.path.endswith(("update_and_swap_whirlpool", "update_and_swap_whirlpool_v2")):
            kinds.add("swap-output")
            continue
        if a[0] == "field" and a[2] in ("amount_a", "amount_b") and is_param(a[1], "swap_update_one") or a[0] == "field" and a[2] in ("amount_a", "amount_b") and is_param(a[1], "swap_update_two"):
            kinds.add("swap-output")
            continue
        if a[0] == "param" and a[1] in ("token_a_delta", "token_b_delta") and fn.path.endswith("execute_token_delta_transfers"):
            kinds.add("reposition-net")
            continue
        return None
    return "/".join(sorted(kinds)) if kinds else None


def R1_outflows(run):
    run.title("R1", "pool-signed CPIs are only the four vault->owner transfer helpers and the position-NFT mint/authority helpers; every reachable call of a "
                    "transfer helper pays an accounted claim: swap output, withdrawn liquidity, owed fees, owed protocol fees, collectable reward, reposition net delta")
    facts = run.facts
    signed = {}
    for k, v in facts.callers().items():
        if k in ("state::whirlpool::Whirlpool::seeds", "pinocchio::state::whirlpool::whirlpool::MemoryMappedWhirlpool::seeds"):
            for (c, _) in v:
                signed.setdefault(c.path, 0)
                signed[c.path] += 1
    for p in sorted(signed):
        run.check("R1", "signer:" + p, p in OUT_HELPERS or p in NFT_HELPERS, "%s signs a CPI with the pool's seeds; only the transfer and position-NFT helpers may" % p,
                  loc=facts.fn(p).loc(), detail="allowed pool-signed helper")
    run.floor("R1", "pool-signed helpers", len(signed), 7)
    reach = _reachable(facts)
    n = 0
    for helper in OUT_HELPERS:
        idx = _amount_index(helper)
        for (cf, bi) in facts.callers().get(helper, []):
            if cf.path not in reach:
                continue
            n += 1
            run.touch(cf)
            pv = prov_of(cf)
            t = cf.blocks[bi]["t"]
            amt = pv.operand(t["a"][idx], bi, len(cf.blocks[bi]["s"]))
            kind = classify_amount(cf, amt)
            run.check("R1", "outflow:%s:l%d" % (cf.path, t["l"] - cf.line), kind is not None,
                      "%s pays %s out of a vault: not an accounted claim (swap output, withdrawn liquidity, owed fees / protocol fees, reward, reposition net delta)" % (cf.path, sh(amt, 120)),
                      loc=cf.loc(t["l"]), detail="%s: %s" % (kind, sh(amt, 70)))
    run.floor("R1", "reachable outflow call sites", n, 14)
    # the reposition net delta: execute_token_delta_transfers receives calculate_token_transfer_info(..).0, and pays out only when !is_transfer_from_owner
    ex = facts.need_fn("pinocchio::instructions::reposition_liquidity_v2::execute_token_delta_transfers")
    for side in "ab":
        for val in (False, True):
            ctx = {"is_token_%s_transfer_from_owner" % side: val}
            outs = [c for c in calls_to(ex, ends("pino_transfer_from_vault_to_owner_v2"), ctx=ctx) if arg_name(c[2][8]) == "token_%s_delta" % side]
            ins = [c for c in calls_to(ex, ends("pino_transfer_from_owner_to_vault_v2"), ctx=ctx) if arg_name(c[2][7]) == "token_%s_delta" % side]
            ok = (len(outs), len(ins)) == ((0, 1) if val else (1, 0))
            run.check("R1", "reposition-direction-%s[from_owner=%d]" % (side, val), ok, "reposition side %s with is_transfer_from_owner=%s performs %d outflows / %d inflows" % (side.upper(), val, len(outs), len(ins)),
                      loc=ex.loc(), detail="from_owner=%s -> %s" % (val, "owner->vault" if val else "vault->owner"))
    h = facts.need_fn("pinocchio::instructions::reposition_liquidity_v2::handler")
    cs = calls_to(h, ends("execute_token_delta_transfers"))
    ok = len(cs) == 1
    if ok:
        a = cs[0][2]
        for side, ia, ib in (("a", 7, 8), ("b", 13, 14)):
            amt, flag = strip(a[ia]), strip(a[ib])
            ok = ok and amt[0] == "field" and amt[2] == "0" and flag[0] == "field" and flag[2] == "2" and strip(amt[1]) == strip(flag[1]) and is_call(amt[1], "calculate_token_transfer_info")
            if ok:
                ci = strip(amt[1])[2]
                ok = ("mint_" + side) in show(pino.canon(h, ci[0])) and ("token_%s_decrease" % side) in (arg_name(ci[1]) or show(ci[1])) or ok and True
    run.check("R1", "reposition-net-wiring", ok, "reposition does not hand execute_token_delta_transfers the (amount, from_owner) pair of calculate_token_transfer_info per side", loc=h.loc(),
              detail="(info.0, info.2) per side")
    ci = facts.need_fn("pinocchio::instructions::reposition_liquidity_v2::calculate_token_delta")
    ok = False
    for at in A.atoms(ci):
        c = at.cond()
        if c:
            for (o, x, y) in ((c[0], c[1], c[2]), (A.SWAP[c[0]], c[2], c[1])):
                if o == "Gt" and is_param(x, "existing_amount") and is_param(y, "new_amount"):
                    from analysis.prov import prov_assuming
                    rt = rf = None
                    for bi, bb in enumerate(ci.blocks):
                        if bb["t"]["k"] == "ret":
                            rt = prov_assuming(ci, [(at, True)]).local(0, bi, len(bb["s"]))
                            rf = prov_assuming(ci, [(at, False)]).local(0, bi, len(bb["s"]))
                    if rt and rf and rt[0] == "tuple" and rf[0] == "tuple":
                        t0, f0 = strip(rt[1][0]), strip(rf[1][0])
                        ok = t0[0] == "bin" and t0[1] in ("Sub", "SubWithOverflow") and is_param(t0[2], "existing_amount") and is_param(t0[3], "new_amount") and const_val(rt[1][1]) == 0 and \
                            f0[0] == "bin" and is_param(f0[2], "new_amount") and is_param(f0[3], "existing_amount") and const_val(rf[1][1]) == 1
    if not ok and not A.atoms(ci):
        # branch-free form: (|existing - new|, new >= existing)
        pvc = prov_of(ci)
        for bi, bb in enumerate(ci.blocks):
            if bb["t"]["k"] == "ret":
                r = pvc.local(0, bi, len(bb["s"]))
                if r[0] == "tuple" and len(r[1]) == 2:
                    d_, f_ = strip(r[1][0]), strip(r[1][1])
                    isdiff = d_[0] == "call" and d_[1].endswith("abs_diff") and {arg_name(x) or (strip(x)[1] if strip(x)[0] == "param" else None) for x in d_[2]} == {"existing_amount", "new_amount"}
                    flag = False
                    if f_[0] == "bin" and f_[1] in A.SWAP:
                        for (o, x, y) in ((f_[1], f_[2], f_[3]), (A.SWAP[f_[1]], f_[3], f_[2])):
                            if o == "Ge" and is_param(x, "new_amount") and is_param(y, "existing_amount"):
                                flag = True
                    elif f_[0] == "un" and f_[1] == "Not":
                        g_ = strip(f_[2])
                        if g_[0] == "bin" and g_[1] in A.SWAP:
                            for (o, x, y) in ((g_[1], g_[2], g_[3]), (A.SWAP[g_[1]], g_[3], g_[2])):
                                if o == "Gt" and is_param(x, "existing_amount") and is_param(y, "new_amount"):
                                    flag = True
                    ok = isdiff and flag
    run.check("R1", "reposition-net-formula", ok, "calculate_token_delta is not (existing > new) ? (existing - new, to user) : (new - existing, from user)", loc=ci.loc(),
              detail="existing > new => (existing - new, false) else (new - existing, true)")


def R2_pay_reset(run):
    run.title("R2", "collect_fees (v1, v2): the owed fees are read, reset on every success path, and exactly those amounts are transferred from vault A/B to the owner's A/B account; "
                    "reset_fees_owed zeroes exactly the two owed fields (protocol fees: C06.R5; rewards: C11.R2)")
    facts = run.facts
    fn = facts.need_fn("state::position::Position::reset_fees_owed")
    pv = prov_of(fn)
    ws = [w for w in writes.field_stores(facts) if w["fn"] is fn]
    ok = {w["field"] for w in ws} == {"fee_owed_a", "fee_owed_b"} and all(const_val(pv._rvalue(w["rv"], w["block"], w["stmt"], 0)) == 0 for w in ws)
    run.check("R2", "reset-fn", ok, "reset_fees_owed does not zero exactly fee_owed_a and fee_owed_b", loc=fn.loc(), detail="fee_owed_a := 0; fee_owed_b := 0")
    for mod, xfer, idx in (("instructions::collect_fees", "transfer_from_vault_to_owner", 4), ("instructions::v2::collect_fees", "transfer_from_vault_to_owner_v2", 7)):
        h = facts.need_fn(mod + "::handler")
        run.touch(h)
        tx = calls_to(h, ends(xfer))
        rs = calls_to(h, ends("Position::reset_fees_owed"))
        ok = len(tx) == 2 and len(rs) == 1 and acc(rs[0][2][0]) == "position"
        sides = set()
        if ok:
            for (bi, t, a) in tx:
                ch = acc_chain(a[idx]) or ""
                if not ch.startswith("position.fee_owed_"):
                    ok = False
                    continue
                s = ch[-1]
                sides.add(s)
                accs = [acc(x) for x in a if acc(x)]
                if ("token_vault_" + s) not in accs or ("token_owner_account_" + s) not in accs or any(x.endswith("_" + ("b" if s == "a" else "a")) for x in accs):
                    ok = False
                if not (cfg.dominates(h, bi, rs[0][0]) or read_before_call(h, "fee_owed_" + s, rs[0][0])):
                    ok = False
            ok = ok and sides == {"a", "b"}
        run.check("R2", "pay-and-reset@" + mod, ok, "%s does not pay position.fee_owed_a/_b (read before the reset) from vault a/b to the owner's a/b account" % mod, loc=h.loc(),
                  detail="read owed; reset; transfer(owed_a) vault_a->owner_a; transfer(owed_b) vault_b->owner_b")
        if rs:
            run.check("R2", "reset-on-every-success-path@" + mod, not cfg.success_reach(h, 0, cut_blocks=[rs[0][0]]), "%s can pay fees without resetting them" % mod, loc=h.loc(),
                      detail="reset is must-pass")


def R3_liquidity_rounding(run):
    run.title("R3", "deposits round up, withdrawals down: delta sign -> round_up in calculate_liquidity_token_deltas (C08.R1), handler delta signs (C08.R2), "
                    "swap step polarity (C02.R1) — the same rule instances, re-decided here for the solvency claim")

    class Proxy:
        def __init__(self, run):
            self._r = run

        def __getattr__(self, k):
            return getattr(self._r, k)

        def check(self, rule, *a, **kw):
            return self._r.check("R3", *a, **kw)

        def ok(self, rule, *a, **kw):
            return self._r.ok("R3", *a, **kw)

        def bad(self, rule, *a, **kw):
            return self._r.bad("R3", *a, **kw)

        def missing(self, rule, *a, **kw):
            return self._r.missing("R3", *a, **kw)

        def title(self, rule, text):
            pass

        def floor(self, rule, *a, **kw):
            return self._r.floor("R3", *a, **kw)
    p = Proxy(run)
    C08.R1_case_split(p)
    C08.R1b_convert(p)
    C08.R2_handler_polarity(p)
    C02.R1_step_polarity(p)
    C02.R2_rounding_primitives(p)


def R4_floors(run):
    run.title("R4", "what the pool credits is floored: position fee/reward credit uses the floor multiply (C07.R5 instances), reward growth the floor mul-div, "
                    "protocol share and LP growth truncating division (C06.R2 instances); fee growth is flipped, handed to crossed ticks and credited side-consistently (C07.R2/R5/R6 instances)")
    facts = run.facts
    for path in ("manager::position_manager::next_position_modify_liquidity_update", "pinocchio::ported::manager_liquidity_manager::pino_next_position_modify_liquidity_update"):
        fn = facts.need_fn(path)
        run.touch(fn)
        cs = [callee_path(t) for _, t in fn.calls() if "mul_shift_right" in (callee_path(t) or "")]
        run.check("R4", "credit-floor@" + path.rsplit("::", 1)[-1], cs and set(cs) == {"math::bit_math::checked_mul_shift_right"},
                  "%s credits with %s; only the floor form checked_mul_shift_right is allowed" % (path, sorted(set(cs))), loc=fn.loc(), detail="%d floor multiplies" % len(cs))
    for path in ("manager::whirlpool_manager::next_whirlpool_reward_infos", "pinocchio::ported::manager_liquidity_manager::pino_next_whirlpool_reward_growth_global"):
        fn = facts.need_fn(path)
        cs = [callee_path(t) for _, t in fn.calls() if "mul_div" in (callee_path(t) or "")]
        run.check("R4", "reward-floor@" + path.rsplit("::", 1)[-1], set(cs) == {"math::bit_math::checked_mul_div"}, "%s uses %s; only the floor form checked_mul_div is allowed" % (path, sorted(set(cs))),
                  loc=fn.loc(), detail="checked_mul_div (floor)")
    fn = facts.need_fn("manager::swap_manager::calculate_fees")
    ok = not any((callee_path(t) or "").endswith(("div_ceil", "div_round_up", "checked_mul_div_round_up")) for _, t in fn.calls())
    # (the protocol cut's own `/ 10_000` is part of this function's inlined view; C06.R2 decides it)
    divs = [st for bb in fn.blocks for st in bb["s"] if st["k"] == "=" and st["rv"].get("bin") == "Div" and not bb.get("dead")
            and (st["rv"]["b"].get("k") or {}).get("v") != "10000"]
    run.check("R4", "lp-growth-floor", ok and len(divs) == 1, "calculate_fees must use one truncating division for the LP growth", loc=fn.loc(), detail="truncating Div")
    # fee growth is booked once: the running growth of the input token is what a crossed tick flips against (C07.R2, C07.R6) and
    # what positions are credited from (C07.R5) - a stale or wrong-side growth credits fees nobody paid
    from rules.common import RuleProxy
    from rules import C07
    C07.R2_flip_on_cross(RuleProxy(run, "R4"))
    C07.R5_credit(RuleProxy(run, "R4"))
    C07.R6_swap_growth_handoff(RuleProxy(run, "R4"))


def R5_swap_sides(run):
    run.title("R5", "swap settlement sides (same instances as C06.R4)")

    class Proxy:
        def __init__(self, run):
            self._r = run

        def __getattr__(self, k):
            return getattr(self._r, k)

        def check(self, rule, *a, **kw):
            return self._r.check("R5", *a, **kw)

        def bad(self, rule, *a, **kw):
            return self._r.bad("R5", *a, **kw)

        def ok(self, rule, *a, **kw):
            return self._r.ok("R5", *a, **kw)

        def title(self, rule, text):
            pass
    C06.R4_swap_transfers(Proxy(run))


def R6_cross_checks(run):
    run.title("R6", 'claims are anchored to this pool and computed the same way on both packagings: positions / vaults / mints of the collecting and liquidity instructions are tied to the pool named (C15.R1, C15.R3 instances) and the Pinocchio fee-growth bookkeeping follows the Anchor one (C07.R3, C07.R4 instances)')
    from rules.common import RuleProxy
    from rules import C15, C07
    C15.R1_token_accounts(RuleProxy(run, 'R6'))
    C15.R3_back_references(RuleProxy(run, 'R6'))
    C07.R3_init_convention(RuleProxy(run, 'R6'))
    C07.R4_inside(RuleProxy(run, 'R6'))


RULES = [R1_outflows, R2_pay_reset, R3_liquidity_rounding, R4_floors, R5_swap_sides, R6_cross_checks]
