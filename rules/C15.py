"""C15 Instructions act only on accounts that belong to the pool they name.

Decided structurally: every token-account / mint / token-program field of every
instruction's accounts struct is classified by role and carries the constraint that ties
it to the pool (vault of that side, mint of that side, owner of that mint, reward vault of
that index, leg of a two-hop); positions, lock configs and bundled positions are tied
back to their pool / position; tick arrays reach the code only through the loaders with
this pool's key, whose success is dominated by owner, length, discriminator and pool-key
checks; oracles are bound by seeds and the accessor's checks; every unchecked account is
accounted for by a verified mechanism; the Pinocchio handlers perform every constraint of
the Anchor struct they replace, before the first effect; remaining-account slices are
routed to the field of their own type.
Also decided: both TickArraysMut::load wrappers propagate loader errors and skip the upper array only for the
same account;
Also decided: every `#[instruction(..)]` list agrees position by position (names and types) with the entry's arguments.
Also decided: the Pinocchio verify_address helper refuses exactly when its two whole keys differ.
Not decided: the run-time behaviour of the Anchor / SPL checks themselves."""
import re
from analysis import cfg, atoms as A, preach, pino, program, accounts as ACC, writes
from analysis.ir import callee_path, AnchorMissing
from analysis.prov import prov_of, strip, leaves, subterms, show, field_chain
from analysis.match import is_param, is_field, is_call, const_val, sh, mentions, fail_conditions
from rules.common import calls_to, ends, arg_name, acc, acc_chain

IDX = r"reward_infos\[reward_indexasusize\]"
# token-account roles: (regex on field name) -> list of acceptable constraint templates (normalised, {f} = field, groups \1..)
TOKEN_ACCOUNT_ROLES = [
    (r"^token_vault_([ab])$", ["address=whirlpool.token_vault_\\1", "constraint={f}.key()==whirlpool.token_vault_\\1", "INIT-VAULT:token_mint_\\1"]),
    (r"^token_vault_(one|two)_([ab])$", ["address=whirlpool_\\1.token_vault_\\2"]),
    (r"^token_vault_one_input$", ["address=whirlpool_one.input_token_vault(a_to_b_one)"]),
    (r"^token_vault_one_intermediate$", ["address=whirlpool_one.output_token_vault(a_to_b_one)"]),
    (r"^token_vault_two_intermediate$", ["address=whirlpool_two.input_token_vault(a_to_b_two)"]),
    (r"^token_vault_two_output$", ["address=whirlpool_two.output_token_vault(a_to_b_two)"]),
    (r"^reward_vault$", ["address=whirlpool.%s.vault" % IDX.replace("\\", ""), "INIT-VAULT:reward_mint"]),
    (r"^token_owner_account_([ab])$", ["constraint={f}.mint==whirlpool.token_mint_\\1"]),
    (r"^token_owner_account_(one|two)_([ab])$", ["constraint={f}.mint==whirlpool_\\1.token_mint_\\2"]),
    (r"^token_destination_([ab])$", ["constraint={f}.mint==whirlpool.token_mint_\\1"]),
    (r"^token_owner_account_(input|output)$", ["constraint={f}.mint==token_mint_\\1.key()"]),
    (r"^reward_owner_account$", ["constraint={f}.mint==whirlpool.%s.mint" % IDX.replace("\\", "")]),
    (r"^position_token_account$", ["constraint={f}.mint==position.position_mint", "INIT"]),
    (r"^destination_token_account$", ["constraint={f}.mint==position.position_mint"]),
    (r"^position_bundle_token_account$", ["constraint={f}.mint==position_bundle.position_bundle_mint", "INIT"]),
]
MINT_ROLES = [
    (r"^token_mint_([ab])$", ["address=whirlpool.token_mint_\\1", "POOL-INIT"]),
    (r"^token_mint_input$", ["address=whirlpool_one.input_token_mint(a_to_b_one)"]),
    (r"^token_mint_intermediate$", ["address=whirlpool_one.output_token_mint(a_to_b_one)"]),
    (r"^token_mint_output$", ["address=whirlpool_two.output_token_mint(a_to_b_two)"]),
    (r"^reward_mint$", ["address=whirlpool.%s.mint" % IDX.replace("\\", ""), "REWARD-INIT"]),
    (r"^position_mint$", ["address=position.position_mint", "INIT", "INIT-SIGNER"]),
    (r"^position_bundle_mint$", ["address=position_bundle.position_bundle_mint", "INIT", "INIT-SIGNER"]),
    (r"^token_mint$", ["BADGE-SEEDS", "BADGE-HAS-ONE"]),
]
PROGRAM_ROLES = [
    (r"^token_program_([ab])$", "Interface<TokenInterface>", ["address=*token_mint_\\1.to_account_info().owner"]),
    (r"^token_program_(input|intermediate|output)$", "Interface<TokenInterface>", ["address=*token_mint_\\1.to_account_info().owner"]),
    (r"^reward_token_program$", "Interface<TokenInterface>", ["address=*reward_mint.to_account_info().owner"]),
    (r"^token_program$", "Program<Token>", ["address=token::ID"]),
    (r"^token_2022_program$", "Program<Token2022>", ["address=token_2022::ID|address=spl_token_2022::ID"]),
    (r"^memo_program$", "Program<Memo>", []),
    (r"^system_program$", "Program<System>", []),
    (r"^associated_token_program$", "Program<AssociatedToken>", []),
    (r"^metadata_program$", "Program<Metadata>", []),
]


def _entry_structs(facts):
    structs = ACC.load(facts)
    out = []
    for e in program.entries(facts):
        st = structs.get(e.ctx_struct)
        if st is not None and st not in [x for x, _ in out]:
            out.append((st, e))
    return out


def _cons_strings(f):
    out = set()
    for c in f.cons:
        if c["expr"] is not None:
            out.add("%s=%s" % (c["key"], c["expr"]))
        else:
            out.add(c["key"])
    return out


def R1_token_accounts(run):
    run.title("R1", "every TokenAccount / Mint / token-program field of every instruction struct is classified by role and carries the constraint tying it to the "
                    "pool named in the same struct (vault / mint of its own side, reward vault of that index, two-hop leg), with the account type Anchor checks")
    facts = run.facts
    n = 0
    for st, e in _entry_structs(facts):
        for f in st.fields:
            role_tables = None
            if f.inner in ("TokenAccount", "TokenAccountInterface") and f.kind in ("Account", "InterfaceAccount"):
                role_tables = ("token-account", TOKEN_ACCOUNT_ROLES)
            elif f.inner == "Mint" and f.kind in ("Account", "InterfaceAccount"):
                role_tables = ("mint", MINT_ROLES)
            elif f.kind in ("Program", "Interface"):
                role_tables = ("program", None)
            if role_tables is None:
                continue
            n += 1
            inst = "%s.%s" % (st.name, f.name)
            cons = _cons_strings(f)
            if role_tables[0] == "program":
                hit = None
                for (rx, ty, need) in PROGRAM_ROLES:
                    m = re.match(rx, f.name)
                    if m:
                        hit = (m, ty, need)
                if hit is None:
                    run.bad("R1", inst, "program account `%s` of %s has no classified role" % (f.name, st.name), loc=st.loc(f.name))
                    continue
                m, ty, need = hit
                ok = f.ty == ty and all(any(ACC.canon_cons(alt) in cons for alt in m.expand(x).split("|")) for x in need)
                run.check("R1", inst, ok, "%s.%s must be %s with %s (is %s with %s)" % (st.name, f.name, ty, [m.expand(x) for x in need], f.ty, sorted(cons)), loc=st.loc(f.name),
                          detail="%s %s" % (ty, " ".join(m.expand(x) for x in need)))
                continue
            hit = None
            for (rx, templates) in role_tables[1]:
                m = re.match(rx, f.name)
                if m:
                    hit = (m, templates)
                    break
            if hit is None:
                run.bad("R1", inst, "%s field `%s` of %s has no classified role: nothing ties it to the pool" % (role_tables[0], f.name, st.name), loc=st.loc(f.name))
                continue
            m, templates = hit
            ok = False
            chosen = None
            for tpl in templates:
                if tpl == "INIT":
                    if f.has_flag("init"):
                        ok, chosen = True, "created by this instruction (init)"
                elif tpl.startswith("INIT-VAULT:"):
                    mint = m.expand(tpl.split(":", 1)[1])
                    if f.has_flag("init") and "token::authority=whirlpool" in cons and ("token::mint=" + mint) in cons:
                        ok, chosen = True, "vault created here: token::mint = %s, token::authority = whirlpool" % mint
                elif tpl == "BADGE-HAS-ONE":
                    badge = [x for x in st.fields if x.name == "token_badge"]
                    if badge and "token_mint" in badge[0].values("has_one"):
                        ok, chosen = True, "token_badge has_one = token_mint"
                elif tpl == "POOL-INIT":
                    if any(x.inner == "Whirlpool" and x.has_flag("init") for x in st.fields):
                        ok, chosen = True, "pool is created from this mint (canonical order and mint admission: C19)"
                elif tpl == "REWARD-INIT":
                    if e.name.startswith("initialize_reward"):
                        ok, chosen = True, "reward is initialised with this mint (admission: C19.R5)"
                elif tpl == "BADGE-SEEDS":
                    badge = [x for x in st.fields if x.name == "token_badge"]
                    if badge and any("token_mint.key()" in (v or "") for v in badge[0].values("seeds")):
                        ok, chosen = True, "badge PDA seeds contain this mint"
                else:
                    want = ACC.canon_cons(m.expand(tpl).replace("{f}", f.name))
                    if want in cons:
                        ok, chosen = True, want
            run.check("R1", inst, ok, "%s.%s (%s) is not tied to the pool: has %s, expected one of %s" % (
                st.name, f.name, role_tables[0], sorted(cons), [m.expand(t).replace("{f}", f.name) for t in templates]), loc=st.loc(f.name), detail=chosen)
    # Signer-typed vault / mint fields (created in the handler) only in init instructions
    for st, e in _entry_structs(facts):
        for f in st.fields:
            if f.kind == "Signer" and re.match(r"^(token_vault_[ab]|reward_vault|position_mint|position_bundle_mint)$", f.name):
                ok = e.name.startswith(("initialize_", "open_"))
                run.check("R1", "%s.%s" % (st.name, f.name), ok, "%s.%s is a bare Signer outside an initialising instruction" % (st.name, f.name), loc=st.loc(f.name),
                          detail="fresh keypair account created by this instruction")
                n += 1
    run.floor("R1", "classified token/mint/program fields", n, 185)
    # the direction helpers of Whirlpool pick the right side
    for name, want in (("input_token_mint", ("token_mint_a", "token_mint_b")), ("output_token_mint", ("token_mint_b", "token_mint_a")),
                       ("input_token_vault", ("token_vault_a", "token_vault_b")), ("output_token_vault", ("token_vault_b", "token_vault_a"))):
        fn = facts.need_fn("state::whirlpool::Whirlpool::" + name)
        run.touch(fn)
        for ab in (True, False):
            pv = prov_of(fn, {"a_to_b": ab})
            r = None
            for bi, bb in enumerate(fn.blocks):
                if bb["t"]["k"] == "ret" and pv.flow.state_in[bi] is not None:
                    r = pv.local(0, bi, len(bb["s"]))
            w = want[0] if ab else want[1]
            run.check("R1", "%s[a_to_b=%d]" % (name, ab), r is not None and is_field(r, w) and is_param(strip(r)[1], "self"), "Whirlpool::%s(a_to_b=%s) returns %s, expected self.%s" % (name, ab, sh(r, 40) if r else None, w),
                      loc=fn.loc(), detail="self." + w)


def R3_back_references(run):
    run.title("R3", "positions used with a pool are tied to it (has_one = whirlpool); lock configs to their position; bundled positions to their bundle by seeds; "
                    "oracles by seeds [b\"oracle\", pool key]; tick-array PDAs by seeds with the pool key")
    facts = run.facts
    n = 0
    for st, e in _entry_structs(facts):
        pools = [f.name for f in st.fields if f.inner == "Whirlpool"]
        for f in st.fields:
            cons = _cons_strings(f)
            if f.inner == "Position" and pools and not f.has_flag("init"):
                n += 1
                ok = "has_one=whirlpool" in cons and "whirlpool" in pools
                run.check("R3", "position:%s.%s" % (st.name, f.name), ok, "%s.%s is used together with a pool but lacks has_one = whirlpool (has %s)" % (st.name, f.name, sorted(cons)), loc=st.loc(f.name),
                          detail="has_one = whirlpool")
            if f.inner == "LockConfig" and not f.has_flag("init"):
                n += 1
                run.check("R3", "lock_config:%s" % st.name, "has_one=position" in cons, "%s.lock_config lacks has_one = position" % st.name, loc=st.loc(f.name), detail="has_one = position")
            if f.inner == "LockConfig" and f.has_flag("init"):
                n += 1
                ok = any("b\"lock_config\"" in (v or "") and "position.key()" in (v or "") for v in f.values("seeds"))
                run.check("R3", "lock_config-seeds:%s" % st.name, ok, "%s.lock_config is not the PDA of this position" % st.name, loc=st.loc(f.name), detail="seeds = [lock_config, position.key()]")
            if f.name == "bundled_position":
                n += 1
                ok = any("b\"bundled_position\"" in (v or "") and "position_bundle.position_bundle_mint.key()" in (v or "") and "bundle_index" in (v or "") for v in f.values("seeds"))
                run.check("R3", "bundled-position-seeds:%s" % st.name, ok, "%s.bundled_position is not bound by seeds to (bundle mint, bundle_index)" % st.name, loc=st.loc(f.name),
                          detail="seeds = [bundled_position, bundle mint, index]")
            m = re.match(r"^oracle(_one|_two)?$", f.name)
            if m and f.kind in ("UncheckedAccount", "AccountLoader"):
                n += 1
                pool = "whirlpool" + (m.group(1) or "")
                ok = any(("b\"oracle\"" in (v or "")) and ("%s.key()" % pool) in (v or "") for v in f.values("seeds")) or ("has_one=whirlpool" in cons)
                run.check("R3", "oracle:%s.%s" % (st.name, f.name), ok, "%s.%s is not bound to %s by seeds / has_one (has %s)" % (st.name, f.name, pool, sorted(cons)), loc=st.loc(f.name),
                          detail="seeds = [oracle, %s.key()]" % pool)
            if f.name == "tick_array" and f.kind in ("UncheckedAccount", "AccountLoader"):
                n += 1
                ok = any("b\"tick_array\"" in (v or "") and "whirlpool.key()" in (v or "") and "start_tick_index" in (v or "") for v in f.values("seeds"))
                run.check("R3", "tick-array-pda:%s" % st.name, ok, "%s.tick_array is not the PDA of (pool, start_tick_index)" % st.name, loc=st.loc(f.name), detail="seeds = [tick_array, pool, start index]")
            if f.inner in ("FeeTier", "AdaptiveFeeTier") and not f.has_flag("init") and any(x.inner == "WhirlpoolsConfig" for x in st.fields) and any(x.inner == "Whirlpool" and x.has_flag("init") for x in st.fields):
                n += 1
                run.check("R3", "tier-config:%s.%s" % (st.name, f.name), "has_one=whirlpools_config" in cons, "%s.%s is not tied to the config the pool is created under" % (st.name, f.name),
                          loc=st.loc(f.name), detail="has_one = whirlpools_config")
    run.floor("R3", "back-reference constraints", n, 25)


def _loader_checks(run, rule, fn, pool_param="whirlpool", pinocchio_=False):
    """owner == program, len >= 8, discriminator in {fixed, dynamic}, array.whirlpool == expected; each must be passed on every
    success path: with the continuing edges of all atoms of one kind cut, no success return remains reachable."""
    ats = A.atoms(fn)
    kinds = {"owner": [], "len": [], "pool": [], "writable": []}
    for at in ats:
        s = show(at.term, True)
        codes = at.true_codes | at.false_codes
        fails = at.true_fail != at.false_fail
        if not fails:
            continue
        if ("owner" in s or "is_owned_by" in s) and "AccountOwnedByWrongProgram" in codes:
            kinds["owner"].append(at)
        if "len" in s and "AccountDiscriminatorNotFound" in codes:
            for (op, a, b) in fail_conditions(at):
                for (o, x, y) in ((op, a, b), (A.SWAP[op], b, a)):
                    if o == "Lt" and const_val(y) == 8 and at not in kinds["len"]:
                        kinds["len"].append(at)
        if "whirlpool" in s and "DifferentWhirlpoolTickArrayAccount" in codes and mentions(at.term, lambda t: t[0] == "param" and t[1] == pool_param):
            kinds["pool"].append(at)
        if ("is_writable" in s) and "AccountNotMutable" in codes:
            kinds["writable"].append(at)
    found = {}
    for k, lst in kinds.items():
        if not lst:
            found[k] = False
            continue
        cut = set()
        for at in lst:
            for tgt in (at.false_targets if at.true_fail else at.true_targets):
                cut.add((at.block, tgt))
        found[k] = not cfg.success_reach(fn, 0, cut_edges=cut)
    return found


def R4_loaders_and_unchecked(run):
    run.title("R4", "tick-array loaders (Anchor and Pinocchio) succeed only after owner == program, length >= 8, discriminator in {fixed, dynamic}, stored pool key == "
                    "expected (+ writable for _mut); the oracle accessor checks owner, discriminator and pool; every UncheckedAccount of every instruction is consumed only by "
                    "its verified mechanism (loader / sequence builder with this pool, oracle accessor, badge check, rent receiver, new-authority key, metadata CPI, created here)")
    facts = run.facts
    for path, mut in (("state::tick_array::load_tick_array", False), ("state::tick_array::load_tick_array_mut", True),
                      ("pinocchio::state::whirlpool::tick_array::loader::load_tick_array", False), ("pinocchio::state::whirlpool::tick_array::loader::load_tick_array_mut", True)):
        fn = facts.need_fn(path)
        run.touch(fn)
        f = _loader_checks(run, "R4", fn)
        short = path.replace("state::", "").replace("pinocchio::whirlpool::", "pino::")
        for k in ("owner", "len", "pool") + (("writable",) if mut else ()):
            run.check("R4", "loader-%s@%s" % (k, path), f[k], "%s no longer fails on a wrong %s" % (path, {"owner": "owner program", "len": "data length (< 8)", "pool": "pool key stored in the array", "writable": "writability"}[k]),
                      loc=fn.loc(), detail=k + " check fails closed")
        # discriminator mismatch
        ok = any("AccountDiscriminatorMismatch" in cfg.block_error_codes(fn, b) for b in range(len(fn.blocks)))
        run.check("R4", "loader-discriminator@" + path, ok, "%s no longer rejects unknown discriminators" % path, loc=fn.loc(), detail="otherwise => AccountDiscriminatorMismatch")
    # Anchor loader discriminator comparison uses both Anchor discriminators
    for path in ("state::tick_array::load_tick_array", "state::tick_array::load_tick_array_mut"):
        fn = facts.need_fn(path)
        pv = prov_of(fn)
        ds = set()
        for bi, bb in enumerate(fn.blocks):
            t = bb["t"]
            if t["k"] == "call":
                for a in t["a"]:
                    for s in subterms(pv.operand(a, bi, len(bb["s"]))):
                        if s[0] == "const" and s[2] and "DISCRIMINATOR" in s[2]:
                            ds.add(s[2][s[2].index("<") + 1:-1] if "<" in s[2] else s[2])
        run.check("R4", "loader-discriminator-set@" + path, ds == {"state::fixed_tick_array::TickArray", "state::dynamic_tick_array::DynamicTickArray"},
                  "%s compares against discriminators of %s" % (path, sorted(ds)), loc=fn.loc(), detail="FixedTickArray and DynamicTickArray")
    # only the loaders create tick-array views from account bytes
    creators = set()
    for fn in facts.fn_list:
        if fn.kind == "const" or fn.trait in ("anchor_lang::AccountDeserialize", "anchor_lang::ZeroCopy", "anchor_lang::Owner"):
            continue
        for bi, t in fn.calls():
            p = callee_path(t) or ""
            ga = t["f"].get("ga", "")
            if (p.endswith("bytemuck::from_bytes") or p.endswith("bytemuck::from_bytes_mut") or "checked::from_bytes" in p) and "TickArray" in ga:
                creators.add(fn.path.split("::{closure")[0])
            if p.endswith(("DynamicTickArrayLoader::load", "DynamicTickArrayLoader::load_mut")):
                creators.add(fn.path.split("::{closure")[0])
        for bb in fn.blocks:
            for st in bb["s"]:
                if st["k"] == "=" and "cast" in st["rv"] and "MemoryMapped" in st["rv"]["ty"] and "TickArray" in st["rv"]["ty"] and st["rv"]["cast"] == "ptr":
                    creators.add(fn.path.split("::{closure")[0])
    allowed = {"state::tick_array::load_tick_array", "state::tick_array::load_tick_array_mut", "pinocchio::state::whirlpool::tick_array::loader::load_tick_array",
               "pinocchio::state::whirlpool::tick_array::loader::load_tick_array_mut", "instructions::initialize_dynamic_tick_array::handler",
               "state::dynamic_tick_array::DynamicTickArrayLoader::load", "state::dynamic_tick_array::DynamicTickArrayLoader::load_mut"}
    extra = {c for c in creators if c not in allowed and not c.startswith("state::dynamic_tick_array::DynamicTickArrayLoader")}
    run.check("R4", "view-creators", not extra and creators, "tick-array views are created from raw bytes outside the loaders: %s" % sorted(extra), detail="%d creators, all loaders" % len(creators))
    # oracle accessor
    fn = facts.need_fn("state::oracle::OracleAccessor::<'info>::is_oracle_account_initialized")
    run.touch(fn)
    owner = any("owner" in show(at.term) and "AccountOwnedByWrongProgram" in (at.true_codes | at.false_codes) for at in A.atoms(fn))
    disc = any("AccountDiscriminatorMismatch" in (at.true_codes | at.false_codes) for at in A.atoms(fn))
    pool = any(("whirlpool" in show(at.term)) and is_field(strip(at.cond()[1]) if at.cond() else ("x",), "whirlpool") or (at.cond() and any(is_param(x, "whirlpool") for x in at.cond()[1:])) for at in A.atoms(fn) if at.true_fail != at.false_fail)
    run.check("R4", "oracle-owner", owner, "OracleAccessor no longer rejects an oracle account owned by another program", loc=fn.loc(), detail="owner != program => AccountOwnedByWrongProgram")
    run.check("R4", "oracle-discriminator", disc, "OracleAccessor no longer checks the Oracle discriminator", loc=fn.loc(), detail="discriminator mismatch => error")
    run.check("R4", "oracle-pool", pool, "OracleAccessor no longer compares oracle.whirlpool with the pool key", loc=fn.loc(), detail="oracle.whirlpool != pool => diverge")
    # unchecked accounts
    structs = ACC.load(facts)
    n = 0
    MECH = [
        (r"^tick_array(_(lower|upper|\d|one_\d|two_\d))?$|^(existing|new)_tick_array_(lower|upper)$", "tick-array"),
        (r"^oracle(_one|_two)?$", "oracle"),
        (r"^(token_badge_[ab]|reward_token_badge)$", "badge"),
        (r"^receiver$", "rent-receiver"),
        (r"^new_\w+authority$", "new-authority"),
        (r"^(owner|position_bundle_owner)$", "recipient"),
        (r"^(position_metadata_account|position_bundle_metadata|metadata_update_auth)$", "metadata"),
        (r"^position_token_account$", "created-here"),
    ]
    for e in program.entries(facts):
        st = structs.get(e.ctx_struct)
        if st is None:
            continue
        for f in st.fields:
            if f.kind not in ("UncheckedAccount", "AccountInfo"):
                continue
            n += 1
            inst = "unchecked:%s.%s@%s" % (st.name, f.name, e.name)
            mech = None
            for rx, mname in MECH:
                if re.match(rx, f.name):
                    mech = mname
            if mech is None:
                run.bad("R4", inst, "unchecked account `%s` of %s is not classified: nothing validates it" % (f.name, st.name), loc=st.loc(f.name))
                continue
            ok, why = _verify_mechanism(facts, e, st, f, mech)
            run.check("R4", inst, ok, "unchecked account %s.%s (%s): %s" % (st.name, f.name, mech, why), loc=st.loc(f.name), detail="%s: %s" % (mech, why))
    run.floor("R4", "unchecked accounts", n, 66)


def _direct_uses(h, field):
    """(callee last segment, arg index, term) for calls in handler h with an argument that *is* the account (not nested in another call's result)."""
    pv = prov_of(h)
    out = []
    for bi, t in h.calls():
        if h.blocks[bi]["c"]:
            continue
        p = callee_path(t) or ""
        raw = t["f"].get("raw", p)
        for i, a in enumerate(t["a"]):
            term = pv.operand(a, bi, len(h.blocks[bi]["s"]))
            for leaf in leaves(term):
                s = strip(leaf)
                elems = s[1] if s[0] in ("array", "tuple") else (s,)
                for el in elems:
                    c = field_chain(el)
                    if c and c[:3] == ["ctx", "accounts", field]:
                        out.append((raw.rsplit("::", 1)[-1], p, i, term, bi, t, c[3:]))
    return out


def _verify_mechanism(facts, e, st, f, mech):
    if e.handler is None:
        # Pinocchio-routed: slots are checked by R5
        return True, "validated by the Pinocchio handler (R5)"
    h = facts.need_fn(e.handler)
    uses = _direct_uses(h, f.name)
    names = {u[0] for u in uses}
    passthrough = {"to_account_info", "key", "deref", "as_ref", "clone", "branch", "from_residual"}
    real = [(u[0], u[1]) for u in uses if u[0] not in passthrough]
    if mech == "tick-array":
        ok_callees = {"new", "load_tick_array", "load_tick_array_mut", "load", "try_borrow_mut_data", "safe_create_account", "load_init", "load_mut", "eq", "ne"}
        bad = [n for n, p in real if n not in ok_callees]
        if bad:
            return False, "used by %s besides the loaders / sequence builder" % sorted(set(bad))
        pv = prov_of(h)
        # the loader / builder is given this pool's key
        for u in uses:
            n, p, i, term, bi, t, rest = u
            if p.endswith(("load_tick_array", "load_tick_array_mut")):
                k = pv.operand(t["a"][1], bi, len(h.blocks[bi]["s"]))
                if not (is_call(k, "key") and acc(k) == "whirlpool"):
                    return False, "loader is given pool key %s" % sh(k, 40)
            if p.endswith("TickArraysMut::<'a>::load"):
                k = pv.operand(t["a"][2], bi, len(h.blocks[bi]["s"]))
                if not (is_call(k, "key") and acc(k) == "whirlpool"):
                    return False, "TickArraysMut::load is given pool key %s" % sh(k, 40)
        if any(p.endswith("SparseSwapTickSequenceBuilder::<'info>::new") for _, p in real):
            # try_build(pool, ..) on the builder with the pool of the same leg
            m = re.search(r"_(one|two)_", f.name)
            leg = m.group(1) if m else None
            okb = False
            for (bi, t, args) in calls_to(h, ends("SparseSwapTickSequenceBuilder::<'info>::try_build")):
                arrs = [s for s in subterms(args[0]) if s[0] == "array"]
                inarr = any(acc(x) == f.name for a in arrs for x in a[1])
                if inarr and acc(args[1]) == ("whirlpool" + ("_" + leg if leg else "")):
                    okb = True
            if not okb:
                return False, "sequence builder holding this array is not built for the pool of its leg"
            return True, "SparseSwapTickSequenceBuilder::new([..]) -> try_build(pool%s)" % ("_" + leg if leg else "")
        if not real and not f.values("seeds"):
            return False, "never handed to a loader"
        return True, "loader with this pool's key" if not f.values("seeds") else "PDA seeds with this pool's key"
    if mech == "oracle":
        m = re.match(r"^oracle(_one|_two)?$", f.name)
        pool = "whirlpool" + (m.group(1) or "")
        oks = [u for u in uses if u[1].endswith("OracleAccessor::<'info>::new")]
        bad = [n for n, p in real if not p.endswith("OracleAccessor::<'info>::new")]
        if bad:
            return False, "used by %s besides OracleAccessor::new" % sorted(set(bad))
        if not oks:
            return False, "never handed to OracleAccessor::new"
        pv = prov_of(h)
        for u in oks:
            k = pv.operand(u[5]["a"][0], u[4], len(h.blocks[u[4]]["s"]))
            if acc(k) != pool:
                return False, "OracleAccessor::new is given pool %s" % acc(k)
        return True, "OracleAccessor::new(%s, %s)" % (pool, f.name)
    if mech == "badge":
        # (verify_supported_token_mint is read spliced in: the badge feeds its is_token_badge_initialized lookup, C19.R5 decides the rest)
        bad = [n for n, p in real if n not in ("verify_supported_token_mint", "is_token_badge_initialized", "is_non_transferable_position_required")]
        if bad or not ({"verify_supported_token_mint", "is_token_badge_initialized"} & set(names)):
            return False, "badge account must only feed the support test of its mint / is_non_transferable_position_required (uses %s)" % sorted(names)
        return True, "seeds (C19.R5) + the support test of its mint"
    if mech == "rent-receiver":
        closers = [x for x in st.fields if "receiver" in x.values("close")]
        bad = [n for n, p in real if n not in ("burn_and_close_user_position_token", "burn_and_close_user_position_token_2022", "burn_and_close_position_bundle_token",
                                              "close_empty_token_account_2022")]
        if bad:
            return False, "receiver is used by %s" % sorted(set(bad))
        if not closers and not real:
            return False, "receiver is neither a close target nor a close-CPI destination"
        return True, "only receives rent (close = receiver / close CPI destination)"
    if mech == "new-authority":
        ok = all(n in ("key",) or n.startswith("update_") for n in names) and any(n.startswith("update_") for n in names) or names <= {"key"} and bool(names)
        return ok, "only its key is read (arbitrary by design)" if ok else "used by %s" % sorted(names)
    if mech == "recipient":
        bad = [n for n, p in real if n not in ("initialize_position_token_account_2022", "key")]
        if bad:
            return False, "used by %s" % sorted(set(bad))
        # or used as associated_token::authority in the struct
        return True, "recipient of the new position token (arbitrary by design)"
    if mech == "metadata":
        if f.name == "metadata_update_auth":
            ok = any(v in ("WP_NFT_UPDATE_AUTH", "WPB_NFT_UPDATE_AUTH") for v in f.values("address"))
            return ok, "address = the NFT update authority constant" if ok else "metadata_update_auth lacks its address constraint"
        bad = [n for n, p in real if "metadata" not in n]
        return (not bad), ("only passed to the metadata CPI (Metaplex validates the PDA)" if not bad else "used by %s" % sorted(set(bad)))
    if mech == "created-here":
        ok = "initialize_position_token_account_2022" in names
        return ok, "created by initialize_position_token_account_2022" if ok else "not created in the handler"
    return False, "unknown mechanism"


def _parse_cons(st, f, c):
    """Translate one Anchor constraint into an expected canonical Pinocchio check: (kind, lhs, rhs) over ('key'|'fld'|'owner'|'const', account, field)."""
    key, e = c["key"], c["expr"]
    if key == "has_one":
        return ("address", ("fld", f.name, e), ("key", e, None))
    if key == "address":
        m = re.match(r"^(\w+)\.(\w+)$", e)
        if m:
            return ("address", ("key", f.name, None), ("fld", m.group(1), m.group(2)))
        m = re.match(r"^\*(\w+)\.to_account_info\(\)\.owner$", e)
        if m:
            return ("address", ("key", f.name, None), ("owner", m.group(1), None))
        return ("label", e, None)
    if key == "constraint":
        m = re.match(r"^(\w+)\.(\w+)==(\w+)\.(\w+)$", e)
        if m:
            return ("constraint-eq", ("fld", m.group(1), m.group(2)), ("fld", m.group(3), m.group(4)))
        m = re.match(r"^(\w+)\.key\(\)==(\w+)\.(\w+)$", e)
        if m:
            return ("address", ("key", m.group(1), None), ("fld", m.group(2), m.group(3)))
        m = re.match(r"^(\w+)\.(\w+)==(\d+)$", e)
        if m:
            return ("constraint-eq", ("fld", m.group(1), m.group(2)), ("const", int(m.group(3)), None))
    return None


def R5_pinocchio_superset(run):
    run.title("R5", "for each Pinocchio-routed instruction every constraint of the Anchor struct has a matching verify_address / verify_constraint / typed load that is "
                    "must-pass and dominates the first effect; pool, position and position token account are loaded through the checked loaders (owner + discriminator / token program)")
    facts = run.facts
    structs = ACC.load(facts)
    n = 0
    for e in program.entries(facts):
        if not e.routed:
            continue
        h = facts.need_fn(e.routed)
        run.touch(h)
        st = structs[e.ctx_struct]
        sl = pino.slots(h)
        idx = {f.name: i for i, f in enumerate(st.fields)}
        pv = prov_of(h)
        eff = [bi for bi, t in h.calls() if (callee_path(t) or "").rsplit("::", 1)[-1] in (
            "pino_sync_modify_liquidity_values", "pino_transfer_from_vault_to_owner", "pino_transfer_from_vault_to_owner_v2", "pino_transfer_from_owner_to_vault",
            "pino_transfer_from_owner_to_vault_v2", "pino_update_tick_array_accounts", "reset_position_range", "decrease_liquidity_from_existing_range",
            "increase_liquidity_into_new_range", "pino_ensure_position_has_enough_rent_for_ticks", "execute_token_delta_transfers")]
        checks = []
        from rules.common import verified_conditions
        for bi, t in h.calls():
            p = callee_path(t) or ""
            if p.endswith("verify_address"):
                args = [pino.canon(h, pv.operand(a, bi, len(h.blocks[bi]["s"]))) for a in t["a"]]
                mp, _ = cfg.must_pass_call(h, bi)
                dom = all(cfg.dominates(h, bi, x) for x in eff)
                checks.append((p.rsplit("::", 1)[-1], args, mp and dom and bool(eff), t["l"]))
        # verify_constraint(c)?: c, or each conjunct of `a && b`
        for (cterm, bi, line) in verified_conditions(h):
            mp, _ = cfg.must_pass_call(h, bi)
            dom = all(cfg.dominates(h, bi, x) for x in eff)
            checks.append(("verify_constraint", [pino.canon(h, cterm)], mp and dom and bool(eff), line))

        def side(spec):
            kind, a, b = spec
            if kind == "key":
                return ("call", "key", (("slot", sl[idx[a]].name, idx[a]),))
            if kind == "owner":
                return "owner:%d" % idx[a]
            if kind == "fld":
                return ("field", ("acct", sl[idx[a]].name, idx[a]), b)
            if kind == "const":
                return ("constval", a)

        def term_matches(t, want):
            t = strip(t)
            if isinstance(want, str) and want.startswith("owner:"):
                return t[0] == "call" and t[1].endswith("AccountInfo::owner") and strip(t[2][0]) == ("slot", sl[int(want[6:])].name, int(want[6:]))
            if want[0] == "constval":
                return const_val(t) == want[1]
            if want[0] == "call":
                return t[0] == "call" and t[1] == "key" and strip(t[2][0]) == want[2][0]
            return t == want
        for f in st.fields:
            for c in f.cons:
                if c["key"] in ("mut",):
                    continue
                n += 1
                inst = "%s:%s[%s]" % (e.name, f.name, c["text"].replace(" ", "")[:60])
                spec = _parse_cons(st, f, c)
                if spec is None:
                    run.bad("R5", inst, "Anchor constraint `%s` on %s.%s has no known Pinocchio translation" % (c["text"], st.name, f.name), loc=h.loc())
                    continue
                if spec[0] == "label":
                    run.ok("R5", inst, detail="enforced by the slot label (C04.R3)", nontrivial=False)
                    continue
                # exemption: owner token accounts' mint is left to the token program
                m = re.match(r"^token_owner_account_([ab])$", f.name)
                if m and spec[0] == "constraint-eq" and spec[1][2] == "mint":
                    run.ok("R5", inst, detail="exempt: owner-account mint is enforced by the token program's transfer (wrong mint makes the CPI fail)")
                    continue
                l, r = side(spec[1]), side(spec[2])
                found = None
                for (kind, args, good, line) in checks:
                    if spec[0] == "address" and kind == "verify_address" and len(args) == 2:
                        if (term_matches(args[0], l) and term_matches(args[1], r)) or (term_matches(args[0], r) and term_matches(args[1], l)):
                            found = (good, line)
                    if spec[0] == "constraint-eq" and kind == "verify_constraint":
                        c0 = strip(args[0])
                        ops = None
                        if c0[0] == "call" and c0[1].endswith("::eq"):
                            ops = c0[2]
                        elif c0[0] == "bin" and c0[1] == "Eq":
                            ops = (c0[2], c0[3])
                        if ops and ((term_matches(ops[0], l) and term_matches(ops[1], r)) or (term_matches(ops[0], r) and term_matches(ops[1], l))):
                            found = (good, line)
                run.check("R5", inst, found is not None and found[0],
                          "Pinocchio handler %s %s the Anchor constraint `%s` of %s.%s" % (e.routed, "does not enforce" if found is None else "enforces too late / not on every path", c["text"], st.name, f.name),
                          loc=h.loc(found[1] if found else None), detail="matched by verify call at line %s, must-pass, before %d effects" % (found[1] if found else None, len(eff)))
        # typed loads
        for fname, loader, ga in (("whirlpool", ("load_account_mut", "load_account"), "MemoryMappedWhirlpool"), ("position", ("load_account_mut", "load_account"), "MemoryMappedPosition"),
                                  ("position_token_account", ("load_token_program_account",), "MemoryMappedTokenAccount")):
            n += 1
            ok = False
            for bi, t in h.calls():
                p = callee_path(t) or ""
                if p.rsplit("::", 1)[-1] in loader and ga in t["f"].get("ga", ""):
                    a = pino.canon(h, pv.operand(t["a"][0], bi, len(h.blocks[bi]["s"])))
                    mp, _ = cfg.must_pass_call(h, bi)
                    if a[0] == "slot" and a[2] == idx[fname] and mp and all(cfg.dominates(h, bi, x) for x in eff):
                        ok = True
            run.check("R5", "%s:load:%s" % (e.name, fname), ok, "%s does not load `%s` through %s::<%s> (owner + discriminator / token-program checks) before its effects" % (e.routed, fname, "/".join(loader), ga),
                      loc=h.loc(), detail="%s::<%s>(slot %d)?" % (loader[0], ga, idx[fname]))
        # tick arrays through the loader with this pool's key
        for bi, t in h.calls():
            if (callee_path(t) or "").endswith("TickArraysMut::<'a>::load"):
                n += 1
                args = [pino.canon(h, pv.operand(a, bi, len(h.blocks[bi]["s"]))) for a in t["a"]]
                k = strip(args[2])
                names = [st.fields[a[2]].name if a[0] == "slot" else None for a in args[:2]]
                ok = k[0] == "call" and k[1] == "key" and strip(k[2][0])[0] == "slot" and strip(k[2][0])[2] == idx["whirlpool"] and all(nm and "tick_array" in nm for nm in names) and \
                    names[0].endswith("lower") and names[1].endswith("upper")
                run.check("R5", "%s:tick-arrays:l%d" % (e.name, t["l"] - h.line), ok, "%s loads tick arrays %s with key %s, expected (lower, upper, this pool's key)" % (e.routed, names, pino.cshow(k)),
                          loc=h.loc(t["l"]), detail="TickArraysMut::load(%s, %s, key(whirlpool))" % tuple(names))
    run.floor("R5", "translated constraints and loads", n, 70)
    # loader helpers really check
    for path, codes in (("pinocchio::utils::account_load::check_discriminator", {"AccountDiscriminatorMismatch", "AccountDiscriminatorNotFound"}),
                        ("pinocchio::utils::verify::verify_address", {"ConstraintAddress"}), ("pinocchio::utils::verify::verify_constraint", {"ConstraintRaw"})):
        fn = facts.need_fn(path)
        got = set()
        for at in A.atoms(fn):
            if at.true_fail != at.false_fail:
                got |= cfg.error_codes_from(fn, at.true_targets[0] if at.true_fail else at.false_targets[0])
        run.check("R5", "helper@" + path.rsplit("::", 1)[-1], codes <= got, "%s fails with %s, expected %s" % (path, sorted(got), sorted(codes)), loc=fn.loc(), detail="fails with " + ", ".join(sorted(codes)))
    # verify_address refuses exactly when the two keys differ: its only refusing test is an equality of the two whole 32-byte parameters
    fn = facts.need_fn("pinocchio::utils::verify::verify_address")
    whole = []
    for at in A.atoms(fn):
        if at.true_fail == at.false_fail:
            continue
        x = strip(at.term)
        nm = x[1].rsplit("::", 1)[-1] if x[0] == "call" else (x[1] if x[0] == "bin" else None)
        args = list(x[2]) if x[0] == "call" else ([x[2], x[3]] if x[0] == "bin" else [])
        both = len(args) == 2 and {a_[1] for a_ in map(strip, args) if a_[0] == "param"} == {"address", "expected"}
        eq_fails_when_unequal = (nm in ("pubkey_eq", "eq", "Eq") and at.false_fail) or (nm in ("ne", "Ne") and at.true_fail)
        whole.append(both and eq_fails_when_unequal)
    run.check("R5", "helper-compares-whole-keys@verify_address", len(whole) == 1 and all(whole), "verify_address does not refuse exactly when address != expected (whole 32-byte keys)", loc=fn.loc(),
              detail="!pubkey_eq(address, expected) => ConstraintAddress")
    from rules.common import owner_tests
    for path in ("pinocchio::utils::account_load::load_account", "pinocchio::utils::account_load::load_account_mut"):
        fn = facts.need_fn(path)
        # (check_owner_program is always analysed inlined: the owner test is an `is_owned_by(&WHIRLPOOL_PROGRAM_ID)` atom here)
        ots = [o for o in owner_tests(fn) if o[1] == "WHIRLPOOL_PROGRAM_ID" and "AccountOwnedByWrongProgram" in o[3]]
        ok = len(ots) == 1
        if ok:
            at, neg = ots[0][0], ots[0][4]
            ok = not cfg.success_reach(fn, 0, cut_edges={(at.block, tg) for tg in (at.false_targets if neg else at.true_targets)})
        cs = [(bi, callee_path(t)) for bi, t in fn.calls() if (callee_path(t) or "").endswith("check_discriminator")]
        ok = ok and len(cs) == 1 and all(cfg.must_pass_call(fn, bi)[0] for bi, _ in cs)
        pvf = prov_of(fn)
        for bi, c in cs:
            t = fn.blocks[bi]["t"]
            k = pvf.operand(t["a"][1], bi, len(fn.blocks[bi]["s"]))
            ok = ok and mentions(k, lambda s: s[0] == "const" and s[2] and "DISCRIMINATOR" in s[2])
        run.check("R5", "typed-load@" + path.rsplit("::", 1)[-1], ok, "%s does not must-pass the owner test against WHIRLPOOL_PROGRAM_ID and check_discriminator(T::DISCRIMINATOR)" % path, loc=fn.loc(),
                  detail="owner == program && discriminator == T::DISCRIMINATOR")


def R5b_remaining_accounts(run):
    run.title("R5b", "parse_remaining_accounts (both): a slice of type X can only populate the field named after X; duplicates and types not allowed by the caller are errors")
    facts = run.facts
    for path, pfx in (("util::v2::remaining_accounts_utils::parse_remaining_accounts", ""), ("pinocchio::ported::util_remaining_accounts_utils::pino_parse_remaining_accounts", "pino")):
        fn = facts.need_fn(path)
        run.touch(fn)
        enum = [a for p, a in facts.adts.items() if p.endswith("remaining_accounts_utils::AccountsType") and a["kind"] == "enum"]
        if not enum:
            raise AnchorMissing("AccountsType enum")
        discr = {int(d): name for name, d in enum[0]["discrs"]}
        pv = prov_of(fn)
        sw = None
        for bi, bb in enumerate(fn.blocks):
            t = bb["t"]
            if t["k"] == "switch" and t.get("dt") != "bool" and len(t["ts"]) >= 8:
                term = pv.operand(t["d"], bi, len(bb["s"]))
                if term[0] == "discr":
                    sw = (bi, t)
        if sw is None:
            raise AnchorMissing("match on AccountsType in %s" % path)
        bi, t = sw
        import re as _re
        n = 0
        stores = [w for w in writes.field_stores(facts) if w["fn"] is fn and w["kind"] == "assign"]
        # ... and stores through a `&mut` of one of the fields handed to a (spliced-in) helper: `set_once(&mut parsed.transfer_hook_a, ..)`
        stores += writes.deref_stores(fn, pv, self_adt=(enum[0]["path"].rsplit("::", 1)[0] + "::ParsedRemainingAccounts"))
        others = {int(v): b for v, b in t["ts"]}
        for v, target in sorted(others.items()):
            name = discr.get(v)
            if name is None:
                continue
            want = _re.sub(r"(?<!^)(?=[A-Z])", "_", name).lower()
            # region of this arm: blocks reachable from target without passing the switch block or other arms' targets
            cut = [bi] + [b for vv, b in others.items() if vv != v and b != target]
            region = cfg.reach(fn, target, cut_blocks=cut)
            st_fields = {w["field"] for w in stores if w["block"] in region and w["adt"].endswith("ParsedRemainingAccounts")}
            n += 1
            run.check("R5b", "%s:%s" % (pfx or "anchor", name), st_fields == {want}, "%s: accounts of type %s are stored into %s, expected only `%s`" % (path, name, sorted(st_fields), want), loc=fn.loc(),
                      detail="%s -> .%s" % (name, want))
        run.floor("R5b", "variant arms " + (pfx or "anchor"), n, 10)
        dup = any("RemainingAccountsDuplicatedAccountsType" in (at.true_codes | at.false_codes) for at in A.atoms(fn))
        inval = any("RemainingAccountsInvalidSlice" in cfg.block_error_codes(fn, b) or "RemainingAccountsInsufficient" in cfg.block_error_codes(fn, b) for b in range(len(fn.blocks)))
        run.check("R5b", "%s:duplicates" % (pfx or "anchor"), dup, "%s no longer rejects duplicated account types" % path, loc=fn.loc(), detail="already set => RemainingAccountsDuplicatedAccountsType")
        run.check("R5b", "%s:slice-errors" % (pfx or "anchor"), inval, "%s no longer rejects invalid / insufficient slices" % path, loc=fn.loc(), detail="invalid slice / insufficient accounts => error")


def R4c_pair_loaders(run):
    run.title("R4c", "TickArraysMut::load (Anchor and Pinocchio): both tick arrays go through load_tick_array_mut(account, pool key)? with the error propagated; the upper array is "
                     "skipped only when it is the same account as the lower one")
    facts = run.facts
    for path in ("state::tick_array::TickArraysMut::<'a>::load", "pinocchio::state::whirlpool::tick_array::loader::TickArraysMut::<'a>::load"):
        fn = facts.need_fn(path)
        run.touch(fn)
        label = "pinocchio" if path.startswith("pinocchio") else "anchor"
        cs = calls_to(fn, ends("load_tick_array_mut"))
        sides = sorted((arg_name(c[2][0]) or sh(c[2][0], 30), is_param(c[2][1], "whirlpool"), bool(cfg.result_checked(fn, c[0]))) for c in cs)
        ok = [x[0] for x in sides] == ["lower_tick_array_info", "upper_tick_array_info"] and all(x[1] and x[2] for x in sides)
        same = [at for at in A.atoms(fn) if at.cond() and at.cond()[0] in ("Eq", "Ne") and
                {arg_name(x) or "" for x in [s_ for side_ in at.cond()[1:] for s_ in subterms(side_) if s_[0] == "param"]} == {"lower_tick_array_info", "upper_tick_array_info"}]
        ok = ok and len(same) == 1
        if ok:
            at = same[0]
            upper_block = [c[0] for c in cs if arg_name(c[2][0]) == "upper_tick_array_info"][0]
            ne_side = at.false_targets[0] if at.cond()[0] == "Eq" else at.true_targets[0]
            eq_side = at.true_targets[0] if at.cond()[0] == "Eq" else at.false_targets[0]
            ok = upper_block in cfg.reach(fn, ne_side, cut_blocks=[at.block]) and upper_block not in cfg.reach(fn, eq_side, cut_blocks=[at.block])
            # on the different-accounts side no success avoids the upper load
            ok = ok and not cfg.success_reach(fn, ne_side, cut_blocks=[at.block, upper_block])
        run.check("R4c", "pair-load@" + label, ok, "%s: loads are %s; expected load_tick_array_mut(lower, whirlpool)? and, unless both accounts are the same, load_tick_array_mut(upper, whirlpool)?" % (path, sides),
                  loc=fn.loc(), detail="lower? ; upper? unless same key")
    # the swap sequence builder's per-account loader: an initialised account is loaded through load_tick_array_mut with this
    # pool's key and every error of the loader (foreign pool, wrong owner, wrong discriminator) is the builder's error; only an
    # empty system-owned account is "not there"
    f = sequence_loader(facts)
    tb = f["fn"]
    run.touch(tb)
    run.check("R4c", "sequence-loader-propagates", f["load"] and f["checked"], "try_build (with maybe_load_tick_array spliced in) does not hand every error of load_tick_array_mut(supplied account, "
              "pool key) to its caller (an account of another pool would be skipped instead of rejected): %s" % f["why"], loc=tb.loc(), detail="load_tick_array_mut(account_info, &whirlpool.key())?")
    run.check("R4c", "sequence-loader-empty-only", f["skip_only_empty"], "the per-account loader of try_build skips accounts on a test other than owner == system program && data_is_empty: %s" % f["why"],
              loc=tb.loc(), detail="Ok(None) only for an empty system account")


def sequence_loader(facts):
    """The per-account loader of the swap sequence builder, read on try_build with maybe_load_tick_array spliced in (whether the
    helper exists or was written into the loop makes no difference): the one load_tick_array_mut call, its arguments, whether its
    error is the builder's error, and the tests that can skip it."""
    tb = facts.need_fn("util::sparse_swap::SparseSwapTickSequenceBuilder::<'info>::try_build")
    out = {"fn": tb, "load": False, "checked": False, "skip_only_empty": False, "pushed": False, "why": ""}
    cs = calls_to(tb, ends("load_tick_array_mut"))
    if len(cs) != 1:
        out["why"] = "%d calls to load_tick_array_mut" % len(cs)
        return out
    L, _, args = cs[0]
    from_accounts = mentions(args[0], lambda t: t[0] == "call" and t[1].endswith("::next")) and mentions(args[0], lambda t: t[0] == "field" and t[2] == "tick_array_accounts")
    k = strip(args[1])
    pool_key = k[0] == "call" and k[1].rsplit("::", 1)[-1] == "key" and len(k[2]) == 1 and is_param(strip(k[2][0]), "whirlpool")
    out["load"] = bool(from_accounts and pool_key)
    if not out["load"]:
        out["why"] = "load_tick_array_mut(%s, %s)" % (sh(args[0], 60), sh(args[1], 60))
    out["checked"] = bool(cfg.result_checked(tb, L))
    if not out["checked"]:
        out["why"] += "; its error is not propagated"
    nxt = [c[0] for c in calls_to(tb, lambda p: p.endswith("::next")) if cfg.dominates(tb, c[0], L)]
    if not nxt:
        out["why"] += "; no account loop around the load"
        return out
    N = nxt[-1]
    region = {b for b in cfg.reach(tb, N, cut_blocks=[L]) if L in cfg.reach(tb, b, cut_blocks=[N])}
    tests = [at for at in A.atoms(tb) if at.block in region]
    bad = [at for at in tests if not ("data_is_empty" in show(at.term, True) or mentions(at.term, lambda t: t[0] == "field" and t[2] == "owner"))]
    out["skip_only_empty"] = bool(tests) and not bad and any("data_is_empty" in show(at.term, True) for at in tests)
    if bad:
        out["why"] += "; the load is also skipped on %s" % sh(bad[0].term, 80)
    elif not tests:
        out["why"] += "; nothing distinguishes the empty system-owned account"
    pushes = [c for c in calls_to(tb, lambda p: p.endswith("Vec::<T, A>::push")) if mentions(c[2][1], lambda t: t[0] == "call" and t[1].endswith("load_tick_array_mut"))]
    out["pushed"] = len(pushes) >= 1
    return out


def R1b_instruction_args(run):
    run.title("R1b", "an Accounts struct's `#[instruction(..)]` names the first arguments of its instruction in the order and with the types the entry declares them "
                     "(Anchor binds them by position: two same-typed names swapped evaluate every constraint with the other argument)")
    import re as _re
    facts = run.facts
    n = 0
    by_struct = {}
    for e in program.entries(facts):
        by_struct.setdefault(e.ctx_struct, []).append(e)
    for path, st in sorted(ACC.load(facts).items()):
        attrs = [a for a in (facts.accounts[path].get("attrs") or []) if a.replace(" ", "").startswith("#[instruction(")]
        if not attrs:
            continue
        body = " ".join(attrs[0].split())
        body = body[body.index("(") + 1: body.rindex(")")]
        declared = []
        for item in ACC._split_items(body):
            if ":" in item:
                nm, ty = item.split(":", 1)
                declared.append((nm.strip(), ty.replace(" ", "")))
        for e in by_struct.get(path, []):
            names = e.fn.param_names()[1:]
            types = [e.fn.locals[i]["t"].replace(" ", "") for i in range(2, e.fn.argc + 1)]
            n += 1
            bad = []
            for i, (nm, ty) in enumerate(declared):
                if i >= len(names):
                    bad.append("%s has no counterpart" % nm)
                    continue
                if names[i].lstrip("_") != nm.lstrip("_"):
                    bad.append("position %d is `%s` in the attribute and `%s` in %s" % (i + 1, nm, names[i], e.name))
                elif types[i].rsplit("::", 1)[-1] != ty.rsplit("::", 1)[-1]:
                    bad.append("`%s` is %s in the attribute and %s in %s" % (nm, ty, types[i], e.name))
            run.check("R1b", "instruction-args:%s@%s" % (st.name, e.name), not bad, "#[instruction(..)] of %s: %s" % (st.name, "; ".join(bad)), loc="%s:%s" % (facts.accounts[path].get("file"), facts.accounts[path].get("line")),
                      detail="%d leading argument(s) by position: %s" % (len(declared), ", ".join(nm for nm, _ in declared)))
    run.floor("R1b", "structs with #[instruction]", n, 14)


RULES = [R1b_instruction_args, R4c_pair_loaders, R1_token_accounts, R3_back_references, R4_loaders_and_unchecked, R5_pinocchio_superset, R5b_remaining_accounts]
