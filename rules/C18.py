"""C18 Positions are opened, closed, re-ranged, locked and bundled only consistently.

Decided: position range fields are written only behind validate_tick_range_for_whirlpool on
the stored values (usable ticks, lower < upper, full-range-only rule); re-ranging also
requires an empty position, a different range and resets the growth checkpoints; every
close path burns / closes only behind is_position_empty, whose atoms are liquidity, both
owed fees and the three owed rewards; locked positions are refused by close / decrease /
reposition before any effect, while increase and collect carry no such refusal; locking
requires liquidity > 0 and an unfrozen token and happens after the authority check; the
locked transfer performs unfreeze -> transfer -> freeze -> owner update; a position token is
minted with amount 1 and the mint authority removed on every success path; the bundle
bitmap flips one bit with open/closed rejection, and deletion requires an all-zero bitmap;
opening handlers resolve one-sided bounds and open with the resolved range; the range
validator itself (both implementations) rejects each unusable bound, lower >= upper and,
on full-range-only pools, each bound that is not the full-range bound.
Also decided: the checkpoint resets of reset_position_range go into the position itself (not a copy); no update of position / bundle state is
made to a local value and dropped.
Not decided: the snapping arithmetic of one-sided bounds; sequences of operations."""
from analysis import cfg, atoms as A, preach, writes, program, pino, accounts as ACC
from analysis.ir import callee_path, AnchorMissing
from analysis.prov import prov_of, prov_assuming, strip, leaves, subterms, show
from analysis.match import is_param, is_field, is_call, const_val, sh, mentions, fail_conditions
from rules.common import calls_to, ends, arg_name, acc, acc_chain

P = "state::position::Position"
MP = "pinocchio::state::whirlpool::position::MemoryMappedPosition"


def _codes(at):
    return at.true_codes | at.false_codes


PINO_VALIDATOR = "pinocchio::state::whirlpool::position::validate_tick_range_for_whirlpool"


def _pino_validator_view(facts):
    """(function, lower name, upper name, in_place): the Pinocchio range validator, or - when that one-caller helper was written into
    reset_position_range and removed - reset_position_range itself, whose own parameters are then the validated bounds."""
    fn = facts.fn(PINO_VALIDATOR)
    if fn is not None:
        return fn, "tick_lower_index", "tick_upper_index", False
    from analysis import canon
    ref = (canon.reference(facts.crate) or {}).get("fns", {})
    if PINO_VALIDATOR in ref and ref[PINO_VALIDATOR].get("callers") == [MP + "::reset_position_range"]:
        return facts.need_fn(MP + "::reset_position_range"), "new_tick_lower_index", "new_tick_upper_index", True
    return facts.need_fn(PINO_VALIDATOR), "tick_lower_index", "tick_upper_index", False


def R1_range_fields(run):
    run.title("R1", "Position.tick_{lower,upper}_index are written only by open_position / reset_position_range (and the Pinocchio twin's setters), each store "
                    "dominated by validate_tick_range_for_whirlpool(pool, stored lower, stored upper)?; reset also by the emptiness and same-range checks, and zeroes all checkpoints")
    facts = run.facts
    for field in ("tick_lower_index", "tick_upper_index"):
        ws = {w["fn"].path for w in writes.writers_of(facts, P, field)}
        run.check("R1", "writers:Position." + field, ws == {P + "::open_position", P + "::reset_position_range"}, "Position.%s is written by %s" % (field, sorted(ws)), detail="open_position, reset_position_range")
        callers = {c.path for (c, _) in facts.callers().get(MP + "::set_" + field, [])}
        run.check("R1", "writers:MemoryMappedPosition." + field, callers == {MP + "::reset_position_range"}, "MemoryMappedPosition::set_%s is called from %s" % (field, sorted(callers)),
                  detail="only reset_position_range")
    for path, anchor in ((P + "::open_position", True), (P + "::reset_position_range", True), (MP + "::reset_position_range", False)):
        fn = facts.need_fn(path)
        run.touch(fn)
        short = path.replace("state::", "").replace("pinocchio::whirlpool::", "pino::")
        pv = prov_of(fn)
        if anchor:
            stores = [(w["block"], w["field"], pv._rvalue(w["rv"], w["block"], w["stmt"], 0)) for w in writes.field_stores(facts) if w["fn"] is fn and w["field"] in ("tick_lower_index", "tick_upper_index")]
        else:
            stores = [(bi, "tick_lower_index" if callee_path(t).endswith("set_tick_lower_index") else "tick_upper_index", a[1]) for (bi, t, a) in calls_to(fn, lambda p: p in (MP + "::set_tick_lower_index", MP + "::set_tick_upper_index"))]
        vals = {f: v for (_, f, v) in stores}
        vc = calls_to(fn, lambda p: p.endswith("validate_tick_range_for_whirlpool"))
        ok = len(vc) == 1 and len(stores) == 2
        why = "expected one validation call and two stores (found %d, %d)" % (len(vc), len(stores))
        if not vc and not anchor and len(stores) == 2 and _pino_validator_view(facts)[3]:
            # the validator written in place (its rejections are decided on this function, below and in R7): every one of its refusals lies
            # before both stores, and what is stored are the validated parameters
            _, lo_n, up_n, _ = _pino_validator_view(facts)
            ref_at = [at for at in A.atoms(fn) if (at.true_fail != at.false_fail) and ({"InvalidTickIndex", "FullRangeOnlyPool"} & (at.true_codes | at.false_codes))]
            dom = [at for at in ref_at if all(cfg.dominates(fn, at.block, b) for (b, _, _) in stores)]
            late = [at for at in ref_at if any(at.block in cfg.reach(fn, b) for (b, _, _) in stores)]
            # (the two full-range refusals sit behind the spacing gate; R7's full-range-gate decides that gate on this function)
            ok = len(ref_at) >= 5 and len(dom) >= 3 and not late and \
                is_param(vals["tick_lower_index"], lo_n) and is_param(vals["tick_upper_index"], up_n)
            why = "the range validation written in place does not precede both stores of the validated bounds"
        elif ok:
            bi, t, a = vc[0]
            mp, w2 = cfg.must_pass_call(fn, bi)
            if not mp:
                ok, why = False, "validate_tick_range_for_whirlpool: " + w2
            elif not all(cfg.dominates(fn, bi, b) for (b, _, _) in stores):
                ok, why = False, "the validation does not dominate the stores"
            elif not (strip(a[1]) == strip(vals["tick_lower_index"]) and strip(a[2]) == strip(vals["tick_upper_index"])):
                ok, why = False, "validated (%s, %s) but stored (%s, %s)" % (sh(a[1], 30), sh(a[2], 30), sh(vals["tick_lower_index"], 30), sh(vals["tick_upper_index"], 30))
            elif not is_param(a[0], "whirlpool"):
                ok, why = False, "validated against %s" % sh(a[0], 30)
        run.check("R1", "validated-store@" + short, ok, "%s: %s" % (path, why), loc=fn.loc(), detail="validate(pool, lower, upper)? dominates both stores of those same values")
        if path.endswith("reset_position_range"):
            empty = same = None
            for at in A.atoms(fn):
                if mentions(at.term, lambda s: s[0] == "call" and s[1].endswith("is_position_empty")) and "ClosePositionNotEmpty" in _codes(at):
                    empty = at
                if "SameTickRangeNotAllowed" in _codes(at):
                    same = at
            ok = empty is not None and all(A.guarded_by(fn, empty, b) for (b, _, _) in stores)
            run.check("R1", "reset-requires-empty@" + short, ok, "%s re-ranges a position without requiring it to be empty" % path, loc=fn.loc(), detail="!is_position_empty => ClosePositionNotEmpty before the stores")
            conds = set()
            for at in A.atoms(fn):
                c = at.cond()
                if c and c[0] in ("Eq", "Ne"):
                    n1, n2 = arg_name(c[1]), arg_name(c[2])
                    conds.add(frozenset((n1, n2)))
                    # `(a, b) == (c, d)` is a == c && b == d
                    t1, t2 = strip(c[1]), strip(c[2])
                    if t1[0] == "tuple" and t2[0] == "tuple" and len(t1[1]) == len(t2[1]):
                        for x, y in zip(t1[1], t2[1]):
                            conds.add(frozenset((arg_name(x), arg_name(y))))
            ok = same is not None and frozenset(("new_tick_lower_index", "tick_lower_index")) in conds and frozenset(("new_tick_upper_index", "tick_upper_index")) in conds
            run.check("R1", "reset-different-range@" + short, ok, "%s does not reject re-ranging to the identical range (lower == lower && upper == upper)" % path, loc=fn.loc(), detail="same range => SameTickRangeNotAllowed")
            if anchor:
                zs = [w for w in writes.field_stores(facts) if w["fn"] is fn and w["field"] in ("fee_growth_checkpoint_a", "fee_growth_checkpoint_b", "growth_inside_checkpoint") and w["last"]]
                have = {w["field"] for w in zs}
                # the reward checkpoints may be zeroed by a closure handed to `self.reward_infos.iter_mut().for_each(..)`: the closure's
                # parameter is then the `&mut` element, and its store counts as a store into the position
                for bi_, t_ in fn.calls():
                    if (callee_path(t_) or "").rsplit("::", 1)[-1] == "for_each" and len(t_["a"]) == 2 and not fn.blocks[bi_]["c"]:
                        it_ = pv.operand(t_["a"][0], bi_, len(fn.blocks[bi_]["s"]))
                        cl_ = strip(pv.operand(t_["a"][1], bi_, len(fn.blocks[bi_]["s"])))
                        over_own = "IterMut" in (callee_path(t_) or "") and \
                            mentions(it_, lambda s_: s_[0] == "field" and s_[2] == "reward_infos" and is_param(strip(s_[1]), "self"))
                        g_ = facts.fn(cl_[1]) if cl_[0] == "closure" else None
                        if over_own and g_ is not None and not cfg.success_reach(fn, 0, cut_blocks=[bi_]):
                            pg_ = prov_of(g_)
                            cw = [w for w in writes.field_stores(facts) if w["fn"] is g_ and w["field"] == "growth_inside_checkpoint" and w["last"]]
                            if cw and all(const_val(pg_._rvalue(w["rv"], w["block"], w["stmt"], 0)) == 0 and g_.blocks[w["block"]]["s"][w["stmt"]]["p"]["l"] == 2 and
                                          g_.blocks[w["block"]]["s"][w["stmt"]]["p"]["p"][:1] == ["*"] for w in cw):
                                have.add("growth_inside_checkpoint")
                ok = have == {"fee_growth_checkpoint_a", "fee_growth_checkpoint_b", "growth_inside_checkpoint"} and all(const_val(pv._rvalue(w["rv"], w["block"], w["stmt"], 0)) == 0 for w in zs)
                # ... into the position itself: the stored-to place is rooted at `self`, directly or through a `&mut` taken from it
                # (`for mut r in self.reward_infos { r.x = 0 }` zeroes a copy of the array)
                for w in zs:
                    st_ = fn.blocks[w["block"]]["s"][w["stmt"]]
                    l_ = st_["p"]["l"]
                    if l_ == 1:
                        continue
                    through_ref = fn.locals[l_]["t"].startswith("&mut") and st_["p"]["p"][:1] == ["*"] and \
                        mentions(pv.local(l_, w["block"], w["stmt"]), lambda t: t[0] == "param" and t[1] == "self")
                    if not through_ref:
                        ok = False
            else:
                zc = calls_to(fn, lambda p: p in (MP + "::set_fee_growth_checkpoint_a", MP + "::set_fee_growth_checkpoint_b"))
                # the reward checkpoints (reset_reward_growth_checkpoints is read spliced into this function): every element of
                # self.reward_infos gets growth_inside_checkpoint := 0
                rr = []
                for w in writes.field_stores(facts):
                    if w["fn"] is fn and w["field"] == "growth_inside_checkpoint" and w["last"]:
                        st_ = fn.blocks[w["block"]]["s"][w["stmt"]]
                        base = pv.local(st_["p"]["l"], w["block"], w["stmt"])
                        v_ = strip(pv._rvalue(w["rv"], w["block"], w["stmt"], 0))
                        zero = const_val(v_) == 0 or (v_[0] == "call" and v_[1].endswith("to_le_bytes") and const_val(v_[2][0]) == 0) or \
                            (v_[0] == "repeat" and const_val(v_[1]) == 0) or (v_[0] == "array" and all(const_val(x) == 0 for x in v_[1]))
                        every = mentions(base, lambda t: t[0] == "field" and t[2] == "reward_infos") and w["block"] in pv.cycle_blocks()
                        rr.append(zero and every)
                ok = len(zc) == 2 and all(const_val(a[1]) == 0 for (_, _, a) in zc) and len(rr) >= 1 and all(rr)
            run.check("R1", "reset-zeroes-checkpoints@" + short, ok, "%s does not reset all growth checkpoints to 0" % path, loc=fn.loc(), detail="fee checkpoints a/b and reward checkpoints := 0")
    # validate_tick_range atoms (both)
    for path in ("state::position::validate_tick_range_for_whirlpool", PINO_VALIDATOR):
        fn, lo_n, up_n = (facts.need_fn(path), "tick_lower_index", "tick_upper_index") if path != PINO_VALIDATOR else _pino_validator_view(facts)[:3]
        run.touch(fn)
        short = "anchor" if path.startswith("state") else "pino"
        usable = set()
        order = full = False
        for at in A.atoms(fn):
            s = show(at.term)
            if "check_is_usable_tick" in s or "check_is_usable_tick_and_get_offset" in s:
                t = strip(at.term)
                # !usable(x) => InvalidTickIndex
                if at.false_fail and "InvalidTickIndex" in at.false_codes:
                    for a in (t[2] if t[0] == "call" else ()):
                        if strip(a)[0] == "param":
                            usable.add({lo_n: "tick_lower_index", up_n: "tick_upper_index"}.get(strip(a)[1], strip(a)[1]))
            for (op, a, b) in fail_conditions(at):
                for (o, x, y) in ((op, a, b), (A.SWAP[op], b, a)):
                    if o == "Ge" and is_param(x, lo_n) and is_param(y, up_n) and "InvalidTickIndex" in _codes(at):
                        order = True
            if "FullRangeOnlyPool" in _codes(at):
                full = True
        run.check("R1", "usable-both@" + short, {"tick_lower_index", "tick_upper_index"} <= usable, "%s does not test usability of both bounds (tests %s)" % (path, sorted(usable)), loc=fn.loc(),
                  detail="!usable(lower) || !usable(upper) => InvalidTickIndex")
        run.check("R1", "lower-lt-upper@" + short, order, "%s does not reject lower >= upper" % path, loc=fn.loc(), detail="lower >= upper => InvalidTickIndex")
        # the threshold test, whichever way round it is written (>= before the rule, or < with an early return): the
        # FullRangeOnlyPool test is applied on the >= side and only there
        thr = False
        full_blocks = [at.block for at in A.atoms(fn) if "FullRangeOnlyPool" in _codes(at)]
        for at in A.atoms(fn):
            c = at.cond()
            if not c:
                continue
            for (o, x, y) in ((c[0], c[1], c[2]), (A.SWAP[c[0]], c[2], c[1])):
                if o in ("Ge", "Lt") and arg_name(x) == "tick_spacing" and const_val(y) == 32768:
                    ge_side, lt_side = (at.true_targets, at.false_targets) if o == "Ge" else (at.false_targets, at.true_targets)
                    r_ge = set().union(*[cfg.reach(fn, b, cut_blocks=[at.block]) for b in ge_side]) if ge_side else set()
                    r_lt = set().union(*[cfg.reach(fn, b, cut_blocks=[at.block]) for b in lt_side]) if lt_side else set()
                    if full_blocks and all(b in r_ge and b not in r_lt for b in full_blocks) and not at.true_fail and not at.false_fail:
                        thr = True
        run.check("R1", "full-range-only@" + short, full and thr, "%s lost the full-range-only rule for tick_spacing >= 32768" % path, loc=fn.loc(), detail="spacing >= 2^15 && range != full => FullRangeOnlyPool")


def R2_close(run):
    run.title("R2", "close paths burn / close only behind !is_position_empty => ClosePositionNotEmpty; is_position_empty = liquidity == 0 && fee_owed_a == 0 && "
                    "fee_owed_b == 0 && all reward amounts == 0; locked positions are refused by close(token-extensions), decrease and reposition before any effect")
    facts = run.facts
    fn = facts.need_fn(P + "::is_position_empty")
    run.touch(fn)
    fields = set()
    for at in A.atoms(fn):
        for s in subterms(at.term):
            if s[0] == "bin" and s[1] == "Eq":
                for (x, y) in ((s[2], s[3]), (s[3], s[2])):
                    if const_val(y) == 0 and arg_name(x):
                        fields.add(arg_name(x))
    pv = prov_of(fn)
    for bi, bb in enumerate(fn.blocks):
        for si, st in enumerate(bb["s"]):
            if st["k"] == "=" and st["rv"].get("bin") == "Eq":
                x, y = pv.operand(st["rv"]["a"], bi, si), pv.operand(st["rv"]["b"], bi, si)
                for (p, q) in ((x, y), (y, x)):
                    if const_val(q) == 0 and arg_name(p):
                        fields.add(arg_name(p))
    want = {"liquidity", "fee_owed_a", "fee_owed_b", "amount_owed"}
    loops = any((callee_path(t) or "").endswith("Range<usize>>::next") or "next" in (callee_path(t) or "") for _, t in fn.calls())
    bound = any(const_val(s) == 3 or (s[0] == "const" and s[2] and s[2].endswith("NUM_REWARDS")) for bi, t in fn.calls() for a in t["a"] for s in subterms(pv.operand(a, bi, len(fn.blocks[bi]["s"]))))
    # the same conjunction written as `reward_infos.iter().all(|r| r.amount_owed == 0)`: every element of the whole array, the test in the closure
    for bi, t in fn.calls():
        if not any(n.endswith(("Iterator::all", "Iterator>::all")) for n in (t["f"].get("raw") or "", callee_path(t) or "")) or len(t["a"]) != 2:
            continue
        recv, clo = (pv.operand(a, bi, len(fn.blocks[bi]["s"])) for a in t["a"])
        cl = [x for x in subterms(clo) if x[0] == "closure"]
        if arg_name(recv) != "reward_infos" or len(cl) != 1:
            continue
        cf = facts.fn(cl[0][1])
        if cf is None:
            continue
        run.touch(cf)
        pc = prov_of(cf)
        rets = [pc.local(0, b, len(bb["s"])) for b, bb in enumerate(cf.blocks) if bb["t"]["k"] == "ret"]
        r0 = strip(rets[0]) if len(rets) == 1 else None
        if r0 and r0[0] == "bin" and r0[1] == "Eq" and any(const_val(y) == 0 and arg_name(x) == "amount_owed" for x, y in ((r0[2], r0[3]), (r0[3], r0[2]))):
            fields.add("amount_owed")
            loops = bound = True
    run.check("R2", "empty-definition", want <= fields, "is_position_empty tests %s == 0, expected %s" % (sorted(fields), sorted(want)), loc=fn.loc(), detail="liquidity, fee_owed_a, fee_owed_b, reward amount_owed all == 0")
    run.check("R2", "empty-all-rewards", loops and bound, "is_position_empty does not loop over all NUM_REWARDS rewards", loc=fn.loc(), detail="for i in 0..NUM_REWARDS")
    closes = [("instructions::close_position::handler", ("burn_and_close_user_position_token",), "position"),
              ("instructions::close_position_with_token_extensions::handler", ("burn_and_close_user_position_token_2022",), "position"),
              ("instructions::close_bundled_position::handler", ("PositionBundle::close_bundled_position",), "bundled_position")]
    for hp, effs, pos in closes:
        h = facts.need_fn(hp)
        run.touch(h)
        eb = [bi for bi, t in h.calls() if (callee_path(t) or "").endswith(effs)]
        ok = False
        for at in A.atoms(h):
            if mentions(at.term, lambda s: s[0] == "call" and s[1] == P + "::is_position_empty" and acc(s[2][0]) == pos) and "ClosePositionNotEmpty" in _codes(at):
                fails_when_not_empty = at.false_fail
                ok = fails_when_not_empty and eb and all(A.guarded_by(h, at, b) for b in eb)
        run.check("R2", "close-empty-only@" + hp, ok, "%s can close a position that is not empty" % hp, loc=h.loc(), detail="!is_position_empty(%s) => ClosePositionNotEmpty before the close" % pos)
    # locked refusals
    locked_anchor = [("instructions::close_position_with_token_extensions::handler", ("burn_and_close_user_position_token_2022",))]
    for hp, effs in locked_anchor:
        h = facts.need_fn(hp)
        eb = [bi for bi, t in h.calls() if (callee_path(t) or "").endswith(effs)]
        ok = False
        for at in A.atoms(h):
            if mentions(at.term, lambda s: s[0] == "call" and s[1].endswith("is_locked_position")) and "OperationNotAllowedOnLockedPosition" in _codes(at):
                ok = at.true_fail and eb and all(A.guarded_by(h, at, b) for b in eb)
        run.check("R2", "locked-refused@" + hp, ok, "%s does not refuse locked positions before closing" % hp, loc=h.loc(), detail="is_locked => OperationNotAllowedOnLockedPosition")
    LOCKED_TESTS = ("pino_is_locked_position", "MemoryMappedTokenAccount::is_frozen")
    must_refuse = ["decrease_liquidity", "decrease_liquidity_v2", "reposition_liquidity_v2"]
    must_not = ["increase_liquidity", "increase_liquidity_v2", "increase_liquidity_by_token_amounts_v2"]
    for name in must_refuse + must_not:
        h = facts.need_fn("pinocchio::instructions::%s::handler" % name)
        run.touch(h)
        eb = [bi for bi, t in h.calls() if (callee_path(t) or "").rsplit("::", 1)[-1] in ("pino_sync_modify_liquidity_values", "decrease_liquidity_from_existing_range", "reset_position_range",
                                                                                          "pino_transfer_from_vault_to_owner", "pino_transfer_from_vault_to_owner_v2")]
        found = None
        for at in A.atoms(h):
            # (the one-line predicate, or the frozen test it consists of written in place)
            if mentions(at.term, lambda s: s[0] == "call" and s[1].endswith(LOCKED_TESTS)) and "OperationNotAllowedOnLockedPosition" in _codes(at):
                found = at
        if name in must_refuse:
            ok = found is not None and found.true_fail and eb and all(A.guarded_by(h, found, b) for b in eb)
            if ok:
                # applied to the position token account slot
                pv = prov_of(h)
                c = [s for s in subterms(found.term) if s[0] == "call" and s[1].endswith(LOCKED_TESTS)][0]
                a = pino.canon(h, c[2][0])
                ok = a[0] == "acct" and "position_token_account" in a[1]
            run.check("R2", "locked-refused@" + name, ok, "pinocchio %s does not refuse a locked (frozen) position before its effects" % name, loc=h.loc(),
                      detail="pino_is_locked_position(position token account) => OperationNotAllowedOnLockedPosition before %d effects" % len(eb))
        else:
            run.check("R2", "locked-allowed@" + name, found is None, "pinocchio %s refuses locked positions, but locked positions must still be able to add liquidity" % name, loc=h.loc(),
                      detail="no frozen check (locked positions can add liquidity)")
    for hp in ("instructions::collect_fees::handler", "instructions::v2::collect_fees::handler", "instructions::collect_reward::handler", "instructions::v2::collect_reward::handler",
               "instructions::update_fees_and_rewards::handler"):
        h = facts.need_fn(hp)
        found = any("OperationNotAllowedOnLockedPosition" in cfg.block_error_codes(h, b) for b in range(len(h.blocks)))
        run.check("R2", "locked-allowed@" + hp, not found, "%s refuses locked positions, but locked positions must still be able to collect" % hp, loc=h.loc(), detail="no frozen check (locked positions can collect)")


def R3_lock(run):
    run.title("R3", "lock_position: authority first, liquidity == 0 => PositionNotLockable, token must not already be frozen, then freeze and record the lock; "
                    "transfer_locked_position: owner check, must be locked, unfreeze -> transfer -> freeze(destination) -> close old account -> lock owner update")
    facts = run.facts
    h = facts.need_fn("instructions::lock_position::handler")
    run.touch(h)
    fz = calls_to(h, ends("freeze_user_position_token_2022"))
    li = calls_to(h, ends("LockConfig::initialize"))
    va = calls_to(h, ends("verify_position_authority_interface"))
    ok = len(fz) == 1 and len(li) == 1 and len(va) == 1
    if ok:
        ok = cfg.must_pass_call(h, va[0][0])[0] and cfg.dominates(h, va[0][0], fz[0][0]) and cfg.dominates(h, fz[0][0], li[0][0]) and cfg.must_pass_call(h, fz[0][0])[0]
    run.check("R3", "lock-order", ok, "lock_position is not authority check -> freeze -> record lock, each must-pass", loc=h.loc(), detail="verify authority? ; freeze? ; lock_config.initialize")
    nz = False
    for at in A.atoms(h):
        for (op, a, b) in fail_conditions(at):
            for (o, x, y) in ((op, a, b), (A.SWAP[op], b, a)):
                if o == "Eq" and acc_chain(x) == "position.liquidity" and const_val(y) == 0 and "PositionNotLockable" in _codes(at):
                    nz = fz and all(A.guarded_by(h, at, b) for (b, _, _) in fz)
    run.check("R3", "lock-requires-liquidity", nz, "lock_position does not reject positions with zero liquidity before freezing", loc=h.loc(), detail="position.liquidity == 0 => PositionNotLockable")
    st = ACC.by_name(facts, "LockPosition")
    f = st.field("position_token_account") if st else None
    ok = f is not None and "!position_token_account.is_frozen()" in f.values("constraint")
    run.check("R3", "lock-not-already-frozen", ok, "LockPosition.position_token_account lacks constraint !is_frozen()", loc=st.loc("position_token_account") if st else None, detail="constraint = !is_frozen()")
    if li:
        a = li[0][2]
        ok = is_call(a[1], "key") and acc(a[1]) == "position" and acc_chain(a[2]) == "position_token_account.owner" and acc_chain(a[3]) == "position.whirlpool"
        run.check("R3", "lock-record", ok, "lock_config.initialize is not given (position key, token account owner, position.whirlpool, ..)", loc=h.loc(li[0][1]["l"]), detail="(position, owner, pool, now, type)")
    h = facts.need_fn("instructions::transfer_locked_position::handler")
    run.touch(h)
    seq = []
    for name in ("validate_owner", "unfreeze_user_position_token_2022", "transfer_user_position_token_2022", "freeze_user_position_token_2022", "close_empty_token_account_2022", "LockConfig::update_position_owner"):
        cs = calls_to(h, ends(name))
        seq.append((name, cs))
    inplace = None
    if not seq[0][1]:
        # the owner check written in place (same two tests, same error): its block stands for the call
        from rules.C04 import inplace_owner_check
        inplace = inplace_owner_check(h)
        if inplace is not None and inplace[3]:
            seq[0] = ("validate_owner", [(inplace[0], None, [inplace[1], inplace[2]])])
    ok = all(len(cs) == 1 for _, cs in seq)
    if ok:
        blocks = [cs[0][0] for _, cs in seq]
        ok = all(cfg.dominates(h, blocks[i], blocks[i + 1]) for i in range(len(blocks) - 1)) and all(cfg.must_pass_call(h, b)[0] for b in (blocks[1:-1] if inplace else blocks[:-1]))
    run.check("R3", "transfer-sequence", ok, "transfer_locked_position is not owner check -> unfreeze -> transfer -> freeze -> close -> owner update, each must-pass in this order", loc=h.loc(),
              detail="validate_owner? ; unfreeze? ; transfer? ; freeze? ; close? ; update_position_owner")
    if ok:
        fr = seq[3][1][0][2]
        tr = seq[2][1][0][2]
        up = seq[5][1][0][2]
        ok = acc(fr[1]) == "destination_token_account" and acc(tr[2]) == "position_token_account" and acc(tr[3]) == "destination_token_account" and acc_chain(up[1]) == "destination_token_account.owner" \
            and acc(seq[1][1][0][2][1]) == "position_token_account"
        run.check("R3", "transfer-accounts", ok, "transfer_locked_position: unfreeze(source), transfer(source -> destination), freeze(destination), lock owner := destination owner — accounts do not match", loc=h.loc(),
                  detail="source unfrozen, destination frozen, owner := destination.owner")
    lk = False
    for at in A.atoms(h):
        if mentions(at.term, lambda s: s[0] == "call" and s[1].endswith("is_locked_position")) and at.false_fail:
            lk = True
    run.check("R3", "transfer-must-be-locked", lk, "transfer_locked_position does not require the position to be locked", loc=h.loc(), detail="!is_locked => diverge")


def R4_one_token(run):
    run.title("R4", "position (bundle) tokens are minted with amount 1 and the mint authority is removed on every success path; open handlers use only the "
                    "mint-and-remove-authority helpers")
    facts = run.facts
    for path in ("util::token::mint_position_token", "util::token::mint_position_bundle_token", "util::token_2022::mint_position_token_2022_and_remove_authority"):
        fn = facts.fn(path)
        if fn is None:
            run.missing("R4", "mint@" + path, "function not found")
            continue
        run.touch(fn)
        ms = calls_to(fn, lambda p: p.endswith("instruction::mint_to"))
        ok = len(ms) == 1 and const_val(ms[0][2][-1]) == 1
        run.check("R4", "amount-one@" + path.rsplit("::", 1)[-1], ok, "%s mints %s tokens, expected exactly 1" % (path, [sh(c[2][-1], 20) for c in ms]), loc=fn.loc(), detail="mint_to(.., 1)")
    for path, mint, remove in (("util::token::mint_position_token_and_remove_authority", "util::token::mint_position_token", "util::token::remove_position_token_mint_authority"),
                               ("util::token::mint_position_token_with_metadata_and_remove_authority", "util::token::mint_position_token", "util::token::remove_position_token_mint_authority"),
                               ("util::token::mint_position_bundle_token_and_remove_authority", "util::token::mint_position_bundle_token", "util::token::remove_position_bundle_token_mint_authority"),
                               ("util::token::mint_position_bundle_token_with_metadata_and_remove_authority", "util::token::mint_position_bundle_token", "util::token::remove_position_bundle_token_mint_authority")):
        fn = facts.need_fn(path)
        run.touch(fn)
        m = calls_to(fn, lambda p: p == mint)
        r = calls_to(fn, lambda p: p == remove)
        ok = len(m) == 1 and len(r) == 1 and cfg.dominates(fn, m[0][0], r[0][0]) and cfg.must_pass_call(fn, m[0][0])[0] and cfg.must_pass_call(fn, r[0][0])[0]
        if ok:
            ok = arg_name(m[0][2][1]) == arg_name(r[0][2][1])  # same mint
        run.check("R4", "mint-then-remove@" + path.rsplit("::", 1)[-1], ok, "%s does not mint and then remove the mint authority of the same mint on every success path" % path, loc=fn.loc(),
                  detail="mint(1)? ; remove authority (must-pass)")
    for path in ("util::token::remove_position_token_mint_authority", "util::token::remove_position_bundle_token_mint_authority"):
        fn = facts.need_fn(path)
        sa = calls_to(fn, lambda p: p.endswith("instruction::set_authority"))
        ok = len(sa) == 1
        if ok:
            a = sa[0][2]
            new_auth = strip(a[2])
            ok = new_auth[0] == "agg" and new_auth[2] == "None" and any(s[0] == "agg" and s[2] == "MintTokens" for s in subterms(a[3]))
        run.check("R4", "authority-none@" + path.rsplit("::", 1)[-1], ok, "%s does not set the MintTokens authority to None" % path, loc=fn.loc(), detail="set_authority(mint, None, MintTokens)")
    fn = facts.need_fn("util::token_2022::mint_position_token_2022_and_remove_authority")
    sa = calls_to(fn, lambda p: p.endswith("instruction::set_authority"))
    ms = calls_to(fn, lambda p: p.endswith("instruction::mint_to"))
    ok = len(sa) == 1 and len(ms) == 1 and cfg.dominates(fn, ms[0][0], sa[0][0]) and strip(sa[0][2][2])[0] == "agg" and strip(sa[0][2][2])[2] == "None" and \
        not cfg.success_reach(fn, 0, cut_blocks=[sa[0][0]])
    run.check("R4", "mint-then-remove@mint_position_token_2022_and_remove_authority", ok, "token-2022 position mint does not remove the mint authority on every success path", loc=fn.loc(),
              detail="mint_to(1) ; set_authority(None, MintTokens) must-pass")
    # handlers
    opens = {"open_position": "mint_position_token_and_remove_authority", "open_position_with_metadata": "mint_position_token_with_metadata_and_remove_authority",
             "open_position_with_token_extensions": "mint_position_token_2022_and_remove_authority", "initialize_position_bundle": "mint_position_bundle_token_and_remove_authority",
             "initialize_position_bundle_with_metadata": "mint_position_bundle_token_with_metadata_and_remove_authority"}
    for e in program.entries(facts):
        if e.name in opens and e.handler:
            h = facts.need_fn(e.handler)
            run.touch(h)
            cs = calls_to(h, ends(opens[e.name]))
            bare = calls_to(h, lambda p: p.endswith(("::mint_position_token", "::mint_position_bundle_token", "instruction::mint_to")))
            ok = len(cs) == 1 and not bare and (cs[0][1]["d"]["l"] == 0 or cfg.must_pass_call(h, cs[0][0])[0])
            run.check("R4", "handler@" + e.name, ok, "%s does not mint its token through %s as a must-pass step" % (e.name, opens[e.name]), loc=h.loc(), detail=opens[e.name])


def R5_bundle(run):
    run.title("R5", "PositionBundle::update_bitmap: index >= 256 => InvalidBundleIndex; open on an opened bit / close on a closed bit are errors; otherwise exactly that bit "
                    "is flipped; open passes true, close false; deletion requires is_deletable (all bytes zero)")
    facts = run.facts
    fn = facts.need_fn("state::position_bundle::PositionBundle::update_bitmap")
    run.touch(fn)
    # (is_valid_bundle_index is read spliced in: the helper call and the comparison written in place are one text)
    from rules.common import decided
    idx = False
    for at in A.atoms(fn):
        dc = decided(at, lambda t: is_param(t, "bundle_index"), ("Ge", "Gt"))
        if dc is None or "InvalidBundleIndex" not in _codes(at):
            continue
        bound = const_val(dc[2])
        if bound is not None and bound + (1 if dc[0] == "Gt" else 0) == 256 and cfg.fail_only(fn, dc[3][0]) and not cfg.fail_only(fn, dc[4][0]) \
                and cfg.dominates(fn, at.block, at.block) and not [b for b in cfg.reach(fn, 0, cut_blocks=[at.block]) if fn.blocks[b]["t"]["k"] == "ret"]:
            idx = True
    run.check("R5", "index-bound", idx, "update_bitmap does not reject bundle indexes >= 256 with InvalidBundleIndex before anything else", loc=fn.loc(),
              detail="bundle_index >= POSITION_BUNDLE_SIZE (256) => InvalidBundleIndex")
    for open_ in (True, False):
        ctx = {"open": open_}
        code = "BundledPositionAlreadyOpened" if open_ else "BundledPositionAlreadyClosed"
        other = "BundledPositionAlreadyClosed" if open_ else "BundledPositionAlreadyOpened"
        fl = preach.flow(fn, ctx)
        reach_codes = set()
        for b in fl.reachable():
            reach_codes |= cfg.block_error_codes(fn, b)
        run.check("R5", "reject[open=%d]" % open_, code in reach_codes and other not in reach_codes, "update_bitmap(open=%s) can fail with %s" % (open_, sorted(reach_codes & {code, other})), loc=fn.loc(),
                  detail="only %s" % code)
        # ... and exactly when the bit already has the requested state
        bits = [at for at in A.atoms(fn, ctx) if at.cond() and at.cond()[0] in ("Ne", "Eq") and const_val(at.cond()[2]) == 0 and strip(at.cond()[1])[0] == "bin" and strip(at.cond()[1])[1] == "BitAnd"]
        ok = len(bits) == 1
        if ok:
            at = bits[0]
            set_fails = at.true_fail if at.cond()[0] == "Ne" else at.false_fail
            clear_fails = at.false_fail if at.cond()[0] == "Ne" else at.true_fail
            ok = (set_fails, clear_fails) == ((True, False) if open_ else (False, True))
            m = strip(at.cond()[1])
            ok = ok and any(strip(x)[0] == "bin" and strip(x)[1] in ("Shl", "ShlUnchecked") and const_val(strip(x)[2]) == 1 for x in (m[2], m[3]))
        run.check("R5", "reject-iff-same-state[open=%d]" % open_, ok, "update_bitmap(open=%s) must fail exactly when the index's bit is already %s" % (open_, "set" if open_ else "clear"), loc=fn.loc(),
                  detail="bit %s => %s" % ("set" if open_ else "clear", code))
    pv = prov_of(fn)
    ws = [w for w in writes.field_stores(facts) if w["fn"] is fn and w["field"] == "position_bitmap"]
    ok = len(ws) == 1
    if ok:
        val = strip(pv._rvalue(ws[0]["rv"], ws[0]["block"], ws[0]["stmt"], 0))
        ok = val[0] == "bin" and val[1] == "BitXor"
        if ok:
            bitmap, mask = strip(val[2]), strip(val[3])
            if bitmap[0] != "index":
                bitmap, mask = mask, bitmap
            ok = bitmap[0] == "index" and mask[0] == "bin" and mask[1] in ("Shl", "ShlUnchecked") and const_val(mask[2]) == 1
            if ok:
                off = strip(mask[3])
                ix = strip(bitmap[2])
                ok = off[0] == "bin" and off[1] == "Rem" and is_param(off[2], "bundle_index") and const_val(off[3]) == 8 and \
                    mentions(ix, lambda s: s[0] == "bin" and s[1] == "Div" and is_param(s[2], "bundle_index") and const_val(s[3]) == 8)
                # stored to the same byte index
                st = fn.blocks[ws[0]["block"]]["s"][ws[0]["stmt"]]
                didx = [pv.local(e["ix"], ws[0]["block"], ws[0]["stmt"]) for e in st["p"]["p"] if isinstance(e, dict) and "ix" in e]
                ok = ok and len(didx) == 1 and strip(didx[0]) == ix
    run.check("R5", "single-bit-flip", ok, "update_bitmap does not store bitmap[i/8] ^ (1 << (i%8)) back to bitmap[i/8]", loc=fn.loc(), detail="bitmap[i/8] ^= 1 << (i % 8)")
    for name, val in (("open_bundled_position", 1), ("close_bundled_position", 0)):
        g = facts.need_fn("state::position_bundle::PositionBundle::" + name)
        cs = calls_to(g, ends("PositionBundle::update_bitmap"))
        ok = len(cs) == 1 and const_val(cs[0][2][2]) == val and is_param(cs[0][2][1], "bundle_index")
        run.check("R5", "flag@" + name, ok, "%s does not call update_bitmap(bundle_index, %s)" % (name, bool(val)), loc=g.loc(), detail="update_bitmap(index, %s)" % bool(val))
    h = facts.need_fn("instructions::delete_position_bundle::handler")
    # (the bundle wrapper only forwards to burn_and_close_user_position_token: either call is the burn)
    eb = [bi for bi, t in h.calls() if (callee_path(t) or "").endswith(("burn_and_close_position_bundle_token", "burn_and_close_user_position_token"))]
    ok = False
    for at in A.atoms(h):
        if mentions(at.term, lambda s: s[0] == "call" and s[1].endswith("is_deletable")) and "PositionBundleNotDeletable" in _codes(at):
            ok = at.false_fail and eb and all(A.guarded_by(h, at, b) for b in eb)
    run.check("R5", "delete-gated", ok, "delete_position_bundle is not gated by is_deletable", loc=h.loc(), detail="!is_deletable => PositionBundleNotDeletable")
    d = facts.need_fn("state::position_bundle::PositionBundle::is_deletable")
    ok = any(at.cond() and at.cond()[0] in ("Ne", "Eq") and const_val(at.cond()[2]) == 0 and ({("const", 0)} in (at.true_ret, at.false_ret)) for at in A.atoms(d))
    if not ok:
        # the same predicate as an iterator: position_bitmap.iter().all(|b| *b == 0)
        pvd = prov_of(d)
        for bi, bb in enumerate(d.blocks):
            if bb["t"]["k"] != "ret":
                continue
            r = strip(pvd.local(0, bi, len(bb["s"])))
            if r[0] == "call" and r[1].endswith("::all") and len(r[2]) == 2 and mentions(r[2][0], lambda t: t[0] == "field" and t[2] == "position_bitmap"):
                cl = [x for x in subterms(r[2][1]) if x[0] == "closure"]
                cf = facts.fn(cl[0][1]) if len(cl) == 1 else None
                if cf is not None:
                    pc = prov_of(cf)
                    for bj, cb in enumerate(cf.blocks):
                        if cb["t"]["k"] == "ret":
                            v = strip(pc.local(0, bj, len(cb["s"])))
                            ok = v[0] == "bin" and v[1] == "Eq" and {const_val(v[2]), const_val(v[3])} >= {0} and \
                                any(strip(x)[0] == "param" for x in (v[2], v[3]))
    run.check("R5", "deletable-all-zero", ok, "is_deletable does not return false on the first non-zero bitmap byte", loc=d.loc(), detail="any byte != 0 => false")
    # handlers pass the instruction's index and it matches the PDA seed
    for name in ("open_bundled_position", "close_bundled_position"):
        h = facts.need_fn("instructions::%s::handler" % name)
        cs = calls_to(h, ends("PositionBundle::" + name))
        ok = len(cs) == 1 and is_param(cs[0][2][1], "bundle_index") and acc(cs[0][2][0]) == "position_bundle" and (cs[0][1]["d"]["l"] == 0 or cfg.must_pass_call(h, cs[0][0])[0])
        run.check("R5", "handler@" + name, ok, "%s does not flip the bit of its own bundle_index on its own bundle (must-pass)" % name, loc=h.loc(), detail="position_bundle.%s(bundle_index)?" % name)


def R6_one_sided(run):
    run.title("R6", "opening handlers call resolve_one_sided_position_ticks(lower, upper, pool.tick_spacing, pool.sqrt_price) and open the position with exactly its result")
    facts = run.facts
    n = 0
    for e in program.entries(facts):
        if not e.handler or not e.name.startswith(("open_position", "open_bundled_position")):
            continue
        h = facts.need_fn(e.handler)
        run.touch(h)
        n += 1
        rs = calls_to(h, ends("resolve_one_sided_position_ticks"))
        op = calls_to(h, ends("Position::open_position"))
        ok = len(rs) == 1 and len(op) == 1
        if ok:
            a = rs[0][2]
            ok = is_param(a[0], "tick_lower_index") and is_param(a[1], "tick_upper_index") and acc_chain(a[2]) == "whirlpool.tick_spacing" and acc_chain(a[3]) == "whirlpool.sqrt_price"
            o = op[0][2]
            lo, up = strip(o[3]), strip(o[4])
            ok = ok and lo[0] == "field" and lo[2] == "0" and up[0] == "field" and up[2] == "1" and is_call(lo[1], "resolve_one_sided_position_ticks") and strip(lo[1]) == strip(up[1]) \
                and acc(o[1]) == "whirlpool" and cfg.must_pass_call(h, rs[0][0])[0] and cfg.must_pass_call(h, op[0][0])[0]
        run.check("R6", "resolved-range@" + e.name, ok, "%s does not open the position with resolve_one_sided_position_ticks(lower, upper, pool spacing, pool price)?.(0, 1)" % e.name, loc=h.loc(),
                  detail="open_position(pool, mint, resolved.0, resolved.1)?")
    run.floor("R6", "opening handlers", n, 4)
    fn = facts.need_fn("util::shared::resolve_one_sided_position_ticks")
    both = any("InvalidTickIndex" in _codes(at) for at in A.atoms(fn))
    run.check("R6", "both-sentinels-rejected", both, "resolve_one_sided_position_ticks no longer fails with InvalidTickIndex", loc=fn.loc(), detail="both sentinels / crossed bounds => InvalidTickIndex")


def R6b_explicit_bound_kept(run):
    run.title("R6b", "resolve_one_sided_position_ticks hands the caller's explicit bound back in its own place and derives only the sentinel side: "
                     "lower = MIN sentinel => (derived, upper as given); upper = MAX sentinel => (lower as given, derived); an explicit bound on the wrong "
                     "side of the price therefore reaches the range validation inverted and is refused, it is not re-ordered into a range that straddles the price")
    facts = run.facts
    fn = facts.need_fn("util::shared::resolve_one_sided_position_ticks")
    run.touch(fn)
    lo_at = [at for at in A.atoms(fn) if at.cond() and at.cond()[0] in ("Eq", "Ne") and is_param(at.cond()[1], "tick_lower_index") and const_val(at.cond()[2]) == -2147483648]
    up_at = [at for at in A.atoms(fn) if at.cond() and at.cond()[0] in ("Eq", "Ne") and is_param(at.cond()[1], "tick_upper_index") and const_val(at.cond()[2]) == 2147483647]
    fr_at = [at for at in A.atoms(fn) if at.cond() and at.cond()[0] in ("Ge", "Lt") and is_param(at.cond()[1], "tick_spacing")]
    if not lo_at or not up_at:
        run.missing("R6b", "sentinel-tests", "the tests lower == i32::MIN / upper == i32::MAX were not found", loc=fn.loc())
        return

    def results(lower_sentinel, upper_sentinel):
        asm = [(at, (at.cond()[0] == "Eq") == lower_sentinel) for at in lo_at] + [(at, (at.cond()[0] == "Eq") == upper_sentinel) for at in up_at] + \
              [(at, at.cond()[0] != "Ge") for at in fr_at]
        pv = prov_assuming(fn, asm)
        out = []
        for bi, bb in enumerate(fn.blocks):
            if bb["t"]["k"] == "ret" and pv.flow.state_in[bi] is not None:
                for l in leaves(pv.local(0, bi, len(bb["s"]))):
                    if l[0] == "agg" and l[2] == "Ok" and strip(dict(l[3])["0"])[0] == "tuple":
                        out.append(strip(dict(l[3])["0"])[1])
        return out
    # the two resolved values are plain locals nobody else can rewrite: neither is mutably borrowed (a `mem::swap(&mut lo, &mut hi)`
    # would re-order them behind the value analysis' back)
    from analysis.ir import op_place
    ret_locals = set()
    for bb in fn.blocks:
        for st in bb["s"]:
            if st["k"] == "=" and (st["rv"].get("agg") or {}).get("k") == "tuple" and len(st["rv"].get("ops", [])) == 2:
                for o in st["rv"]["ops"]:
                    pl = op_place(o)
                    if pl is not None and not pl.get("p"):
                        ret_locals.add(pl["l"])
    # (through copies)
    for _ in range(3):
        for bb in fn.blocks:
            for st in bb["s"]:
                if st["k"] == "=" and st["p"]["l"] in ret_locals and not st["p"].get("p") and "use" in st["rv"]:
                    pl = op_place(st["rv"]["use"])
                    if pl is not None and not pl.get("p"):
                        ret_locals.add(pl["l"])
    borrowed = sorted({fn.locals[st["rv"]["ref"]["l"]].get("n") or "_%d" % st["rv"]["ref"]["l"] for bb in fn.blocks if not bb["c"] for st in bb["s"]
                       if st["k"] == "=" and isinstance(st["rv"].get("ref"), dict) and st["rv"].get("m") and not st["rv"]["ref"].get("p") and st["rv"]["ref"]["l"] in ret_locals})
    run.check("R6b", "no-rewrite-behind", not borrowed, "resolve_one_sided_position_ticks hands %s to something that can rewrite it (&mut)" % borrowed, loc=fn.loc(), detail="resolved bounds are never mutably borrowed")
    for name, ls, us, kept_ix, kept_param in (("lower-derived", True, False, 1, "tick_upper_index"), ("upper-derived", False, True, 0, "tick_lower_index")):
        rs = results(ls, us)
        ok = bool(rs)
        why = "no Ok((lower, upper)) result in this case"
        for r in rs:
            kept = leaves(r[kept_ix])
            derived = leaves(r[1 - kept_ix])
            if not all(is_param(x, kept_param) for x in kept):
                ok, why = False, "the explicit bound's place holds %s" % [sh(x, 40) for x in kept]
            if any(strip(x)[0] == "param" for x in derived):
                ok, why = False, "the derived side holds %s" % [sh(x, 40) for x in derived]
        run.check("R6b", name, ok, "resolve_one_sided_position_ticks with %s: %s" % ("lower = i32::MIN" if ls else "upper = i32::MAX", why), loc=fn.loc(),
                  detail="(derived, upper as given)" if ls else "(lower as given, derived)")


def R7_range_validator(run):
    run.title("R7", "validate_tick_range_for_whirlpool (both): each bound not usable for the pool's spacing, or lower >= upper => InvalidTickIndex; on spacing >= 32768 a lower bound other "
                    "than the full-range lower OR an upper bound other than the full-range upper => FullRangeOnlyPool (each comparison fails on its own); "
                    "check_is_usable_tick = in [MIN, MAX] and a multiple of the spacing")
    facts = run.facts
    for path in ("state::position::validate_tick_range_for_whirlpool", PINO_VALIDATOR):
        fn, lo_n, up_n = (facts.need_fn(path), "tick_lower_index", "tick_upper_index") if path != PINO_VALIDATOR else _pino_validator_view(facts)[:3]
        cn = {lo_n: "tick_lower_index", up_n: "tick_upper_index"}
        run.touch(fn)
        short = "pinocchio" if path.startswith("pinocchio") else "anchor"
        got = set()
        for at in A.atoms(fn):
            codes_t, codes_f = at.true_codes if at.true_fail else set(), at.false_codes if at.false_fail else set()
            c = at.cond()
            t = strip(at.term)
            if is_call(t, "check_is_usable_tick") and at.false_fail and "InvalidTickIndex" in codes_f:
                a0 = strip(t[2][0])
                got.add("usable(%s)" % (cn.get(a0[1], a0[1]) if a0[0] == "param" else "?"))
            elif c:
                for (o, x, y, fails) in ((c[0], c[1], c[2], at.true_fail), (A.NEG[c[0]], c[1], c[2], at.false_fail)):
                    if not fails:
                        continue
                    codes = codes_t if fails is at.true_fail and o == c[0] else codes_f
                    for (oo, xx, yy) in ((o, x, y), (A.SWAP[o], y, x)):
                        if oo == "Ge" and is_param(xx, lo_n) and is_param(yy, up_n) and "InvalidTickIndex" in (at.true_codes | at.false_codes):
                            got.add("lower>=upper")
                        if oo == "Ne" and strip(xx)[0] == "param" and strip(yy)[0] == "field" and is_call(strip(yy)[1], "full_range_indexes") and "FullRangeOnlyPool" in (at.true_codes | at.false_codes):
                            got.add("%s!=full.%s" % (cn.get(strip(xx)[1], strip(xx)[1]), strip(yy)[2]))
        want = {"usable(tick_lower_index)", "usable(tick_upper_index)", "lower>=upper", "tick_lower_index!=full.0", "tick_upper_index!=full.1"}
        run.check("R7", "rejections@" + short, got == want, "%s rejects %s; expected %s" % (path, sorted(got), sorted(want)), loc=fn.loc(), detail="5 independent rejections")
        gate = [at for at in A.atoms(fn) if at.cond() and at.cond()[0] in ("Ge", "Lt") and arg_name(at.cond()[1]) == "tick_spacing" and const_val(at.cond()[2]) == 32768]
        ok = len(gate) == 1
        if ok:
            at = gate[0]
            side = at.true_targets[0] if at.cond()[0] == "Ge" else at.false_targets[0]
            other = at.false_targets[0] if at.cond()[0] == "Ge" else at.true_targets[0]
            fr = [b for b, t in fn.calls() if (callee_path(t) or "").endswith("full_range_indexes")]
            ok = bool(fr) and all(b in cfg.reach(fn, side, cut_blocks=[at.block]) and b not in cfg.reach(fn, other, cut_blocks=[at.block]) for b in fr)
        run.check("R7", "full-range-gate@" + short, ok, "%s does not apply the full-range requirement exactly when tick_spacing >= 32768" % path, loc=fn.loc(), detail="spacing >= FULL_RANGE_ONLY_TICK_SPACING_THRESHOLD")
    u = facts.need_fn("state::tick::Tick::check_is_usable_tick")
    run.touch(u)
    oob = facts.need_fn("state::tick::Tick::check_is_out_of_bounds")
    run.touch(oob)
    pvo = prov_of(oob)
    conds = set()
    for bi, bb in enumerate(oob.blocks):
        if bb["t"]["k"] == "ret":
            for r in leaves(pvo.local(0, bi, len(bb["s"]))):
                for s_ in [x for x in subterms(r) if x[0] == "bin" and x[1] in ("Lt", "Gt", "Le", "Ge")] :
                    for (o, x, y) in ((s_[1], s_[2], s_[3]), (A.SWAP[s_[1]], s_[3], s_[2])):
                        if is_param(x, "tick_index") and const_val(y) in (-443636, 443636):
                            conds.add((o, const_val(y)))
    from analysis.match import range_bounds
    for bi, bb in enumerate(oob.blocks):
        if bb["t"]["k"] == "ret":
            for r in leaves(pvo.local(0, bi, len(bb["s"]))):
                r = strip(r)
                if r[0] == "un" and r[1] == "Not" and is_call(r[2], "contains"):
                    c_ = strip(r[2])
                    rb = range_bounds(c_[2][0])
                    item = strip(c_[2][1])
                    item = strip(item[1]) if item[0] == "ref" else item
                    if rb and is_param(item, "tick_index") and const_val(rb[0]) == -443636 and const_val(rb[1]) == 443636 and rb[2]:
                        conds |= {("Lt", -443636), ("Gt", 443636)}
    for at in A.atoms(oob):
        c = at.cond()
        if c:
            for (o, x, y) in ((c[0], c[1], c[2]), (A.SWAP[c[0]], c[2], c[1])):
                if is_param(x, "tick_index") and const_val(y) in (-443636, 443636):
                    conds.add((o, const_val(y)))
    gate = [at for at in A.atoms(u) if is_call(at.term, "check_is_out_of_bounds") and is_param(strip(at.term)[2][0], "tick_index") and at.true_ret and all(const_val(x) == 0 for x in at.true_ret)]
    pvu = prov_of(u)
    rets = [strip(x) for bi, bb in enumerate(u.blocks) if bb["t"]["k"] == "ret" for x in leaves(pvu.local(0, bi, len(bb["s"])))]
    mod = [r for r in rets if r[0] == "bin" and r[1] in ("Eq",) and const_val(r[3]) == 0 and strip(r[2])[0] == "bin" and strip(r[2])[1] == "Rem" and is_param(strip(r[2])[2], "tick_index")]
    ok = {("Lt", -443636), ("Gt", 443636)} <= conds and len(gate) == 1 and len(mod) == 1
    run.check("R7", "usable-tick", ok, "check_is_usable_tick is not (MIN_TICK_INDEX <= tick <= MAX_TICK_INDEX) && tick %% spacing == 0: bounds %s, returns %s" % (sorted(conds), [sh(r, 40) for r in rets]),
              loc=u.loc(), detail="in [-443636, 443636] and tick % spacing == 0")


RULES = [R1_range_fields, R2_close, R3_lock, R4_one_token, R5_bundle, R6_one_sided, R6b_explicit_bound_kept, R7_range_validator]
