"""C19 Pools exist only with in-bound parameters and over supported token mints.

Decided (structural necessary conditions): every store of a bounded parameter is
guarded by its bound check; sqrt_price / tick_spacing / mint order are checked at
initialisation and the initial tick is the tick of the initial price; adaptive-fee constants are stored only behind validate_constants,
whose atoms are the published rules; the mint admission table per extension and
badge state; badge identity check; admission must-pass before pool/reward init.
Also decided: parameter-changing instructions tie the accounts they validate against and write to (C15.R3
instances re-decided here);
Also decided: an extension arm of the mint admission can only reject or go on to the next extension (never accept), so every
extension of a mint is looked at.
Also decided: the extension-type parser lists every extension it walks over (no test other than the walk's own termination can skip the push).
Not decided: reachability of out-of-bound prices through swap arithmetic."""
from analysis import cfg, writes, atoms as A, preach
from analysis.ir import callee_path, op_place, AnchorMissing
from analysis.prov import prov_of, show, strip, leaves, subterms
from analysis.match import (const_name, const_val, is_param, same, fail_conditions, ret_conditions,
                            sh, chain, is_call, is_field, mentions)

WP = "state::whirlpool::Whirlpool"

# (adt, field, bound in the property statement, description)
BOUNDED = [
    (WP, "fee_rate", 60000, "pool fee rate <= 6% (60_000 hundredths of a bp)"),
    (WP, "protocol_fee_rate", 2500, "pool protocol fee rate <= 25% (2_500 bp)"),
    ("state::fee_tier::FeeTier", "default_fee_rate", 60000, "fee tier default rate <= 6%"),
    ("state::adaptive_fee_tier::AdaptiveFeeTier", "default_base_fee_rate", 60000, "adaptive tier base rate <= 6%"),
    ("state::config::WhirlpoolsConfig", "default_protocol_fee_rate", 2500, "config default protocol fee rate <= 25%"),
]


def _stored_value(fn, w):
    pv = prov_of(fn)
    rv = w["rv"]
    if "callres" in rv:
        return ("unknown", "callres")
    return pv._rvalue(rv, w["block"], w["stmt"], 0)


def R1_bounded_stores(run):
    run.title("R1", "every store to a bounded parameter field is dominated by the non-failing edge of `value > BOUND` "
                    "on the stored value, BOUND evaluating to the bound in the property statement; no &mut escape of the field")
    facts = run.facts
    n = 0
    for adt, field, bound, desc in BOUNDED:
        ws = writes.writers_of(facts, adt, field)
        if not ws:
            run.missing("R1", "%s.%s" % (adt.rsplit("::", 1)[-1], field), "no writer of %s.%s found" % (adt, field))
            continue
        for w in ws:
            fn = w["fn"]
            run.touch(fn)
            n += 1
            inst = "%s.%s@%s" % (adt.rsplit("::", 1)[-1], field, fn.path)
            loc = fn.loc(w["line"])
            if w["kind"] == "mutref":
                run.bad("R1", inst, "a mutable reference to bounded field %s.%s escapes in %s (unguarded write possible)" % (adt, field, fn.path), loc=loc)
                continue
            val = _stored_value(fn, w)
            ok = False
            found = []
            for at in A.atoms(fn):
                for (op, a, b) in fail_conditions(at):
                    found.append("%s %s %s" % (sh(a, 80), op, sh(b, 80)))
                    # value > BOUND  (or BOUND < value)
                    cands = [(op, a, b), (A.SWAP[op], b, a)]
                    for (o, x, y) in cands:
                        if o == "Gt" and same(x, val) and const_val(y) == bound:
                            if A.guarded_by(fn, at, w["block"]):
                                ok = True
            run.check("R1", inst, ok,
                      "store to %s.%s in %s is not guarded by `value > %d => error` on the stored value %s" % (adt, field, fn.path, bound, sh(val)),
                      loc=loc, expected="fail-edge of (%s > %d) dominating the store" % (sh(val, 60), bound),
                      found="; ".join(found) or "no failing comparison",
                      detail="%s: store of %s guarded by > %d" % (desc, sh(val, 60), bound))
    run.floor("R1", "bounded-field stores", n, 5)


def R1b_no_other_whirlpool_writers(run):
    run.title("R1b", "no whole-value overwrite of a Whirlpool / FeeTier / AdaptiveFeeTier / WhirlpoolsConfig account value, "
                     "and the Pinocchio byte view of the pool has setters only for liquidity, reward growth and timestamp")
    facts = run.facts
    for adt in (WP, "state::fee_tier::FeeTier", "state::adaptive_fee_tier::AdaptiveFeeTier", "state::config::WhirlpoolsConfig"):
        ws = [w for w in writes.whole_stores(facts, adt)]
        # `set_inner` of anchor's Account<T> replaces the whole value
        for fn in facts.fn_list:
            if fn.kind == "const":
                continue
            for bi, t in fn.calls():
                raw = t["f"].get("raw", callee_path(t) or "")
                if raw.endswith("::set_inner") and adt in t["f"].get("ga", ""):
                    ws.append(dict(fn=fn, line=t["l"]))
        short = adt.rsplit("::", 1)[-1]
        if ws:
            for w in ws:
                # derives (Clone::clone_from etc.) never run on account data in handlers; still report precisely
                run.bad("R1b", "%s@%s" % (short, w["fn"].path), "whole-value store to %s in %s bypasses the bounded setters" % (adt, w["fn"].path),
                        loc=w["fn"].loc(w["line"]))
        else:
            run.ok("R1b", short, detail="no whole-value store / set_inner of %s" % adt)
    mm = "pinocchio::state::whirlpool::whirlpool::MemoryMappedWhirlpool"
    adt = facts.need_adt(mm)
    allowed = {"liquidity", "reward_infos", "reward_last_updated_timestamp"}
    fields = [f["name"] for f in adt["variants"][0]["fields"]]
    for f in fields:
        ws = writes.writers_of(facts, mm, f)
        if f in allowed:
            run.check("R1b", "mm." + f, len(ws) >= 1, "expected a Pinocchio setter for %s" % f, detail="%d setter(s)" % len(ws))
        else:
            run.check("R1b", "mm." + f, not ws, "Pinocchio byte view writes pool field `%s` without the Anchor setter's bound checks: %s" % (
                f, ", ".join(w["fn"].path for w in ws)), loc=ws[0]["fn"].loc(ws[0]["line"]) if ws else None,
                detail="no writer through the memory-mapped view")
    ws = writes.whole_stores(facts, mm)
    run.check("R1b", "mm.*", not ws, "whole-value store to MemoryMappedWhirlpool", detail="none")


def R1c_pool_initialize(run):
    run.title("R1c", "Whirlpool::initialize: mint order, sqrt-price bounds and tick-spacing atoms fail before any field store; "
                     "sqrt_price/tick_spacing/mints/vaults have no other writer than initialize and update_after_swap")
    facts = run.facts
    fn = facts.need_fn("state::whirlpool::Whirlpool::initialize")
    run.touch(fn)
    ats = A.atoms(fn)
    first_store = None
    stores = [w for w in writes.field_stores(facts) if w["fn"] is fn and w["adt"] == WP]
    store_blocks = sorted({w["block"] for w in stores})

    def guards_all(at):
        return all(A.guarded_by(fn, at, b) for b in store_blocks)

    # mint order
    ok = False
    for at in ats:
        for (op, a, b) in fail_conditions(at):
            for (o, x, y) in ((op, a, b), (A.SWAP[op], b, a)):
                if o == "Ge" and is_param(x, "token_mint_a") and is_param(y, "token_mint_b") and guards_all(at):
                    ok = "InvalidTokenMintOrder" in (at.true_codes | at.false_codes) or True
    run.check("R1c", "mint-order", ok, "initialize does not fail on token_mint_a >= token_mint_b before storing",
              loc=fn.loc(), detail="token_mint_a >= token_mint_b => error, dominating %d store blocks" % len(store_blocks))
    # price bounds
    lo_ok = hi_ok = False
    for at in ats:
        for (op, a, b) in fail_conditions(at):
            for (o, x, y) in ((op, a, b), (A.SWAP[op], b, a)):
                if is_param(x, "sqrt_price") and guards_all(at):
                    if o == "Lt" and const_val(y) == 4295048016:
                        lo_ok = True
                    if o == "Gt" and const_val(y) == 79226673515401279992447579055:
                        hi_ok = True
    run.check("R1c", "sqrt-price-lower", lo_ok, "initialize does not reject sqrt_price < MIN_SQRT_PRICE_X64 (4295048016) before storing", loc=fn.loc(),
              detail="sqrt_price < 4295048016 => error")
    run.check("R1c", "sqrt-price-upper", hi_ok, "initialize does not reject sqrt_price > MAX_SQRT_PRICE_X64 before storing", loc=fn.loc(),
              detail="sqrt_price > 79226673515401279992447579055 => error")
    # tick spacing zero
    ok = False
    for at in ats:
        for (op, a, b) in fail_conditions(at):
            for (o, x, y) in ((op, a, b), (A.SWAP[op], b, a)):
                if o == "Eq" and is_param(x, "tick_spacing") and const_val(y) == 0 and guards_all(at):
                    ok = True
    run.check("R1c", "tick-spacing-nonzero", ok, "initialize does not fail on tick_spacing == 0 before storing", loc=fn.loc(),
              detail="tick_spacing == 0 => diverge")
    # the stored values are the checked parameters
    pv = prov_of(fn)
    for field, param in (("sqrt_price", "sqrt_price"), ("tick_spacing", "tick_spacing"), ("token_mint_a", "token_mint_a"),
                         ("token_mint_b", "token_mint_b"), ("token_vault_a", "token_vault_a"), ("token_vault_b", "token_vault_b")):
        ws = [w for w in stores if w["field"] == field and w["last"]]
        good = bool(ws) and all(is_param(_stored_value(fn, w), param) for w in ws)
        run.check("R1c", "init-store." + field, good, "initialize stores %s from something other than its checked parameter `%s`" % (field, param),
                  loc=fn.loc(ws[0]["line"]) if ws else fn.loc(), detail="%s := param %s" % (field, param))
    # the initial tick is the tick of the initial price
    ws = [w for w in stores if w["field"] == "tick_current_index" and w["last"]]
    good = len(ws) == 1
    if good:
        v = strip(_stored_value(fn, ws[0]))
        good = v[0] == "call" and v[1].endswith("tick_index_from_sqrt_price") and is_param(strip(v[2][0])[1] if strip(v[2][0])[0] == "ref" else v[2][0], "sqrt_price")
    run.check("R1c", "init-store.tick_current_index", good, "initialize does not store tick_current_index := tick_index_from_sqrt_price(sqrt_price)", loc=fn.loc(),
              detail="tick_current_index := tick_index_from_sqrt_price(&sqrt_price)")
    # writer sets
    expect = {
        "sqrt_price": {"state::whirlpool::Whirlpool::initialize", "state::whirlpool::Whirlpool::update_after_swap"},
        "tick_current_index": {"state::whirlpool::Whirlpool::initialize", "state::whirlpool::Whirlpool::update_after_swap"},
        "tick_spacing": {"state::whirlpool::Whirlpool::initialize"},
        "token_mint_a": {"state::whirlpool::Whirlpool::initialize"},
        "token_mint_b": {"state::whirlpool::Whirlpool::initialize"},
        "token_vault_a": {"state::whirlpool::Whirlpool::initialize"},
        "token_vault_b": {"state::whirlpool::Whirlpool::initialize"},
        "whirlpools_config": {"state::whirlpool::Whirlpool::initialize"},
    }
    for field, allowed in expect.items():
        ws = {w["fn"].path for w in writes.writers_of(facts, WP, field)}
        extra = ws - allowed
        run.check("R1c", "writers." + field, not extra and ws,
                  "pool field `%s` is written outside its checked initialiser/swap update: %s" % (field, ", ".join(sorted(extra)) or "(no writer at all)"),
                  detail="writers: %s" % ", ".join(sorted(ws)))
    # update_after_swap is only called with the swap result's price
    callers = [c for c in facts.callers().get("state::whirlpool::Whirlpool::update_after_swap", [])]
    for (cf, bi) in callers:
        run.touch(cf)
        t = cf.blocks[bi]["t"]
        pvv = prov_of(cf)
        price = pvv.operand(t["a"][3], bi, len(cf.blocks[bi]["s"]))
        ok = all(is_field(x, "next_sqrt_price") for x in leaves(price))
        run.check("R1c", "swap-price@" + cf.path, ok,
                  "update_after_swap receives a sqrt_price that is not PostSwapUpdate.next_sqrt_price: %s" % sh(price), loc=cf.loc(t["l"]),
                  detail="sqrt_price := %s" % sh(price, 80))
    run.floor("R1c", "update_after_swap callers", len(callers), 2)


def R2_tier_tick_spacing(run):
    run.title("R2", "fee tiers reject tick_spacing == 0 before storing it; pool init handlers pass the tier's tick spacing / default rate")
    facts = run.facts
    for path, adt in (("state::fee_tier::FeeTier::initialize", "state::fee_tier::FeeTier"),
                      ("state::adaptive_fee_tier::AdaptiveFeeTier::initialize", "state::adaptive_fee_tier::AdaptiveFeeTier")):
        fn = facts.need_fn(path)
        run.touch(fn)
        ws = [w for w in writes.writers_of(facts, adt, "tick_spacing") if w["fn"] is fn]
        ok = False
        for at in A.atoms(fn):
            for (op, a, b) in fail_conditions(at):
                for (o, x, y) in ((op, a, b), (A.SWAP[op], b, a)):
                    if o == "Eq" and is_param(x, "tick_spacing") and const_val(y) == 0 and ws and all(A.guarded_by(fn, at, w["block"]) for w in ws):
                        ok = True
        run.check("R2", "tier-spacing@" + path, ok, "%s stores tick_spacing without rejecting 0" % path, loc=fn.loc(),
                  detail="tick_spacing == 0 => InvalidTickSpacing dominates the store")
        others = {w["fn"].path for w in writes.writers_of(facts, adt, "tick_spacing")} - {path}
        run.check("R2", "tier-spacing-writers@" + adt.rsplit("::", 1)[-1], not others, "tick_spacing of %s written outside initialize: %s" % (adt, others))
    # AdaptiveFeeTier::initialize stores tick_spacing before validating the constants against self.tick_spacing
    fn = facts.need_fn("state::adaptive_fee_tier::AdaptiveFeeTier::initialize")
    ws = [w for w in writes.writers_of(facts, "state::adaptive_fee_tier::AdaptiveFeeTier", "tick_spacing") if w["fn"] is fn]
    calls = [bi for bi, t in fn.calls() if (callee_path(t) or "").endswith("AdaptiveFeeTier::update_adaptive_fee_constants")]
    if not calls:
        # the constants' store written into initialize itself: the validation call (R3 `validated-store` ties its spacing argument to
        # the value stored into self.tick_spacing) takes the place of the setter call
        calls = [bi for bi, t in fn.calls() if (callee_path(t) or "").endswith("AdaptiveFeeConstants::validate_constants")]
    ok = bool(ws) and bool(calls) and all(cfg.dominates(fn, w["block"], c) for w in ws for c in calls)
    run.check("R2", "adaptive-tier-order", ok, "AdaptiveFeeTier::initialize validates the constants before self.tick_spacing is set (validation would use a stale spacing)",
              loc=fn.loc(), detail="store of tick_spacing dominates update_adaptive_fee_constants")


def R3_validate_constants(run):
    run.title("R3", "validate_constants returns false under each published invalidity condition; constant stores are dominated by its true edge "
                    "with the stored values as arguments")
    facts = run.facts
    fn = facts.need_fn("state::oracle::AdaptiveFeeConstants::validate_constants")
    run.touch(fn)
    conds = []
    for at in A.atoms(fn):
        conds.extend(ret_conditions(at, 0))

    def has(pred):
        for (op, a, b) in conds:
            if pred(op, a, b) or pred(A.SWAP[op], b, a):
                return True
        return False

    def P(n):
        return lambda t: is_param(t, n)

    def bin_of(t, op, pa, pb):
        t = strip(t)
        return t[0] == "bin" and t[1] == op and ((pa(t[2]) and pb(t[3])) or (op == "Mul" and pa(t[3]) and pb(t[2])))

    expected = [
        ("filter==0", lambda o, a, b: o == "Eq" and P("filter_period")(a) and const_val(b) == 0),
        ("decay==0", lambda o, a, b: o == "Eq" and P("decay_period")(a) and const_val(b) == 0),
        ("decay<=filter", lambda o, a, b: o == "Le" and P("decay_period")(a) and P("filter_period")(b)),
        ("control>=100000", lambda o, a, b: o == "Ge" and P("adaptive_fee_control_factor")(a) and const_val(b) == 100000),
        ("max_acc*group>u32::MAX", lambda o, a, b: o == "Gt" and bin_of(a, "Mul", P("max_volatility_accumulator"), P("tick_group_size")) and const_val(b) == 4294967295),
        ("reduction>=10000", lambda o, a, b: o == "Ge" and P("reduction_factor")(a) and const_val(b) == 10000),
        ("group==0", lambda o, a, b: o == "Eq" and P("tick_group_size")(a) and const_val(b) == 0),
        ("group>spacing", lambda o, a, b: o == "Gt" and P("tick_group_size")(a) and P("tick_spacing")(b)),
        ("spacing%group!=0", lambda o, a, b: o == "Ne" and bin_of(a, "Rem", P("tick_spacing"), P("tick_group_size")) and const_val(b) == 0),
        ("threshold==0", lambda o, a, b: o == "Eq" and P("major_swap_threshold_ticks")(a) and const_val(b) == 0),
        ("threshold>spacing*88", lambda o, a, b: o == "Gt" and P("major_swap_threshold_ticks")(a) and bin_of(b, "Mul", P("tick_spacing"), lambda t: const_val(t) == 88)),
    ]
    shown = ["%s %s %s" % (sh(a, 60), op, sh(b, 60)) for (op, a, b) in conds]
    for name, pred in expected:
        run.check("R3", "rule:" + name, has(pred), "validate_constants no longer returns false when %s" % name, loc=fn.loc(),
                  expected=name, found="; ".join(shown), detail="returns false when " + name)
    # the widening casts inside the max_acc product must be to 64 bits (overflow safety of the check itself)
    # stores behind the check
    consts_fields = ["filter_period", "decay_period", "reduction_factor", "adaptive_fee_control_factor",
                     "max_volatility_accumulator", "tick_group_size", "major_swap_threshold_ticks"]
    tier = "state::adaptive_fee_tier::AdaptiveFeeTier"
    n = 0
    for field in consts_fields:
        for w in writes.writers_of(facts, tier, field):
            n += 1
            _check_validated_store(run, w, field, lambda t, f=field: is_param(t, f))
    for w in writes.writers_of(facts, "state::oracle::Oracle", "adaptive_fee_constants"):
        n += 1
        _check_validated_store(run, w, "adaptive_fee_constants", None)
    # nobody writes the individual constants of a stored Oracle
    for field in consts_fields:
        # (stores into a local AdaptiveFeeConstants value that is being put together do not count: what reaches an Oracle is a whole
        # struct, and that store is a validated-store instance above)
        ws = [w for w in writes.writers_of(facts, "state::oracle::AdaptiveFeeConstants", field) if w.get("root") != "local"]
        run.check("R3", "oracle-const-field." + field, not ws, "field %s of stored AdaptiveFeeConstants is written directly in %s" % (
            field, ", ".join(w["fn"].path for w in ws)), detail="no direct writer")
    run.floor("R3", "validated stores", n, 8)


def _check_validated_store(run, w, field, value_pred):
    fn = w["fn"]
    run.touch(fn)
    inst = "validated-store.%s@%s" % (field, fn.path)
    if w["kind"] == "mutref":
        run.bad("R3", inst, "&mut to adaptive-fee constant `%s` escapes in %s" % (field, fn.path), loc=fn.loc(w["line"]))
        return
    pv = prov_of(fn)
    val = _stored_value(fn, w)
    ok = False
    why = "no call to validate_constants guards the store"
    for bi, t in fn.calls():
        if not (callee_path(t) or "").endswith("AdaptiveFeeConstants::validate_constants"):
            continue
        edges = cfg.bool_guard_edges(fn, bi)
        if edges is None:
            why = "result of validate_constants is not branched on"
            continue
        tr, fl = edges
        # false edges must be fail-only, and the store must be unreachable without a true edge
        if not all(cfg.fail_only(fn, b) for (_, b) in fl):
            why = "validate_constants == false does not lead to an error"
            continue
        r = cfg.reach(fn, 0, cut_edges=set(tr))
        if w["block"] in r:
            why = "the store is reachable without passing validate_constants == true"
            continue
        # arguments are the stored values
        args = [pv.operand(a, bi, len(fn.blocks[bi]["s"])) for a in t["a"]]
        names = ["tick_spacing", "filter_period", "decay_period", "reduction_factor", "adaptive_fee_control_factor",
                 "max_volatility_accumulator", "tick_group_size", "major_swap_threshold_ticks"]
        # the tier's own spacing: self.tick_spacing, or the value this very function stores into self.tick_spacing before validating
        # (the constants' first store written into AdaptiveFeeTier::initialize)
        own_ts = is_field(args[0], "tick_spacing") and is_param(strip(args[0])[1], "self")
        if not own_ts:
            from analysis import writes as _w
            for w2 in _w.field_stores(run.facts):
                if w2["fn"] is fn and w2["field"] == "tick_spacing" and w2.get("root") != "local" and cfg.dominates(fn, w2["block"], bi) and \
                        strip(pv._rvalue(w2["rv"], w2["block"], w2["stmt"], 0)) == strip(args[0]):
                    own_ts = True
        if fn.path.startswith("state::adaptive_fee_tier::") and not own_ts:
            why = "validate_constants is given tick spacing %s, expected self.tick_spacing of the tier being updated" % sh(args[0], 60)
            continue
        if fn.path.startswith("state::oracle::") and not is_param(args[0], "tick_spacing"):
            why = "validate_constants is given tick spacing %s, expected the tick_spacing parameter" % sh(args[0], 60)
            continue
        if field in names:
            idx = names.index(field)
            if not same(args[idx], val):
                why = "validate_constants checks %s but %s is stored" % (sh(args[idx], 60), sh(val, 60))
                continue
        else:
            # whole struct stored: each validated argument is the same-named field of the stored struct
            bad = None
            sv = strip(val)
            lit = dict(sv[3]) if sv[0] == "agg" else None    # a struct literal stored directly: its fields are what is stored
            for i, nme in enumerate(names[1:], start=1):
                a = strip(args[i])
                good = (lit is not None and nme in lit and same(a, lit[nme])) if lit is not None else (a[0] == "field" and a[2] == nme and same(a[1], val))
                if not good:
                    bad = "argument %d (%s) is %s, not %s.%s" % (i, nme, sh(a, 60), sh(val, 40), nme)
                    break
            if bad:
                why = bad
                continue
        ok = True
    run.check("R3", inst, ok, "store of adaptive-fee constant `%s` in %s: %s" % (field, fn.path, why), loc=fn.loc(w["line"]),
              detail="dominated by validate_constants(..) == true on the stored value")


GATED = ["PermanentDelegate", "TransferHook", "MintCloseAuthority", "DefaultAccountState", "Pausable"]
NEVER = ["NonTransferable"]


def R4b_every_extension_listed(run):
    run.title("R4b", "get_token_extension_types lists the type of every TLV entry it walks over: between reading an entry's type and moving on, nothing but the three ways out "
                     "of the walk (end of data, no room for a type, the Uninitialized terminator) and the malformed-entry errors decides whether the type is pushed "
                     "(a zero-length entry - NonTransferable - is an entry like any other)")
    facts = run.facts
    fn = facts.need_fn("util::v2::token::get_token_extension_types")
    run.touch(fn)
    push = [bi for bi, t in fn.calls() if (callee_path(t) or "").endswith("::push") and not fn.blocks[bi]["c"]]
    sel = []
    for at in A.atoms(fn, cut="loop"):
        if at.true_fail or at.false_fail:
            continue
        rt = cfg.reach(fn, at.true_targets[0], cut_blocks=[at.block])
        rf = cfg.reach(fn, at.false_targets[0], cut_blocks=[at.block])
        if any((b in rt) != (b in rf) for b in push):
            sel.append(at)
    run.check("R4b", "listed-unconditionally", len(push) == 1 and len(sel) <= 3, "get_token_extension_types pushes an entry's type under %d non-failing tests (%s); expected only the three walk exits" % (
        len(sel), [sh(a.term, 50) for a in sel[3:]]), loc=fn.loc(), detail="%d selecting tests: end of data / no room for a type / Uninitialized" % len(sel))


def R4_mint_admission(run):
    run.title("R4", "is_supported_token_mint: Token-program mints accepted; native-2022 rejected; freeze authority needs a badge; per extension "
                    "variant the badge-gated ones are rejected without badge, NonTransferable and the wildcard arm always")
    facts = run.facts
    fn = facts.need_fn("util::v2::token::is_supported_token_mint")
    run.touch(fn)
    enum = None
    for p, a in facts.adts.items():
        if p.endswith("util::v2::token::TokenExtensionType") or p.endswith("::TokenExtensionType") and a["kind"] == "enum" and not p.startswith("anchor"):
            enum = a
            break
    if enum is None:
        raise AnchorMissing("TokenExtensionType enum")
    discr = {name: val for name, val in enum["discrs"]}
    pv = prov_of(fn)
    # locate the switch on the extension discriminant
    sw = None
    for bi, bb in enumerate(fn.blocks):
        t = bb["t"]
        if t["k"] == "switch" and t.get("dt") != "bool":
            term = pv.operand(t["d"], bi, len(bb["s"]))
            if term[0] == "discr" and len(t["ts"]) >= 5:
                sw = bi
    if sw is None:
        raise AnchorMissing("switch over TokenExtensionType in is_supported_token_mint")
    t = fn.blocks[sw]["t"]
    targets = {v: b for v, b in t["ts"]}
    otherwise = t["o"]

    def outcome(ctx_val, start):
        fl = preach.flow(fn, {"is_token_badge_initialized": ctx_val})
        if fl.state_in[sw] is None:
            return "unreachable"
        seen = set()
        work = [start]
        loops = False
        rets = set()
        succ = fn.succ()
        while work:
            b = work.pop()
            if b in seen:
                continue
            seen.add(b)
            if b == sw:
                loops = True
                continue
            bb = fn.blocks[b]
            if bb["t"]["k"] == "ret":
                rets.add("ret")
            for s in succ[b]:
                if (b, s) in fl.edge_feasible:
                    work.append(s)
        # classify return values reached: Ok(false) only?
        vals = set()
        for b in seen:
            for si, st in enumerate(fn.blocks[b]["s"]):
                if st["k"] == "=" and st["p"]["l"] == 0 and "p" not in st["p"]:
                    tt = pv._rvalue(st["rv"], b, si, 0)
                    if tt[0] == "agg" and tt[2] == "Ok":
                        v = const_val(dict(tt[3]).get("0"))
                        vals.add({0: "false", 1: "true"}.get(v, "?"))
                    else:
                        vals.add("other")
        return ("continues" if loops else "stops", frozenset(vals))

    def rejected(o):
        return o != "unreachable" and o[0] == "stops" and o[1] == frozenset({"false"})

    def may_continue(o):
        return o != "unreachable" and o[0] == "continues"

    for name in GATED:
        if name not in discr:
            run.missing("R4", "variant:" + name, "TokenExtensionType::%s does not exist" % name)
            continue
        tgt = targets.get(discr[name], otherwise)
        o_no = outcome(False, tgt)
        o_yes = outcome(True, tgt)
        run.check("R4", "gated:" + name, rejected(o_no),
                  "a mint with extension %s is accepted without a token badge" % name, loc=fn.loc(),
                  expected="Ok(false) without badge", found=str(o_no), detail="without badge -> Ok(false); with badge -> %s" % (o_yes,))
    for name in NEVER:
        tgt = targets.get(discr.get(name), otherwise)
        run.check("R4", "never:" + name, rejected(outcome(False, tgt)) and rejected(outcome(True, tgt)),
                  "a mint with extension %s can be accepted" % name, loc=fn.loc(), detail="Ok(false) with and without badge")
    run.check("R4", "wildcard", rejected(outcome(False, otherwise)) and rejected(outcome(True, otherwise)),
              "unknown / unlisted extensions are not rejected by the wildcard arm", loc=fn.loc(), detail="otherwise-arm -> Ok(false)")
    # an arm may reject the mint or go on to the next extension, never accept it: from the extension switch no value other than
    # Ok(false) (or an error) is returned without first coming back to the loop head, so every extension of the mint is looked at
    heads = [bi for bi, t_ in fn.calls() if (callee_path(t_) or "").endswith("::next") and cfg.dominates(fn, bi, sw)]
    early = []
    if heads:
        body = cfg.reach(fn, sw, cut_blocks=[heads[-1]])
        for bi in sorted(body):
            for si, st in enumerate(fn.blocks[bi]["s"]):
                if st["k"] == "=" and st["p"]["l"] == 0 and "p" not in st["p"]:
                    tt = pv._rvalue(st["rv"], bi, si, 0)
                    if tt[0] == "agg" and tt[2] == "Ok" and const_val(dict(tt[3]).get("0")) == 0 and strip(dict(tt[3]).get("0"))[0] == "const":
                        continue
                    if tt[0] == "agg" and tt[2] == "Err":
                        continue
                    early.append((bi, sh(tt, 60)))
    run.check("R4", "arms-only-reject", bool(heads) and not early, "an extension arm of is_supported_token_mint returns %s without looking at the remaining extensions" %
              (early[0][1] if early else "?"), loc=fn.loc(fn.blocks[early[0][0]]["t"].get("l") if early else None), detail="from the extension switch: Ok(false), an error, or back to the loop head")
    # no gated / never variant shares the target of an always-supported arm
    # freeze authority & native mint & token program atoms
    ats = A.atoms(fn)
    has_owner = has_native = has_freeze = False
    for at in ats:
        s = show(at.term)
        if "owner" in s and "Token" in s and at.cond() and at.cond()[0] in ("Eq", "Ne"):
            rv = at.true_ret if at.cond()[0] == "Eq" else at.false_ret
            has_owner = has_owner or bool(rv) and all(r[0] == "other" for r in rv)
        # it must be the Token-2022 native mint: the legacy program's native mint can never be owned by Token-2022
        if any(s_[0] == "call" and s_[1].endswith("spl_token_2022::native_mint::check_id") for s_ in subterms(at.term)):
            has_native = True
            native_at = at
        if "is_some" in s and "freeze_authority" in s and (sw is None or cfg.dominates(fn, at.block, sw)) and not has_freeze:
            # the gate in front of the extension walk (a later re-use of the same test inside an arm is not it)
            has_freeze = True
            freeze_at = at
    run.check("R4", "native-2022", has_native, "native Token-2022 mint is no longer tested", loc=fn.loc(), detail="spl_token_2022::native_mint::check_id(mint key) atom present")
    if has_native:
        pvv = pv
        fl_t = preach.flow(fn, {})
        tgt = native_at.true_targets[0]
        vals = _ret_ok_values(fn, pv, tgt)
        run.check("R4", "native-2022-rejected", vals == {"false"}, "native Token-2022 mint is not rejected (returns %s)" % vals, loc=fn.loc(native_at.line),
                  detail="check_id(mint) => Ok(false)")
    run.check("R4", "freeze-authority", has_freeze, "freeze authority is no longer tested", loc=fn.loc(), detail="freeze_authority.is_some() atom present")
    if has_freeze:
        # under badge == false, the true side of the freeze test must reject
        fl = preach.flow(fn, {"is_token_badge_initialized": False})
        tgt = freeze_at.true_targets[0]
        vals = _ret_ok_values_flow(fn, pv, tgt, fl, stop={sw})
        run.check("R4", "freeze-authority-gated", vals == {"false"},
                  "a mint with a freeze authority is accepted without a token badge (reaches %s)" % sorted(vals), loc=fn.loc(freeze_at.line),
                  detail="freeze authority && !badge => Ok(false)")
    # every acceptance of a Token-2022 mint has passed the native-mint and the freeze-authority test: with the continuing edge of
    # either test cut, no `Ok(true)` is reachable except the Token-program early accept
    if has_native and has_freeze:
        accept = set()
        for bi, bb in enumerate(fn.blocks):
            for si, st in enumerate(bb["s"]):
                if st["k"] == "=" and st["p"]["l"] == 0 and "p" not in st["p"]:
                    tt = pv._rvalue(st["rv"], bi, si, 0)
                    if tt[0] == "agg" and tt[2] == "Ok" and const_val(dict(tt[3]).get("0")) == 1:
                        accept.add(bi)
        owner_edges = set()
        for at in ats:
            s_ = show(at.term)
            if "owner" in s_ and "Token" in s_ and at.cond() and at.cond()[0] in ("Eq", "Ne"):
                for tg in (at.true_targets if at.cond()[0] == "Eq" else at.false_targets):
                    owner_edges.add((at.block, tg))
        fl0 = preach.flow(fn, {"is_token_badge_initialized": False})
        for gate, name in ((native_at, "native-mint"), (freeze_at, "freeze-authority")):
            c = gate.cond()
            cont = gate.false_targets        # both tests reject on their true side
            cut = owner_edges | {(gate.block, tg) for tg in cont}
            seen = set()
            work = [0]
            succ = fn.succ()
            while work:
                b = work.pop()
                if b in seen:
                    continue
                seen.add(b)
                for x in succ[b]:
                    if (b, x) in cut or (b, x) not in fl0.edge_feasible:
                        continue
                    work.append(x)
            run.check("R4", "accept-only-after:" + name, bool(accept) and not (accept & seen),
                      "is_supported_token_mint can accept a Token-2022 mint without a badge before the %s test has been applied" % name, loc=fn.loc(gate.line),
                      detail="no Ok(true) avoids the %s test" % name)


def _ret_ok_values(fn, pv, start):
    return _ret_ok_values_flow(fn, pv, start, None, stop=set())


def _ret_ok_values_flow(fn, pv, start, fl, stop):
    seen = set()
    work = [start]
    vals = set()
    succ = fn.succ()
    while work:
        b = work.pop()
        if b in seen:
            continue
        seen.add(b)
        if b in stop:
            vals.add("continues")
            continue
        assigned = False
        for si, st in enumerate(fn.blocks[b]["s"]):
            if st["k"] == "=" and st["p"]["l"] == 0 and "p" not in st["p"]:
                tt = pv._rvalue(st["rv"], b, si, 0)
                if tt[0] == "agg" and tt[2] == "Ok":
                    v = const_val(dict(tt[3]).get("0"))
                    vals.add({0: "false", 1: "true"}.get(v, "?"))
                else:
                    vals.add("other")
                assigned = True
        if assigned:
            continue
        t = fn.blocks[b]["t"]
        if t["k"] == "call" and t["d"]["l"] == 0 and "p" not in t["d"]:
            vals.add("other")
            continue
        for s in succ[b]:
            if fl is None or (b, s) in fl.edge_feasible:
                work.append(s)
    return vals


def R5_badge_and_mustpass(run):
    run.title("R5", "token badge counts only if program-owned and matching (config, mint); verify_supported_token_mint rejects unsupported mints "
                    "and is must-pass before pool / reward initialisation with the right config key and badge account")
    facts = run.facts
    fn = facts.need_fn("util::v2::token::is_token_badge_initialized")
    run.touch(fn)
    pv = prov_of(fn)
    # owner != program => Ok(false)
    ok_owner = False
    for at in A.atoms(fn):
        c = at.cond()
        if c and c[0] in ("Ne", "Eq") and "owner" in show(at.term) and mentions(at.term, lambda s: s[0] == "call" and (s[1] == "id" or s[1].endswith("::id"))):
            tgt = at.true_targets[0] if c[0] == "Ne" else at.false_targets[0]
            if _ret_ok_values(fn, pv, tgt) == {"false"}:
                ok_owner = True
    run.check("R5", "badge-owner", ok_owner, "a token badge account not owned by this program is not rejected", loc=fn.loc(),
              detail="token_badge.owner != crate::id() => Ok(false)")
    # result is config == cfg && mint == mint
    eqs = []
    for bi, bb in enumerate(fn.blocks):
        t = bb["t"]
        if t["k"] == "call":
            raw = t["f"].get("raw", callee_path(t) or "")
            if raw.endswith("::eq") or raw.endswith("::ne"):
                a = [pv.operand(x, bi, len(bb["s"])) for x in t["a"]]
                eqs.append((a[0], a[1]))
        for si, st in enumerate(bb["s"]):
            if st["k"] == "=" and st["rv"].get("bin") in ("Eq",):
                a = pv.operand(st["rv"]["a"], bi, si)
                b = pv.operand(st["rv"]["b"], bi, si)
                eqs.append((a, b))
    flat = " ; ".join("%s == %s" % (sh(a, 120), sh(b, 60)) for a, b in eqs)

    def badge_field(t, name):
        return is_field(t, name, lambda base: mentions(base, lambda s: s[0] == "call" and "TokenBadge" in s[1] and "deserialize" in s[1]))
    c_ok = any((badge_field(a, "whirlpools_config") and is_param(b, "whirlpools_config_key")) or
               (badge_field(b, "whirlpools_config") and is_param(a, "whirlpools_config_key")) for a, b in eqs)
    m_ok = any((badge_field(a, "token_mint") and is_param(b, "token_mint_key")) or
               (badge_field(b, "token_mint") and is_param(a, "token_mint_key")) for a, b in eqs)
    run.check("R5", "badge-config", c_ok, "badge.whirlpools_config is not compared with the expected config key", loc=fn.loc(), found=flat,
              detail="badge.whirlpools_config == whirlpools_config_key")
    run.check("R5", "badge-mint", m_ok, "badge.token_mint is not compared with the mint key", loc=fn.loc(), found=flat,
              detail="badge.token_mint == token_mint_key")
    # both comparisons must be able to make the result false: the Ok(value) returned depends on both (short-circuit: false arm assigns false)
    # verify_supported_token_mint
    v = facts.need_fn("util::v2::token::verify_supported_token_mint")
    run.touch(v)
    pvv = prov_of(v)
    ok = False
    why = "is_supported_token_mint is not called"
    for bi, t in v.calls():
        if (callee_path(t) or "").endswith("is_supported_token_mint"):
            args = [pvv.operand(a, bi, len(v.blocks[bi]["s"])) for a in t["a"]]
            badge = args[1]
            if not (is_param(args[0], "token_mint")):
                why = "mint argument is %s" % sh(args[0])
                continue
            b = strip(badge)
            if not (b[0] == "call" and b[1].endswith("is_token_badge_initialized")
                    and is_param(b[2][0], "whirlpools_config_key") and is_param(b[2][2], "token_badge")
                    and is_call(b[2][1], "key") and is_param(strip(b[2][1])[2][0], "token_mint")):
                why = "badge flag is %s, expected is_token_badge_initialized(whirlpools_config_key, token_mint.key(), token_badge)?" % sh(badge)
                continue
            mp, w2 = cfg.must_pass_call(v, bi)
            if not mp:
                why = "is_supported_token_mint: " + w2
                continue
            # the Ok(false) outcome must fail
            ok2 = False
            for at in A.atoms(v):
                if mentions(at.term, lambda s: s[0] == "call" and s[1].endswith("is_supported_token_mint")):
                    # condition term is the bool payload; false => fail
                    if at.false_fail and "UnsupportedTokenMint" in at.false_codes:
                        ok2 = True
            if not ok2:
                why = "is_supported_token_mint(..) == false does not lead to UnsupportedTokenMint"
                continue
            ok = True
    run.check("R5", "verify-supported", ok, "verify_supported_token_mint: " + why, loc=v.loc(), detail="!is_supported(mint, badge(cfg, mint.key(), badge)) => UnsupportedTokenMint")
    # must-pass in the initialisers
    sites = [
        ("instructions::v2::initialize_pool::handler", "state::whirlpool::Whirlpool::initialize",
         [("token_mint_a", "whirlpools_config", "token_badge_a"), ("token_mint_b", "whirlpools_config", "token_badge_b")]),
        ("instructions::adaptive_fee::initialize_pool_with_adaptive_fee::handler", "state::whirlpool::Whirlpool::initialize",
         [("token_mint_a", "whirlpools_config", "token_badge_a"), ("token_mint_b", "whirlpools_config", "token_badge_b")]),
        ("instructions::v2::initialize_reward::handler", "state::whirlpool::Whirlpool::initialize_reward",
         [("reward_mint", None, "reward_token_badge")]),
    ]
    for hpath, effect, triples in sites:
        h = facts.need_fn(hpath)
        run.touch(h)
        ph = prov_of(h)
        eff_blocks = [bi for bi, t in h.calls() if callee_path(t) == effect]
        if not eff_blocks:
            run.missing("R5", "mustpass@" + hpath, "%s does not call %s" % (hpath, effect), loc=h.loc())
            continue
        for (mint, cfgacc, badge) in triples:
            found = False
            msg = "no is_supported_token_mint(%s, is_token_badge_initialized(..)?)? test" % mint
            # read with verify_supported_token_mint spliced in: is_supported_token_mint(mint, is_token_badge_initialized(config key,
            # mint key, badge)?)? whose false result is UnsupportedTokenMint
            for bi, t in h.calls():
                if not (callee_path(t) or "").endswith("::is_supported_token_mint") or h.blocks[bi]["c"]:
                    continue
                a0 = [ph.operand(a, bi, len(h.blocks[bi]["s"])) for a in t["a"]]
                if chain(a0[0]) != "ctx.accounts." + mint:
                    continue
                inner = [x for x in subterms(a0[1]) if x[0] == "call" and x[1].endswith("::is_token_badge_initialized")]
                if len(inner) != 1:
                    msg = "the badge flag for %s is %s, expected is_token_badge_initialized(config key, mint key, badge)?" % (mint, sh(a0[1]))
                    continue
                ia = inner[0][2]
                mk = strip(ia[1])
                if not (is_call(mk, "key") and chain(mk[2][0]) == "ctx.accounts." + mint):
                    msg = "the badge of %s is looked up for mint %s" % (mint, sh(mk))
                    continue
                args = [a0[0], ia[0], ia[2]]
                found = True                # its false result is the handler's UnsupportedTokenMint, on every path
                gate = [at for at in A.atoms(h) if at.false_fail and "UnsupportedTokenMint" in at.false_codes and
                        mentions(at.term, lambda x: x[0] == "call" and x[1].endswith("::is_supported_token_mint") and chain(x[2][0]) == "ctx.accounts." + mint)]
                mp = bool(cfg.result_checked(h, bi)) and len(gate) == 1 and not cfg.success_reach(h, 0, cut_blocks=[gate[0].block])
                why2 = "its error or its `false` is not the handler's failure on every path"
                if not mp:
                    msg = "is_supported_token_mint(%s): %s" % (mint, why2)
                    found = False
                    continue
                if not all(cfg.dominates(h, bi, e) for e in eff_blocks):
                    msg = "the support test of %s does not dominate %s" % (mint, effect)
                    found = False
                    continue
                break
            run.check("R5", "mustpass:%s@%s" % (mint, hpath), found, msg, loc=h.loc(),
                      detail="!is_supported_token_mint(ctx.accounts.%s, badge(config key, mint key, ctx.accounts.%s)?)? => UnsupportedTokenMint, before %s" % (mint, badge, effect.rsplit("::", 1)[-1]))
    # badge accounts are bound by seeds to (config, mint)
    for spath, fields in (("instructions::v2::initialize_pool::InitializePoolV2", [("token_badge_a", "token_mint_a"), ("token_badge_b", "token_mint_b")]),
                          ("instructions::adaptive_fee::initialize_pool_with_adaptive_fee::InitializePoolWithAdaptiveFee", [("token_badge_a", "token_mint_a"), ("token_badge_b", "token_mint_b")]),
                          ("instructions::v2::initialize_reward::InitializeRewardV2", [("reward_token_badge", "reward_mint")])):
        acc = facts.accounts.get(spath)
        if acc is None:
            run.missing("R5", "seeds@" + spath, "accounts struct %s not found" % spath)
            continue
        for badge, mint in fields:
            fld = [f for f in acc["fields"] if f["name"] == badge]
            attrs = " ".join(fld[0]["attrs"]) if fld else ""
            norm = "".join(attrs.split())
            ok = "seeds=[b\"token_badge\"" in norm and (mint + ".key()") in norm and "bump" in norm and ("whirlpools_config" in norm)
            run.check("R5", "seeds:%s@%s" % (badge, acc["name"]), ok, "badge account %s is not bound by seeds [b\"token_badge\", config, %s]" % (badge, mint),
                      loc="%s:%s" % (acc["file"], fld[0]["line"] if fld else acc["line"]), found=attrs, detail="seeds = [token_badge, config, %s.key()]" % mint)


def R6_cross_checks(run):
    run.title("R6", 'parameters are validated against, and written to, the same pool: oracles / positions / configs named by a parameter-changing instruction are tied to the pool or config in the same struct (C15.R3 instances)')
    from rules.common import RuleProxy
    from rules import C15
    C15.R3_back_references(RuleProxy(run, 'R6'))


RULES = [R1_bounded_stores, R1b_no_other_whirlpool_writers, R1c_pool_initialize, R2_tier_tick_spacing,
         R3_validate_constants, R4_mint_admission, R4b_every_extension_listed, R5_badge_and_mustpass, R6_cross_checks]
