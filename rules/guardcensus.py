"""Census of unconditional refusals. On the pinned tree every guard atom that (a) fails with a named error code on one side and
(b) lies on every successful path of its function was recorded per function and code (specs/guards.json, tools/gen_guards.py), together
with the properties whose rules read that function. Rule: on the current tree each recorded (function, code) is still refused at
least as many times on every successful path. It reports a check that was deleted, moved into one arm of a branch, or overtaken
by an early successful return - whichever rule first modelled the check.  Helpers new to the tree are spliced into their callers
before this runs, a function that no longer exists is skipped (its callers' own entries and the property rules speak for it)."""
import json
import os
from analysis import cfg, atoms as A

V = os.path.dirname(os.path.dirname(os.path.abspath(__file__)))
_TABLE = None


def table():
    global _TABLE
    if _TABLE is None:
        p = os.path.join(V, "specs", "guards.json")
        _TABLE = json.load(open(p)) if os.path.exists(p) else {}
    return _TABLE


def must_pass_refusals(fn, depth=2):
    """{error code: number of refusals with it that lie on every successful path of fn}. A refusal is a guard atom failing with
    the code on one side, an `opt.ok_or(code)?` / `.map_err(|_| code)?`, or a `?`-propagated call to a local function that itself
    refuses with the code on every successful path (so that a test moved into a helper, or spelt `checked_div(d).ok_or(E)?`,
    still counts)."""
    key = ("must_pass_refusals", depth)
    if key in fn._cache:
        return fn._cache[key]
    out = {}
    for at in A.atoms(fn):
        if at.true_fail == at.false_fail:
            continue
        codes = at.true_codes if at.true_fail else at.false_codes
        if not codes:
            continue
        if cfg.success_reach(fn, 0, cut_blocks=[at.block]):
            continue
        for c in codes:
            out[c] = out.get(c, 0) + 1
    # `match opt { Some(v) => v, None => return Err(code) }`: a variant switch with a failing arm that names a code
    atom_blocks = {at.block for at in A.atoms(fn)}
    for bi, bb in enumerate(fn.blocks):
        t_ = bb["t"]
        if bb["c"] or t_["k"] != "switch" or t_.get("dt") == "bool" or bi in atom_blocks:
            continue
        arms = {b for _, b in t_["ts"]} | {t_["o"]}
        failing = [b for b in arms if cfg.fail_only(fn, b) and fn.blocks[b]["t"]["k"] != "unreachable"]
        if not failing or len(failing) == len([b for b in arms if fn.blocks[b]["t"]["k"] != "unreachable"]):
            continue
        codes = set()
        for b in failing:
            codes |= cfg.error_codes_from(fn, b)
        if codes and not cfg.success_reach(fn, 0, cut_blocks=[bi]):
            for c in codes:
                out[c] = out.get(c, 0) + 1
    from analysis.ir import callee_path
    for bi, t in fn.calls():
        if fn.blocks[bi]["c"]:
            continue
        p = callee_path(t) or ""
        last = p.rsplit("::", 1)[-1]
        if last in ("ok_or", "ok_or_else", "map_err"):
            codes = cfg.block_error_codes(fn, bi)
            if codes and cfg.result_checked(fn, bi) and not cfg.success_reach(fn, 0, cut_blocks=[bi]):
                for c in codes:
                    out[c] = out.get(c, 0) + 1
        elif depth > 0 and t["f"].get("loc"):
            g = fn.facts.fns.get(p)
            if g is not None and g is not fn and g.kind == "fn" and (t["d"]["l"] == 0 or cfg.result_checked(fn, bi)) and not cfg.success_reach(fn, 0, cut_blocks=[bi]):
                for c, n in must_pass_refusals(g, depth - 1).items():
                    out[c] = out.get(c, 0) + n
    fn._cache[key] = out
    return out


def R_guards(run, rule="RG"):
    run.title(rule, "every refusal that was unconditional on the pinned tree (a named error on one side of a test that every successful path of the function passes) still is")
    prop = run.prop
    n = 0
    t = {}
    for F in (run.facts, run.sdk):
        if F is not None:
            for path, rec in table().get(F.crate, {}).items():
                t[(F.crate, path)] = (F, rec)
    for (crate, path), (F, rec) in sorted(t.items()):
        if prop not in rec["props"]:
            continue
        fn = F.fn(path)
        if fn is None:
            continue
        now = must_pass_refusals(fn)
        for code, cnt in sorted(rec["codes"].items()):
            n += 1
            have = now.get(code, 0)
            run.check(rule, "refusal:%s@%s%s" % (code, "sdk:" if F is run.sdk else "", path), have >= cnt,
                      "%s: %s was refused on every successful path %d time(s) on the pinned tree, now %d: a check was removed, moved into one arm of a branch, or a successful return now comes before it" % (path, code, cnt, have),
                      loc=fn.loc(), detail="%d unconditional test(s) failing with %s" % (cnt, code))
    if n:
        run.ok(rule, "refusals:recorded", detail="%d recorded unconditional refusals of this property's functions re-decided" % n, nontrivial=False)
