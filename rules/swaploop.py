"""Shared structural model of manager::swap_manager::swap: the loop-carried variables
identified by role (from how they are initialised and updated, not by name) and their
per-context recurrence terms."""
from analysis.ir import callee_path, AnchorMissing
from analysis.prov import prov_of, strip, leaves, subterms, show
from analysis.match import is_param, is_field, const_val, is_call, sh
from analysis import preach

SWAP = "manager::swap_manager::swap"
CS = "math::swap_math::compute_swap"


def _calls_in(t, suffix):
    return [s for s in subterms(t) if s[0] == "call" and (s[1] == suffix or s[1].endswith("::" + suffix))]


class SwapModel:
    def __init__(self, facts, ctx):
        self.facts = facts
        self.fn = facts.need_fn(SWAP)
        self.ctx = ctx
        self.pv = prov_of(self.fn, ctx, cut=True)
        self.roles = {}
        self._classify()

    def defs(self, local):
        return self.merged_defs(local) if getattr(self, "alias", None) else self.pv.var_defs(local)

    def _aliases(self):
        """A loop variable handed to an inlined helper by value and assigned back from it (`(x, y) = step(x, y, ..)?`) lives on
        in the helper's own variable: {helper variable: caller variable}. The pair is one logical variable."""
        fn, pv = self.fn, self.pv
        out = {}
        named = [l for l in range(fn.argc + 1, len(fn.locals)) if fn.locals[l].get("n")]
        for a in named:
            if fn.locals[a].get("inl"):
                continue
            for (_, _, t) in pv.var_defs(a):
                t0 = strip(t)
                if t0[0] == "var" and fn.locals[t0[2]].get("inl") and t0[2] != a:
                    h = t0[2]
                    inits = [x for (_, _, x) in pv.var_defs(h) if not any(s_ == ("var", fn.locals[h]["n"], h) for s_ in subterms(x))]
                    if inits and all(strip(x) == ("var", fn.locals[a]["n"], a) for x in inits):
                        out[h] = a
        return out

    def _subst(self, t):
        """Rewrite helper-side aliases to the caller's variable."""
        if not self.alias or not isinstance(t, tuple):
            return t
        if t and t[0] == "var" and t[2] in self.alias:
            a = self.alias[t[2]]
            return ("var", self.fn.locals[a]["n"], a)
        if t and t[0] == "phi":
            return ("phi", frozenset(self._subst(x) for x in t[1]))
        return tuple(self._subst(x) if isinstance(x, tuple) else x for x in t)

    def merged_defs(self, l):
        """Definitions of a logical variable: its own and those of its helper-side aliases, without the hand-over copies."""
        out = []
        hs = [h for h, a in self.alias.items() if a == l]
        for (b, ln, t) in self.pv.var_defs(l):
            t0 = strip(t)
            if t0[0] == "var" and t0[2] in hs:
                continue
            out.append((b, ln, self._subst(t)))
        for h in hs:
            for (b, ln, t) in self.pv.var_defs(h):
                t0 = strip(t)
                if t0 == ("var", self.fn.locals[l]["n"], l):
                    continue
                out.append((b, ln, self._subst(t)))
        return out

    def _classify(self):
        fn, pv = self.fn, self.pv
        self.alias = {}
        self.alias = self._aliases()
        for l in range(fn.argc + 1, len(fn.locals)):
            if not fn.locals[l].get("n") or l in self.alias:
                continue
            if fn.locals[l]["t"] == "bool":
                continue    # a named condition (`let go_on = remaining > 0 && ..`) is no loop variable
            ds = [d for d in pv.defs.get(l, []) if d[2] is None]
            if len(ds) < 2:
                continue
            terms = [t for (_, _, t) in self.merged_defs(l)]
            if not terms:
                continue
            inits = [t for t in terms if not any(s == ("var", fn.locals[l]["n"], l) for s in subterms(t))]
            upd = [t for t in terms if t not in inits]
            role = None
            flat_i = " | ".join(show(t) for t in inits)
            flat_u = " | ".join(show(t) for t in upd)
            allterms = terms
            if any(is_param(t, "amount") for t in inits) and "checked_sub" in flat_u:
                role = "remaining"
            elif any(is_field(t, "sqrt_price") for t in terms) and any(is_field(t, "next_price") for t in terms):
                role = "price"
            elif any(is_field(t, "tick_current_index") for t in terms):
                role = "tick"
            elif any(is_field(t, "liquidity") for t in terms) and any(_calls_in(t, "add_liquidity_delta") for t in terms):
                role = "liquidity"
            elif any(is_field(t, "fee_growth_global_a") or is_field(t, "fee_growth_global_b") for l_ in terms for t in leaves(l_)) and any(_calls_in(t, "calculate_fees") for t in terms):
                role = "fee_growth_input"
            elif any(const_val(t) == 0 for t in terms) and any(_calls_in(t, "calculate_fees") for t in terms):
                role = "protocol_fee"
            elif any(const_val(t) == 0 for t in terms) and any("fee_amount" in show(t) and "checked_add" in show(t) for t in terms) and \
                    not any("amount_out" in show(t) or "amount_in" in show(t) for t in terms):
                role = "fee_sum"
            elif any(const_val(t) == 0 for t in terms) and any("checked_add" in show(t) and ("amount_out" in show(t) or "amount_in" in show(t)) for t in terms):
                role = "calculated"
            elif any(const_val(t) == 0 for t in terms) and any(_calls_in(t, "get_next_initialized_tick_index") for t in terms):
                role = "array_index"
            elif any(is_param(t, "sqrt_price_limit") for t in terms):
                role = "limit"
            if role:
                if role in self.roles and self.roles[role] != l:
                    raise AnchorMissing("two loop variables match role %s in swap" % role)
                self.roles[role] = l

    def var(self, role):
        if role not in self.roles:
            raise AnchorMissing("swap loop variable for role `%s` not found" % role)
        return self.roles[role]

    def expand(self, t):
        """A named temporary (not one of the loop's role variables) is replaced by what it is assigned in this context."""
        t0 = strip(t)
        if t0[0] == "var" and t0[2] not in self.roles.values():
            ds = [x for (_, _, x) in self.pv.var_defs(t0[2])]
            if ds:
                return ds[0] if len(ds) == 1 else ("phi", frozenset(ds))
        return t

    def is_var(self, t, role):
        t = strip(t)
        return t[0] == "var" and (t[2] == self.roles.get(role) or self.alias.get(t[2], -1) == self.roles.get(role))

    def reads_now(self, block, operand, role):
        """The call operand reads the role variable itself at the call (through unnamed temporaries of the same block), not a named
        copy of it taken earlier - the provenance of a loop variable has no time, a snapshot looks the same."""
        from analysis.ir import op_place
        fn = self.fn
        want = self.roles.get(role)
        pl = op_place(operand)
        for _ in range(6):
            if pl is None or pl.get("p"):
                return False
            l = pl["l"]
            if l == want or self.alias.get(l) == want:
                return True
            if fn.locals[l].get("n") and not fn.locals[l].get("inl"):
                return False       # a named local of the function itself: a copy taken at some other time
            ds = [st for st in fn.blocks[block]["s"] if st["k"] == "=" and st["p"]["l"] == l and not st["p"].get("p")]
            if len(ds) != 1 or "use" not in ds[0]["rv"]:
                return False
            pl = op_place(ds[0]["rv"]["use"])
        return False

    def updates(self, role):
        """Non-initial definitions (those mentioning the variable itself or derived from the step)."""
        l = self.var(role)
        return self.defs(l)

    def result_fields(self):
        pv, fn = self.pv, self.fn
        for bi, bb in enumerate(fn.blocks):
            if bb["t"]["k"] == "ret" and (pv.flow is None or pv.flow.state_in[bi] is not None):
                t = pv.local(0, bi, len(bb["s"]))
                for l in leaves(t):
                    for s in subterms(l):
                        if s[0] == "agg" and s[1].endswith("PostSwapUpdate"):
                            return dict(s[3])
        raise AnchorMissing("swap does not return PostSwapUpdate{..} in context %s" % self.ctx)

    def step_field(self, t, name):
        """is t == compute_swap(..)?.<name>"""
        t = strip(t)
        return t[0] == "field" and t[2] == name and bool(_calls_in(t[1], "compute_swap"))


def contexts():
    return preach.contexts(["amount_specified_is_input", "a_to_b"])
