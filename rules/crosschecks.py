"""Rule instances of one property that are also necessary conditions of another are re-decided under that other property's id
(rule "RX"), so that each check is self-sufficient: a change aimed at property X is reported by X's own check even when the
construct it breaks was first modelled for property Y. No new analysis - the listed rule functions are run through a proxy.
The table was filled from seeded changes that only another property's check reported (DESIGN 10.4)."""
import importlib
from analysis.ir import AnchorMissing
from rules.common import RuleProxy

# property -> [(module, rule function, why it is necessary for this property)]
CROSS = {
    "C01": [("C05", "R4_in_range", "pool liquidity is the sum over the positions whose range contains the current tick, bounds as [lower, upper)"),
            ("C05", "R3_tick_polarity", "a tick whose gross liquidity returned to zero but stays initialised keeps net liquidity the pool no longer holds"),
            ("C10", "R6_array_grid", "a start index off the tick-array grid addresses slots whose liquidity is counted under another index"),
            ("C04", "R1e_mutated_accounts_are_mut", "an update that is not written back (missing `mut`) never happened: fees are collected twice, liquidity is never recorded"),
            ("C10", "R5_loop_cursor", "a tick index moved without a crossing counts positions the pool liquidity does not contain"),
            ("C10", "R4_sequence", "a tick skipped at an array boundary is liquidity that is claimed but was never added"),
            ("C18", "R7_range_validator", "a zero-width or inverted range mints liquidity for nothing"),
            ("C17", "R3_equality_guard", "a two-hop whose legs disagree about the intermediate amount pays out what the second pool never received"),
            ("C06", "R3_booking_side", "fees booked on the side nobody paid are fees the vault cannot pay"),
            ("C10", "R3_search_siblings", "a swap that skips an initialised tick trades against liquidity that is not there"),
            ("C05", "R2_one_delta", "tick updates seeded with the wrong side's growth credit fees nobody paid"),
            ("C15", "R4_loaders_and_unchecked", "a tick array of another pool lets one pool's liquidity be counted in another"),
            ("xfer", "R_cpi_builders", "deposits must arrive in the vault and only pool-signed outflows may leave it, for the amount computed"),
            ("C03", "R7_amount_and_limit_wiring", "what a v2 swap pays out is what the loop computed, not what was asked for"),
            ("lostupdate", "R_lost_updates", "an update made to a copy of the state and dropped never happened")],
    "C03": [("C06", "R3_booking_side", "the amounts compared with the limits are the amounts the swap update stored, on the side they were paid"),
            ("C16", "R4_helpers", "the limits are compared with amounts net of the Token-2022 transfer fee, which is rounded up"),
            ("C06", "R4_swap_transfers", "what is compared with the limit must be what is transferred"),
            ("C16", "R5_tlv_reader", "the fee schedule of the current epoch decides what the trader pays and receives")],
    "C05": [("C07", "R5_credit", "the position update carries the position's new liquidity on every path, also when a fee delta overflows"),
            ("C06", "R3_booking_side", "the tick stored with the pool is the tick the loop computed the liquidity for"),
            ("C04", "R1e_mutated_accounts_are_mut", "an update that is not written back leaves the pool's liquidity and ticks at their old values"),
            ("C13", "R6_account_wiring", "ticks written before the array is grown are cut off by the resize"),
            ("C13", "R2_shift_bitmap_pairing", "a de-initialised dynamic slot that keeps a stray flag is a tick with garbage net / gross"),
            ("C10", "R3_search_siblings", "a tick the search skips is never crossed and its net never applied"),
            ("C15", "R5_pinocchio_superset", "a position of another pool adds liquidity to ticks of a pool it does not belong to"),
            ("C13", "R4_size_and_rent", "a dynamic array that shrinks while a tick stays initialised loses that tick's net / gross"),
            ("C13", "R5_shared_checks", "a tick booked into the wrong slot is liquidity at the wrong price"),
            ("C12", "R3_accessors", "a partial tick update leaves stale net / gross behind"),
            ("C13", "R3_byte_offset", "a tick read or written at the wrong byte offset is another tick's net / gross"),
            ("pair", "manager::liquidity_manager::calculate_modify_liquidity", "the array that is grown is the array whose tick is initialised"),
            ("C18", "R1_range_fields", "a position moved to a new range while it still holds liquidity leaves that liquidity booked in the old ticks"),
            ("lostupdate", "R_lost_updates", "an update made to a copy of the state and dropped never happened"),
            ("C13", "R4c_initialise_only_blank", "a fixed array overwritten by a dynamic header loses every net / gross it holds"),
            ("C13", "R4b_resize_moves_no_bytes", "a resize that writes tick bytes changes net / gross of a tick nobody updated"),
            ("C15", "R4_loaders_and_unchecked", "a tick array of another pool takes this pool's net / gross")],
    "C07": [("C12", "R3_accessors", "the Pinocchio position update writes every growth checkpoint it was handed, unconditionally"),
            ("C01", "R2_pay_reset", "collecting fees resets what is owed and nothing else (the checkpoint stays)"),
            ("C15", "R3_back_references", "a position settled against another pool's growth is credited fees its pool never collected"),
            ("C10", "R5_loop_cursor", "a cursor moved without a crossing leaves fee_growth_outside flipped"),
            ("C06", "R3_booking_side", "fee growth booked on the wrong token is credited in the wrong token"),
            ("C06", "R4_swap_transfers", "ticks crossed by a swap whose pool update is skipped keep a flipped fee_growth_outside: a position bounded there is credited the pool's whole history"),
            ("lostupdate", "R_lost_updates", "an update made to a copy of the state and dropped never happened"),
            ("pair", "manager::liquidity_manager::_calculate_modify_liquidity", "growth inside is read from the ticks as they were before this instruction's update"),
            ("C05", "R4_in_range", "liquidity counted in range at the upper tick dilutes every in-range position's share")],
    "C08": [("C16", "R3_reposition_info", "the caller's maxima bound what a reposition may take, whichever way the net transfer goes"),
            ("C02", "R5_exact_remainders", "deposits are rounded up through the same remainder tests"),
            ("pair", "manager::liquidity_manager::calculate_liquidity_token_deltas", "both packagings compute the same token amounts for a liquidity delta")],
    "C09": [("C10", "R5_loop_cursor", "the tick index the swap stores with a price is the tick of that price (or the crossed tick's neighbour), computed by the one inverse"),
            ("C08", "R1_case_split", "every price a position is valued at comes from the one tick-to-price function"),
            ("C19", "R1c_pool_initialize", "a pool is only created at a price inside the published bounds"),
            ("C08", "R4_estimate", "range bounds are priced by the one tick-to-price function"),
            ("C14", "R6_stepping", "a tick-group boundary is priced by the one tick-to-price function, whichever direction the step runs")],
    "C10": [("C13", "R2_shift_bitmap_pairing", "the swap finds a dynamic array's ticks through its bitmap: a bit cleared or left behind by an update is a tick crossed or skipped wrongly"),
            ("C13", "R5_shared_checks", "fixed and dynamic arrays must refuse the same lookups"),
            ("C05", "R5_crossing", "an initialised tick the swap reaches is crossed, whatever else the step did"),
            ("C06", "R3_booking_side", "the tick index stored with the pool is the one the loop ended on: the next swap's search starts there"),
            ("C03", "R7_amount_and_limit_wiring", "one pass of the swap loop per instruction: a second pass over the same arrays crosses every tick back")],
    "C11": [("C04", "R1e_mutated_accounts_are_mut", "reward growth and timestamps that are not written back stay stale"),
            ("C18", "R1_range_fields", "re-ranging a position must keep what it is owed"),
            ("C15", "R3_back_references", "a position of another pool has no share in this pool's rewards"),
            ("C12", "R3_accessors", "the Pinocchio write-back of reward growth and its timestamp"),
            ("C16", "R1_swap_wiring", "the v2 wrapper must hand on the accrued reward infos"),
            ("C07", "R3_init_convention", "a tick initialised at or below the price takes the accrued growths as its outside value"),
            ("lostupdate", "R_lost_updates", "an update made to a copy of the state and dropped never happened"),
            ("pair", "manager::liquidity_manager::calculate_fee_and_reward_growths", "an out-of-range position's refresh accrues the pool's rewards like any other"),
            ("pair", "manager::position_manager::next_position_modify_liquidity_update", "owed rewards are carried, never reset by a settlement")],
    "C12": [("C18", "R1_range_fields", "the Pinocchio range reset zeroes the same checkpoints the Anchor one does"),
            ("C13", "R5_shared_checks", "the Pinocchio lookup must serve exactly the ticks the Anchor one serves"),
            ("C04", "R2_authority_helpers", "both packagings demand delegated_amount == 1 of a delegate")],
    "C13": [("C12", "R3_accessors", "a de-initialised fixed slot must be cleared as a dynamic one is"),
            ("pair", "state::tick::Tick::check_is_out_of_bounds", "both array implementations accept the same ticks, the boundary ticks included")],
    "C02": [("C06", "R8_widths", "a truncated amount is not rounded in the pool's favour, it is dropped")],
    "C14": [("C06", "R1_step_fee", "the fee charged is the scheduled total rate, not a clamped one"),
            ("C15", "R3_back_references", "the oracle is the pool's own: another account in its place switches the adaptive fee off"),
            ("C06", "R8_widths", "total rates of adaptive-fee pools exceed u16 and must reach the step computation whole"),
            ("C16", "R1_swap_wiring", "the v2 wrapper must hand on the updated adaptive-fee variables"),
            ("C20", "R4_fee_manager_ports", "program and SDK fee managers are each other's reference"),
            ("C17", "R1_legs", "each leg of a two-hop is charged by its own pool's adaptive-fee state"),
            ("lostupdate", "R_lost_updates", "an update made to a copy of the state and dropped never happened")],
    "C16": [("C03", "R1_threshold_table", "the trader's limit is compared with the amount net of transfer fees"),
            ("xfer", "R_cpi_builders", "checked transfers carry the mint, its decimals and - iff it has a hook - the hook accounts"),
            ("events", "R_events", "the amounts and transfer fees reported are those of the same token side"),
            ("C06", "R4_swap_transfers", "the amounts moved by a two-hop are each leg's own input and output")],
    "C17": [("C15", "R5b_remaining_accounts", "each leg of a two-hop accepts the supplemental tick arrays a single swap accepts (its own list, its own limit)"),
            ("C04", "R1e_mutated_accounts_are_mut", "the second pool of a two-hop must be written back like the first"),
            ("C15", "R3_back_references", "each leg's oracle is that leg's pool's own"),
            ("C03", "R1_threshold_table", "the two-hop's limit is compared with the last leg's output / the first leg's input"),
            ("C14", "R4_gates", "a leg that could not trade on its own must stop the two-hop"),
            ("C15", "R1_token_accounts", "each leg's vaults are the vaults of that leg's pool"),
            ("C15", "R1b_instruction_args", "the direction each leg's vault and mint constraints are evaluated with is that leg's own direction")],
    "C18": [("C04", "R4b_token_account_loader", "the frozen token account of a locked position is still a valid token account"),
            ("C15", "R3_back_references", "a position is re-ranged against its own pool only"),
            ("C04", "R1e_mutated_accounts_are_mut", "a bundle whose bitmap is not written back keeps the closed position's bit"),
            ("lostupdate", "R_lost_updates", "an update made to a copy of the state and dropped never happened")],
    "C15": [("C17", "R4_distinct_and_shared_mint", "the two pools of a two-hop are two different accounts"),
            ("C04", "R4b_token_account_loader", "token accounts are accepted from the two token programs only, compared in full"),
            ("C04", "R3_pinocchio_labelling", "a program slot holds the program it is named after")],
    "C06": [("C04", "R1e_mutated_accounts_are_mut", "owed protocol fees that are not reset are paid again"),
            ("C16", "R5_tlv_reader", "the input the pool books is what arrives net of the current epoch's transfer fee"),
            ("C07", "R6_swap_growth_handoff", "the step's LP share is divided by the liquidity it traded against and booked before the tick is crossed"),
            ("C17", "R3_equality_guard", "tokens a second hop does not price are taken from the trader and credited to nobody"),
            ("lostupdate", "R_lost_updates", "an update made to a copy of the state and dropped never happened"),
            ("C16", "R4_helpers", "what the pool prices is what its vault receives: the excluded amount subtracts the fee rounded as the token program rounds it")],
    "C19": [("C16", "R5_tlv_reader", "the program's own copy of the extension numbering decides which rule a mint is held to")],
    "C20": [("C10", "R3_search_siblings", "the program side the SDK mirrors is one search, whichever array encoding serves it")],
}
NEEDS_SDK = {p for p, lst in CROSS.items() if any(m == "C20" for m, _, _ in lst)}


def apply(run, prop):
    """Run the cross-checks of `prop` under rule id RX. Returns the number of rule functions run."""
    # the census of unconditional refusals, restricted to the functions this property's rules read (rule id RG)
    try:
        from rules import guardcensus
        guardcensus.R_guards(run, "RG")
    except Exception as e:
        run.missing("RG", "rule-crashed:guardcensus", "%s: %s" % (type(e).__name__, e))
    # the census of account constraints: all structs for the two account properties, otherwise the structs of the instructions whose
    # handlers this property's rules read (rule id RA)
    try:
        from rules import acctcensus
        from analysis import program
        if prop in ("C01", "C04", "C15"):
            structs = None
        else:
            structs = set()
            for e in program.entries(run.facts):
                if (e.handler and e.handler in run.fns_touched) or (e.routed and e.routed in run.fns_touched):
                    structs.add((e.ctx_struct or "").rsplit("::", 1)[-1])
        if structs is not None and prop in ("C03", "C06", "C10", "C14", "C16", "C17"):
            structs |= {"Swap", "SwapV2", "TwoHopSwap", "TwoHopSwapV2"}     # the swap instructions, whichever helper the rules read
        if structs is None or structs:
            acctcensus.R_accounts(run, "RA", structs)
    except Exception as e:
        run.missing("RA", "rule-crashed:acctcensus", "%s: %s" % (type(e).__name__, e))
    lst = CROSS.get(prop, [])
    if not lst:
        return 0
    run.title("RX", "cross-checks: " + "; ".join("%s.%s (%s)" % (m, f.split("_")[0] if m != "pair" else f.rsplit("::", 1)[-1], why) for m, f, why in lst))
    for m, f, _ in lst:
        mod = importlib.import_module("rules.%s" % m) if m != "pair" else None
        if mod is not None and getattr(mod, "NEEDS_SDK", False) and run.sdk is None:
            run.missing("RX", "%s.%s" % (m, f), "cross-check needs the SDK facts")
            continue
        if m == "pair":
            # one Anchor ~ Pinocchio pair of C12's table, compared under this property's id
            from rules import C12
            pr = [x for x in C12.PAIRS if x["a"] == f]
            if not pr:
                run.missing("RX", "pair:" + f, "pair not in C12.PAIRS")
                continue
            pr = pr[0]
            try:
                C12.compare_pair(run, "RX", pr["a"], pr["b"], keys=pr.get("keys", C12.ALL), subs_b=pr.get("subs_b", ()), exempt=pr.get("exempt", {}),
                                 norm_a=pr.get("na"), norm_b=pr.get("nb"), semantic=pr.get("semantic"))
            except Exception as e:
                run.missing("RX", "rule-crashed:pair:" + f, "%s: %s" % (type(e).__name__, e))
            continue
        try:
            if m in ("xfer", "events", "lostupdate"):
                getattr(mod, f)(run, "RX")
            else:
                getattr(mod, f)(RuleProxy(run, "RX"))
        except AnchorMissing as e:
            run.missing("RX", "anchor:%s.%s" % (m, f.split("_")[0]), str(e))
        except Exception as e:
            run.missing("RX", "rule-crashed:%s.%s" % (m, f.split("_")[0]), "%s: %s" % (type(e).__name__, e))
    return len(lst)
