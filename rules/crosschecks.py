"""Rule instances of one property that are also necessary conditions of another are re-decided under that other property's id
(rule "RX"), so that each check is self-sufficient: a change aimed at property X is reported by X's own check even when the
construct it breaks was first modelled for property Y. No new analysis - the listed rule functions are run through a proxy.
The table was filled from seeded changes that only another property's check reported (DESIGN 10.4)."""
import importlib
from analysis.ir import AnchorMissing
from rules.common import RuleProxy

# property -> [(module, rule function, why it is necessary for this property)]
CROSS = {
    "C01": [("C10", "R3_search_siblings", "a swap that skips an initialised tick trades against liquidity that is not there"),
            ("C05", "R2_one_delta", "tick updates seeded with the wrong side's growth credit fees nobody paid"),
            ("C15", "R4_loaders_and_unchecked", "a tick array of another pool lets one pool's liquidity be counted in another"),
            ("xfer", "R_cpi_builders", "deposits must arrive in the vault and only pool-signed outflows may leave it, for the amount computed")],
    "C03": [("C16", "R5_tlv_reader", "the fee schedule of the current epoch decides what the trader pays and receives")],
    "C05": [("C13", "R4_size_and_rent", "a dynamic array that shrinks while a tick stays initialised loses that tick's net / gross"),
            ("C13", "R5_shared_checks", "a tick booked into the wrong slot is liquidity at the wrong price"),
            ("C12", "R3_accessors", "a partial tick update leaves stale net / gross behind")],
    "C07": [("C10", "R5_loop_cursor", "a cursor moved without a crossing leaves fee_growth_outside flipped"),
            ("C06", "R3_booking_side", "fee growth booked on the wrong token is credited in the wrong token")],
    "C08": [("C02", "R5_exact_remainders", "deposits are rounded up through the same remainder tests")],
    "C09": [("C08", "R1_case_split", "every price a position is valued at comes from the one tick-to-price function")],
    "C10": [("C13", "R5_shared_checks", "fixed and dynamic arrays must refuse the same lookups")],
    "C11": [("C12", "R3_accessors", "the Pinocchio write-back of reward growth and its timestamp"),
            ("C16", "R1_swap_wiring", "the v2 wrapper must hand on the accrued reward infos")],
    "C12": [("C13", "R5_shared_checks", "the Pinocchio lookup must serve exactly the ticks the Anchor one serves")],
    "C13": [("C12", "R3_accessors", "a de-initialised fixed slot must be cleared as a dynamic one is")],
    "C14": [("C16", "R1_swap_wiring", "the v2 wrapper must hand on the updated adaptive-fee variables"),
            ("C20", "R4_fee_manager_ports", "program and SDK fee managers are each other's reference")],
    "C16": [("xfer", "R_cpi_builders", "checked transfers carry the mint, its decimals and - iff it has a hook - the hook accounts"),
            ("events", "R_events", "the amounts and transfer fees reported are those of the same token side")],
    "C17": [("C14", "R4_gates", "a leg that could not trade on its own must stop the two-hop"),
            ("C15", "R1_token_accounts", "each leg's vaults are the vaults of that leg's pool")],
    "C18": [("C15", "R3_back_references", "a position is re-ranged against its own pool only")],
}
NEEDS_SDK = {p for p, lst in CROSS.items() if any(m == "C20" for m, _, _ in lst)}


def apply(run, prop):
    """Run the cross-checks of `prop` under rule id RX. Returns the number of rule functions run."""
    lst = CROSS.get(prop, [])
    if not lst:
        return 0
    run.title("RX", "cross-checks: " + "; ".join("%s.%s (%s)" % (m, f.split("_")[0], why) for m, f, why in lst))
    for m, f, _ in lst:
        mod = importlib.import_module("rules.%s" % m)
        if getattr(mod, "NEEDS_SDK", False) and run.sdk is None:
            run.missing("RX", "%s.%s" % (m, f), "cross-check needs the SDK facts")
            continue
        try:
            if m in ("xfer", "events"):
                getattr(mod, f)(run, "RX")
            else:
                getattr(mod, f)(RuleProxy(run, "RX"))
        except AnchorMissing as e:
            run.missing("RX", "anchor:%s.%s" % (m, f.split("_")[0]), str(e))
        except Exception as e:
            run.missing("RX", "rule-crashed:%s.%s" % (m, f.split("_")[0]), "%s: %s" % (type(e).__name__, e))
    return len(lst)
