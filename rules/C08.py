"""C08 Liquidity converts to token amounts exactly: up on deposit, down on withdrawal.

Decided (both implementations): the three-way case split of calculate_liquidity_token_deltas
on the current tick versus the range with the statement's price pairs per case, round_up =
(liquidity_delta > 0), liquidity = |delta|, zero delta rejected; the sign of the delta built
by each handler (increase / new range positive, decrease / existing range negative); the
caller-limit comparisons (token max on the fee-included deposit, token min on the
fee-excluded withdrawal) with the right side and before any transfer; the floor divisions
and case split of the max-liquidity estimate with the price interval of each arm.
Also decided: the two estimate formulas as terms (which bounds, which maximum, one truncation at the end) in each price case,
whether they are helpers or written in place; every word write of the 256-bit product is guarded by exactly index < 4.
Not decided: exactness, the one-unit loss bound, "largest L that fits"."""
from analysis import cfg, atoms as A, preach, pino
from analysis.ir import callee_path, AnchorMissing
from analysis.prov import prov_of, prov_assuming, strip, leaves, subterms, show
from analysis.match import is_param, is_field, is_call, const_val, sh, mentions, fail_conditions
from rules.common import calls_to, ends, arg_name, argname_mismatches

PM = "pinocchio::ported::manager_liquidity_manager::"
PI = "pinocchio::instructions::"
TM = "math::token_math::"


def R1_case_split(run):
    run.title("R1", "calculate_liquidity_token_deltas (both): delta == 0 => LiquidityZero; below range: only A over (lower, upper); inside: A over "
                    "(price, upper) and B over (lower, price); above: only B over (lower, upper); liquidity = |delta|, round_up = delta > 0; bounds = the position's own ticks")
    facts = run.facts
    for path in ("manager::liquidity_manager::calculate_liquidity_token_deltas", PM + "pino_calculate_liquidity_token_deltas"):
        fn = facts.need_fn(path)
        run.touch(fn)
        short = path.rsplit("::", 1)[-1]
        zero = any(o == "Eq" and is_param(x, "liquidity_delta") and const_val(y) == 0 and "LiquidityZero" in (at.true_codes | at.false_codes)
                   for at in A.atoms(fn) for (op, a, b) in fail_conditions(at) for (o, x, y) in ((op, a, b), (A.SWAP[op], b, a)))
        run.check("R1", "zero-delta@" + short, zero, "%s no longer rejects liquidity_delta == 0 with LiquidityZero" % path, loc=fn.loc(), detail="delta == 0 => LiquidityZero")
        # ... and refuses nothing else by a test of its own: every usable tick - MIN and MAX included - is priced by the one conversion
        # function, and the other errors are those of the amount primitives
        other = sorted({c_ for at in A.atoms(fn) for c_ in ((at.true_codes if at.true_fail else set()) | (at.false_codes if at.false_fail else set()))} - {"LiquidityZero"})
        run.check("R1", "no-other-refusal@" + short, not other, "%s refuses inputs on a test of its own with %s; the two packagings must value every tick the position validation accepted" % (path, other),
                  loc=fn.loc(), detail="own failing tests: delta == 0 only")
        a_lo = a_up = None
        for at in A.atoms(fn):
            c = at.cond()
            if c:
                for (o, x, y) in ((c[0], c[1], c[2]), (A.SWAP[c[0]], c[2], c[1])):
                    if o == "Lt" and is_param(x, "current_tick_index") and arg_name(y) == "tick_lower_index":
                        a_lo = at
                    if o == "Lt" and is_param(x, "current_tick_index") and arg_name(y) == "tick_upper_index":
                        a_up = at
        if a_lo is None or a_up is None:
            run.missing("R1", "atoms@" + short, "%s: tests current_tick_index < tick_lower_index / < tick_upper_index not found" % path, loc=fn.loc())
            continue

        def truth(at, want):
            c = at.cond()
            # cond() has negation folded; orientation: we need `current < bound` == want
            o, x = c[0], c[1]
            lt_form = (o == "Lt" and is_param(x, "current_tick_index")) or (o == "Gt" and not is_param(x, "current_tick_index"))
            return want if lt_form else (not want)

        def price_kind(t):
            t = strip(t)
            if is_param(t, "sqrt_price"):
                return "price"
            if is_call(t, "sqrt_price_from_tick_index"):
                n = arg_name(t[2][0])
                if n == "tick_lower_index" and mentions(t, lambda s: s[0] == "param" and s[1] == "position"):
                    return "lower"
                if n == "tick_upper_index" and mentions(t, lambda s: s[0] == "param" and s[1] == "position"):
                    return "upper"
            return "?" + sh(t, 30)
        cases = [("below", [(a_lo, truth(a_lo, True))], {("a", "lower", "upper")}),
                 ("inside", [(a_lo, truth(a_lo, False)), (a_up, truth(a_up, True))], {("a", "price", "upper"), ("b", "lower", "price")}),
                 ("above", [(a_lo, truth(a_lo, False)), (a_up, truth(a_up, False))], {("b", "lower", "upper")})]
        for name, assumptions, want in cases:
            pv = prov_assuming(fn, assumptions)
            got = set()
            good_args = True
            for bi, t in fn.calls():
                p = callee_path(t)
                if p in (TM + "get_amount_delta_a", TM + "get_amount_delta_b") and pv.flow.state_in[bi] is not None:
                    args = [pv.operand(a, bi, len(fn.blocks[bi]["s"])) for a in t["a"]]
                    got.add((p[-1], price_kind(args[0]), price_kind(args[1])))
                    liq, ru = strip(args[2]), strip(args[3])
                    if not (liq[0] == "call" and liq[1].endswith("unsigned_abs") and is_param(liq[2][0], "liquidity_delta")):
                        good_args = False
                    if not (ru[0] == "bin" and ru[1] == "Gt" and is_param(ru[2], "liquidity_delta") and const_val(ru[3]) == 0):
                        good_args = False
            run.check("R1", "case:%s@%s" % (name, short), got == want, "%s: with the current tick %s the range it computes %s, expected %s" % (path, name, sorted(got), sorted(want)), loc=fn.loc(),
                      detail=", ".join("delta_%s(%s, %s)" % x for x in sorted(want)))
            run.check("R1", "args:%s@%s" % (name, short), good_args, "%s (%s): liquidity / round_up arguments are not (liquidity_delta.unsigned_abs(), liquidity_delta > 0)" % (path, name), loc=fn.loc(),
                      detail="liquidity = |delta|, round_up = delta > 0")
        # result tuple = (delta_a, delta_b) with zero defaults
        pv = prov_of(fn)
        for bi, bb in enumerate(fn.blocks):
            if bb["t"]["k"] == "ret":
                rets = [r for r in leaves(pv.local(0, bi, len(bb["s"]))) if r[0] == "agg" and r[2] == "Ok"]
                # the pair may be built once from two merged components or once per case: collect both components over all forms
                tups = [x for r in rets for x in leaves(dict(r[3])["0"])]
                ok = bool(tups) and all(x[0] == "tuple" and len(x[1]) == 2 for x in tups)
                if ok:
                    ta = ("phi", frozenset(y for x in tups for y in leaves(x[1][0])))
                    tb = ("phi", frozenset(y for x in tups for y in leaves(x[1][1])))
                    ok = all(const_val(x) == 0 or is_call(x, "get_amount_delta_a") for x in leaves(ta)) and all(const_val(x) == 0 or is_call(x, "get_amount_delta_b") for x in leaves(tb)) \
                        and any(is_call(x, "get_amount_delta_a") for x in leaves(ta)) and any(is_call(x, "get_amount_delta_b") for x in leaves(tb))
                run.check("R1", "result-order@" + short, ok, "%s does not return (delta_a, delta_b) in that order" % path, loc=fn.loc(), detail="Ok((delta_a | 0, delta_b | 0))")


def R1b_convert(run):
    run.title("R1b", "convert_to_liquidity_delta: positive => +amount, otherwise -amount; amounts above i128::MAX rejected")
    fn = run.facts.need_fn("math::liquidity_math::convert_to_liquidity_delta")
    run.touch(fn)
    for pos in (False, True):
        pv = prov_of(fn, {"positive": pos})
        for bi, bb in enumerate(fn.blocks):
            if bb["t"]["k"] == "ret" and pv.flow.state_in[bi] is not None:
                oks = [r for r in leaves(pv.local(0, bi, len(bb["s"]))) if r[0] == "agg" and r[2] == "Ok"]
                ok = len(oks) == 1
                if ok:
                    v = strip(dict(oks[0][3])["0"])
                    if pos:
                        ok = is_param(v, "liquidity_amount")
                    else:
                        ok = v[0] == "un" and v[1] == "Neg" and is_param(v[2], "liquidity_amount")
                run.check("R1b", "sign[positive=%d]" % pos, ok, "convert_to_liquidity_delta(positive=%s) does not return %samount" % (pos, "+" if pos else "-"), loc=fn.loc(),
                          detail="%samount" % ("+" if pos else "-"))
    ok = any(o == "Gt" and is_param(x, "liquidity_amount") and const_val(y) == (1 << 127) - 1 for at in A.atoms(fn) for (op, a, b) in fail_conditions(at) for (o, x, y) in ((op, a, b), (A.SWAP[op], b, a)))
    run.check("R1b", "range", ok, "convert_to_liquidity_delta no longer rejects amounts above i128::MAX", loc=fn.loc(), detail="amount > i128::MAX => LiquidityTooHigh")


HANDLERS = [
    ("increase_liquidity", True, False), ("increase_liquidity_v2", True, True), ("increase_liquidity_by_token_amounts_v2", True, True),
    ("decrease_liquidity", False, False), ("decrease_liquidity_v2", False, True),
]


def _delta_sign_calls(fn):
    out = []
    for (bi, t, args) in calls_to(fn, ends("convert_to_liquidity_delta")):
        out.append((bi, t, const_val(args[1])))
    return out


def R2_handler_polarity(run):
    run.title("R2", "handlers: increase (and the reposition's new range) build the delta with positive = true, decrease (and the reposition's existing range) with false; "
                    "that same delta is the one applied (calculate_modify_liquidity) and the one priced (calculate_liquidity_token_deltas)")
    facts = run.facts
    items = [(PI + h + "::handler", inc) for (h, inc, _) in HANDLERS]
    items += [(PI + "reposition_liquidity_v2::increase_liquidity_into_new_range", True), (PI + "reposition_liquidity_v2::decrease_liquidity_from_existing_range", False)]
    for path, inc in items:
        fn = facts.need_fn(path)
        run.touch(fn)
        short = path.replace(PI, "")
        cs = _delta_sign_calls(fn)
        ok = len(cs) == 1 and cs[0][2] == (1 if inc else 0)
        run.check("R2", "sign@" + short, ok, "%s builds its liquidity delta with positive = %s, expected %s" % (path, [c[2] for c in cs], inc), loc=fn.loc(),
                  detail="convert_to_liquidity_delta(amount, %s)" % str(inc).lower())
        if not ok:
            continue
        pv = prov_of(fn)
        cm = calls_to(fn, ends("pino_calculate_modify_liquidity"))
        ct = calls_to(fn, ends("pino_calculate_liquidity_token_deltas"))
        ok = len(cm) == 1 and len(ct) == 1 and is_call(cm[0][2][4], "convert_to_liquidity_delta") and strip(cm[0][2][4]) == strip(ct[0][2][3])
        run.check("R2", "same-delta@" + short, ok, "%s applies and prices different liquidity deltas" % path, loc=fn.loc(), detail="modify(delta) and token_deltas(delta) use one delta")
        if ok:
            # priced at the pool's tick / price and this position
            a = [pino.canon(fn, x) for x in ct[0][2]]
            names = [arg_name(strip(x)) if strip(x)[0] == "field" else None for x in a[:2]]
            ok = names[0] == "tick_current_index" and (names[1] == "sqrt_price" or arg_name(ct[0][2][1]) in ("current_sqrt_price", "sqrt_price"))
            run.check("R2", "priced-at-pool@" + short, ok, "%s prices the delta at (%s, %s), expected the pool's (tick_current_index, sqrt_price)" % (path, pino.cshow(a[0]), pino.cshow(a[1])),
                      loc=fn.loc(), detail="(pool.tick_current_index, pool.sqrt_price, position, delta)")


def _limit_conditions(fn, code):
    out = []
    for at in A.atoms(fn):
        for (op, a, b) in fail_conditions(at):
            if code in (at.true_codes | at.false_codes):
                out.append((op, pino.canon(fn, a), pino.canon(fn, b), at))
    return out


def _strip_amount(v, kind):
    """(inner delta term, mint slot name) if v is <pino_calculate_transfer_fee_{kind}_amount(mint, X)?>.amount"""
    s = strip(v)
    if s[0] == "field" and s[2] == "amount":
        c = strip(s[1])
        if c[0] == "call" and c[1].endswith("pino_calculate_transfer_fee_%s_amount" % kind):
            m = c[2][0]
            return c[2][1], (m[1] if m[0] == "slot" else None)
    return None, None


def R3_caller_limits(run):
    run.title("R3", "handler limits: deposit side X fails with TokenMaxExceeded iff (v2: fee-included) delta_X > token_max_X; withdrawal fails with TokenMinSubceeded iff "
                    "(v2: fee-excluded) delta_X < token_min_X; X-consistent (delta .0 <-> A), and both checks precede both transfers")
    facts = run.facts
    for h, inc, v2 in HANDLERS:
        fn = facts.need_fn(PI + h + "::handler")
        run.touch(fn)
        code, want_op, lim = ("TokenMaxExceeded", "Gt", "token_max_") if inc else ("TokenMinSubceeded", "Lt", "token_min_")
        conds = _limit_conditions(fn, code)
        xfers = [bi for bi, t in fn.calls() if (callee_path(t) or "").rsplit("::", 1)[-1].startswith("pino_transfer_from_")]
        seen = {}
        for (op, a, b, at) in conds:
            for (o, val, limit) in ((op, a, b), (A.SWAP[op], b, a)):
                n = arg_name(limit)
                if not n or not n.startswith(lim):
                    continue
                side = n[-1]
                why = None
                if o != want_op:
                    why = "fails when value %s limit, expected %s" % (o, want_op)
                inner, mint = (val, None)
                if v2:
                    inner, mint = _strip_amount(val, "included" if inc else "excluded")
                    if inner is None:
                        why = why or "v2 must compare the transfer-fee-%s amount, found %s" % ("included" if inc else "excluded", pino.cshow(val))
                    elif not mint or ("mint_" + side) not in mint:
                        why = why or "fee is computed on mint `%s` for side %s" % (mint, side.upper())
                if inner is not None:
                    s = strip(inner)
                    if not (s[0] == "field" and s[2] == ("0" if side == "a" else "1") and is_call(s[1], "pino_calculate_liquidity_token_deltas")):
                        why = why or "compared amount is %s, expected token delta .%s" % (pino.cshow(inner), "0" if side == "a" else "1")
                if not all(A.guarded_by(fn, at, x) for x in xfers) or not xfers:
                    why = why or "the check does not precede the token transfers"
                seen[side] = why
        for side in "ab":
            ok = side in seen and seen[side] is None
            run.check("R3", "limit-%s@%s" % (side, h), ok, "%s: %s%s check: %s" % (h, lim, side, seen.get(side, "not found")), loc=fn.loc(),
                      detail="%sdelta_%s %s %s%s => %s, before %d transfers" % (("fee-%s " % ("included" if inc else "excluded")) if v2 else "", side, want_op, lim, side, code, len(xfers)))
        # transferred amounts
        for (bi, t, args) in calls_to(fn, lambda p: p.rsplit("::", 1)[-1].startswith("pino_transfer_from_")):
            cargs = [pino.canon(fn, x) for x in args]
            slots = [x[1] for x in cargs if x[0] == "slot"]
            sides = {s.split("_")[-2] for s in slots if s.split("_")[-2] in ("a", "b")}
            amt = cargs[-1] if inc or not v2 else cargs[-2]
            amt_term = amt
            if v2 and inc:
                inner, mint = _strip_amount(amt, "included")
                ok = inner is not None and mint and len(sides) == 1 and ("mint_" + list(sides)[0]) in mint
                amt_term = inner if inner is not None else amt
            else:
                ok = len(sides) == 1
            s = strip(amt_term)
            ok = ok and s[0] == "field" and is_call(s[1], "pino_calculate_liquidity_token_deltas") and len(sides) == 1 and s[2] == ("0" if list(sides)[0] == "a" else "1")
            run.check("R3", "transfer-amount:%s:l%d" % (h, t["l"] - fn.line), ok, "%s transfers %s with accounts %s: amount, mint and accounts are not all on one side" % (h, pino.cshow(amt), slots),
                      loc=fn.loc(t["l"]), detail="side %s: %s" % (sorted(sides), pino.cshow(amt)[:80]))
    # every limit check is on every success path (a check that is skipped when the amount is zero lets a withdrawal of nothing
    # satisfy a positive minimum), in the Pinocchio handlers and in the Anchor reference handlers
    anchor_handlers = [("instructions::increase_liquidity::handler", True, False), ("instructions::v2::increase_liquidity::handler", True, True),
                       ("instructions::decrease_liquidity::handler", False, False), ("instructions::v2::decrease_liquidity::handler", False, True)]
    for path, inc, v2 in [(PI + h + "::handler", i, v) for h, i, v in HANDLERS] + anchor_handlers:
        fn = facts.need_fn(path)
        run.touch(fn)
        code, want_op, lim = ("TokenMaxExceeded", "Gt", "token_max_") if inc else ("TokenMinSubceeded", "Lt", "token_min_")
        short = path.replace("::handler", "").replace("pinocchio::instructions::", "pino:").replace("instructions::", "anchor:")
        found = {}
        for at in A.atoms(fn):
            if code not in (at.true_codes | at.false_codes) or at.true_fail == at.false_fail:
                continue
            for (op, a, b) in fail_conditions(at):
                for (o, val, limit) in ((op, a, b), (A.SWAP[op], b, a)):
                    n = arg_name(limit)
                    if not n or not n.startswith(lim) or o != want_op:
                        continue
                    side = n[-1]
                    keep = at.false_targets if at.true_fail else at.true_targets
                    must = not cfg.success_reach(fn, 0, cut_edges={(at.block, k) for k in keep})
                    # the compared amount is that side's token delta (possibly through the transfer-fee helper of that side's mint)
                    idx = "0" if side == "a" else "1"
                    ok_val = any(x[0] == "field" and x[2] == idx and x[1][0] in ("q", "call") and is_call(strip(x[1]), "calculate_liquidity_token_deltas") or
                                 (x[0] == "field" and x[2] == idx and is_call(strip(x[1]), "pino_calculate_liquidity_token_deltas")) for x in subterms(val))
                    if path.startswith("instructions::"):
                        found[side] = (must, ok_val)
                    else:
                        found[side] = (must, True)
        for side in "ab":
            must, ok_val = found.get(side, (False, False))
            run.check("R3", "limit-always-%s@%s" % (side, short), must and ok_val,
                      "%s: the %s%s check is %s" % (path, lim, side, "missing" if side not in found else ("not applied on every success path" if not must else "not applied to that side's token delta")),
                      loc=fn.loc(), detail="%s%s enforced on every success path" % (lim, side))
    # by-token-amounts: price band and estimate inputs
    fn = facts.need_fn(PI + "increase_liquidity_by_token_amounts_v2::handler")
    lo = hi = False
    est = calls_to(fn, ends("estimate_max_liquidity_from_token_amounts"))
    for at in A.atoms(fn):
        for (op, a, b) in fail_conditions(at):
            if "PriceSlippageOutOfBounds" in (at.true_codes | at.false_codes):
                for (o, x, y) in ((op, pino.canon(fn, a), pino.canon(fn, b)), (A.SWAP[op], pino.canon(fn, b), pino.canon(fn, a))):
                    if arg_name(x) == "sqrt_price" and o == "Lt" and "min_sqrt_price" in show(y):
                        lo = True
                    if arg_name(x) == "sqrt_price" and o == "Gt" and "max_sqrt_price" in show(y):
                        hi = True
    run.check("R3", "price-band", lo and hi, "by-token-amounts: the pool price is not required to lie within [min_sqrt_price, max_sqrt_price]", loc=fn.loc(), detail="price < min || price > max => PriceSlippageOutOfBounds")
    ok = len(est) == 1
    if ok:
        a = [pino.canon(fn, x) for x in est[0][2]]
        ia, ma = _strip_amount(a[3], "excluded")
        ib, mb = _strip_amount(a[4], "excluded")
        ok = arg_name(a[0]) == "sqrt_price" and arg_name(a[1]) == "tick_lower_index" and arg_name(a[2]) == "tick_upper_index" and ia is not None and ib is not None and \
            "mint_a" in (ma or "") and "mint_b" in (mb or "") and "token_max_a" in show(ia) and "token_max_b" in show(ib)
    run.check("R3", "estimate-inputs", ok, "by-token-amounts: the estimate is not given (pool price, position bounds, excluded(mint_a, token_max_a), excluded(mint_b, token_max_b))", loc=fn.loc(),
              detail="estimate(price, lower, upper, excluded(max_a), excluded(max_b))")


def R4_estimate(run):
    run.title("R4", "estimate_max_liquidity_from_token_amounts: price >= upper => B-only; price <= lower => A-only; else min(liq_a, liq_b); every division floors")
    facts = run.facts
    fn = facts.need_fn(TM + "estimate_max_liquidity_from_token_amounts")
    run.touch(fn)
    a_up = a_lo = None
    for at in A.atoms(fn):
        c = at.cond()
        if c:
            for (o, x, y) in ((c[0], c[1], c[2]), (A.SWAP[c[0]], c[2], c[1])):
                if is_param(x, "current_sqrt_price") and is_call(y, "sqrt_price_from_tick_index"):
                    which = arg_name(strip(y)[2][0])
                    if o in ("Ge", "Lt") and which == "tick_upper_index":
                        a_up = (at, o)
                    if o in ("Le", "Gt") and which == "tick_lower_index":
                        a_lo = (at, o)
    if a_up is None or a_lo is None:
        run.missing("R4", "atoms", "tests price >= upper / price <= lower not found", loc=fn.loc())
        return

    # est_liquidity_for_token_a / _b are read spliced in (whether the two formulas are helpers or written in place is the same text)
    def bound(t):
        t = strip(t)
        if is_param(t, "current_sqrt_price"):
            return "current"
        if is_call(t, "sqrt_price_from_tick_index"):
            return {"tick_lower_index": "lower", "tick_upper_index": "upper"}.get(arg_name(t[2][0]), "?")
        return "?"

    def ordered(t, i):
        """ipo(p, q).i -> the (sorted) pair of bounds, else None"""
        t = strip(t)
        if t[0] == "field" and t[2] == str(i) and is_call(t[1], "increasing_price_order"):
            a_ = strip(t[1])[2]
            return tuple(sorted((bound(a_[0]), bound(a_[1]))))
        return None

    def diff(t):
        t = strip(t)
        while t[0] == "call" and t[1].rsplit("::", 1)[-1] in ("into", "from") and len(t[2]) == 1:
            t = strip(t[2][0])
        if t[0] == "bin" and t[1].startswith("Sub") and ordered(t[2], 1) and ordered(t[2], 1) == ordered(t[3], 0):
            return ordered(t[2], 1)
        return None

    def amount(t):
        t = strip(t)
        while t[0] == "call" and t[1].rsplit("::", 1)[-1] in ("into", "from") and len(t[2]) == 1:
            t = strip(t[2][0])
        return t[1] if t[0] == "param" else None

    def as_liq_b(t):
        """floor((amount << 64) / (upper - lower)) -> ('b', amount, bounds)"""
        v = strip(t)
        if v[0] == "bin" and v[1] == "Div" and diff(v[3]):
            n_ = strip(v[2])
            if n_[0] == "bin" and n_[1] in ("Shl", "ShlUnchecked") and const_val(n_[3]) == 64 and amount(n_[2]):
                return ("b", amount(n_[2]), diff(v[3]))
        return None

    def as_liq_a(t):
        """floor(((upper * lower * amount) >> 64) / (upper - lower)), shift after both multiplications -> ('a', amount, bounds)"""
        r = strip(t)
        if not is_call(r, "try_into_u128"):
            return None
        q = strip(r[2][0])
        if not (q[0] == "field" and q[2] == "0" and is_call(q[1], "U256Muldiv::div")):
            return None
        d = strip(q[1])
        num, den = strip(d[2][0]), d[2][1]
        if not (diff(den) and is_call(num, "shift_word_right") and const_val(d[2][2]) == 0):
            return None
        m2 = strip(num[2][0])
        if not (m2[0] == "call" and m2[1].endswith("U256Muldiv::mul") and amount(m2[2][1]) and is_call(m2[2][0], "mul_u256")):
            return None
        m1 = strip(m2[2][0])
        prs = [ordered(x, i) for i in (0, 1) for x in m1[2] if ordered(x, i)]
        if len(prs) == 2 and prs[0] == prs[1] == diff(den) and {0, 1} == {i for i in (0, 1) for x in m1[2] if ordered(x, i)}:
            return ("a", amount(m2[2][1]), diff(den))
        return None

    def unwrap(t):
        t = strip(t)
        if t[0] == "agg" and t[2] == "Ok":
            return strip(dict(t[3])["0"])
        return t

    def results_under(assumptions):
        pv = prov_assuming(fn, assumptions)
        out = []
        for bi, bb in enumerate(fn.blocks):
            if bb["t"]["k"] == "ret" and pv.flow.state_in[bi] is not None:
                for l in leaves(pv.local(0, bi, len(bb["s"]))):
                    s_ = strip(l)
                    if s_[0] == "call" and "from_residual" in s_[1]:
                        continue
                    out.append(l)
        return out, pv

    def classify(t):
        return as_liq_a(t) or as_liq_b(unwrap(t)) or as_liq_a(unwrap(t)) or ("?", sh(t, 60), ())
    up_t = (a_up[0], a_up[1] == "Ge")
    up_f = (a_up[0], a_up[1] != "Ge")
    lo_t = (a_lo[0], a_lo[1] == "Le")
    lo_f = (a_lo[0], a_lo[1] != "Le")
    rs, _ = results_under([up_t])
    got = sorted({classify(r) for r in rs})
    run.check("R4", "above-range", got == [("b", "token_max_b", ("lower", "upper"))], "price >= upper must use only token B over [lower, upper] (found %s)" % got, loc=fn.loc(), detail="floor((max_b << 64) / (upper - lower))")
    rs, _ = results_under([up_f, lo_t])
    got = sorted({classify(r) for r in rs})
    run.check("R4", "below-range", got == [("a", "token_max_a", ("lower", "upper"))], "price <= lower must use only token A over [lower, upper] (found %s)" % got, loc=fn.loc(), detail="floor(((upper * lower * max_a) >> 64) / (upper - lower))")
    rs, pv = results_under([up_f, lo_f])
    got = []
    for r in rs:
        u = unwrap(r)
        if u[0] == "call" and u[1].endswith("::min") and len(u[2]) == 2:
            got.append(tuple(sorted(classify(x) for x in u[2])))
        else:
            got.append(("?", sh(r, 60)))
    ok = got == [(("a", "token_max_a", ("current", "upper")), ("b", "token_max_b", ("current", "lower")))]
    run.check("R4", "in-range", ok, "in range the estimate must be min(liq_a over [current, upper], liq_b over [lower, current]) (found %s)" % got, loc=fn.loc(), detail="min(liq_a[current, upper], liq_b[lower, current])")
    # floors: the truncating 256-bit division with no +1, a single truncating u128 division with no +1
    pv0 = prov_of(fn)
    incr = [bi for bi, t in fn.calls() if (callee_path(t) or "").endswith("U256Muldiv::add") and not fn.blocks[bi]["c"]]
    dv = [bi for bi, t in fn.calls() if (callee_path(t) or "").endswith("U256Muldiv::div") and not fn.blocks[bi]["c"]]
    run.check("R4", "floor-a", bool(dv) and not incr, "the token-A estimate must use the truncating 256-bit division with no +1", loc=fn.loc(), detail="numerator.div(diff).0, no increment")
    divs = [st for bb in fn.blocks if not bb["c"] for st in bb["s"] if st["k"] == "=" and st["rv"].get("bin") == "Div"]
    adds = [(bi, si) for bi, bb in enumerate(fn.blocks) if not bb["c"] for si, st in enumerate(bb["s"]) if st["k"] == "=" and st["rv"].get("bin") in ("Add", "AddWithOverflow")
            and any(const_val(pv0.operand(st["rv"][k_], bi, si)) == 1 for k_ in ("a", "b"))]
    run.check("R4", "floor-b", 1 <= len(divs) <= 2 and not adds, "the token-B estimate must be a truncating division with no +1 (%d divisions, %d increments)" % (len(divs), len(adds)), loc=fn.loc(), detail="(amount << 64) / diff")


def R5_wide_product(run):
    run.title("R5", "U256Muldiv::mul (the 192/256-bit products behind the token-A amount and the liquidity estimate): every word of the product that lies inside the "
                    "result is written - each update_word(index, ..) is guarded by exactly `index < NUM_WORDS` on that same index (a tighter guard drops a carry word)")
    facts = run.facts
    fn = facts.need_fn("math::u256_math::U256Muldiv::mul")
    run.touch(fn)
    nw = facts.const_value("math::u256_math::NUM_WORDS")
    run.check("R5", "num-words", nw == 4, "NUM_WORDS = %s, expected 4 (4 x 64 bits)" % nw, detail="4")
    ups = calls_to(fn, ends("U256Muldiv::update_word"), ctx={}, cut=True)
    ats = A.atoms(fn, {}, cut=True)
    n = 0
    for (bi, t, args) in ups:
        n += 1
        idx = strip(args[1])
        guards = []
        for at in ats:
            c = at.cond()
            if not c or not at.true_targets or not at.false_targets:
                continue
            tr = cfg.reach(fn, at.true_targets[0], cut_blocks=[at.block])
            fr = cfg.reach(fn, at.false_targets[0], cut_blocks=[at.block])
            if (bi in tr) != (bi in fr) and c[0] in ("Lt", "Le", "Gt", "Ge", "Eq", "Ne"):
                guards.append((at, bi in tr))
        exact = [1 for (at, side) in guards if side and at.cond()[0] == "Lt" and strip(at.cond()[1]) == idx and const_val(at.cond()[2]) == nw]
        run.check("R5", "word-guard#%d" % n, len(exact) == 1 and len(guards) == 1, "update_word(%s, ..) in U256Muldiv::mul is guarded by %s; expected exactly `%s < NUM_WORDS`" % (
            sh(idx, 50), [g[0].describe()[:60] for g in guards], sh(idx, 50)), loc=fn.loc(t["l"]), detail="index < NUM_WORDS")
    run.floor("R5", "word writes in mul", n, 2)


RULES = [R1_case_split, R1b_convert, R2_handler_polarity, R3_caller_limits, R4_estimate, R5_wide_product]
