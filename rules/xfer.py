"""Token movements at the CPI boundary (shared by C12.R7, C01, C16 through the cross-check table).

X1  the hand-written Pinocchio CPI builders emit the SPL wire format: discriminator byte(s), little-endian amount (and decimals)
    at their offsets, account metas in the order and with the flags the token / system program expects, the account list in the
    same order as the metas, the instruction addressed to the program account that was passed in;
X2  the eight transfer helpers (Anchor and Pinocchio, v1 and v2) give each account its role: user -> vault signed by the user
    with no seeds, vault -> user signed by the pool with the pool's seeds; v2 passes the mint, its decimals and - iff the mint has
    a transfer hook - the hook accounts; the amount moved is the helper's amount parameter;
X3  the pool's signer seeds are the same six items in both account types.

Oracle for X1: the published instruction layouts of SPL Token (Transfer = 3: [source w, destination w, authority s]; TransferChecked
= 12: [source w, mint r, destination w, authority s], amount u64 LE, decimals u8) and of the System program (Transfer = 2u32 LE,
lamports u64 LE: [from w+s, to w]). Not decided: what the token program does with the instruction."""
from analysis import cfg, atoms as A
from analysis.ir import callee_path, op_const, op_place
from analysis.prov import prov_of, strip, subterms, leaves, show
from analysis.match import is_param, is_field, is_call, const_val, sh, mentions
from rules.common import calls_to, ends, arg_name

CPI = "pinocchio::cpi::"
BUILDERS = {
    CPI + "token_transfer::Transfer::<'_>::invoke_signed": dict(
        n=9, data={(0, 1): ("const", 3), (1, 9): ("le", "amount")}, metas=[("writable", "from"), ("writable", "to"), ("readonly_signer", "authority")]),
    CPI + "token_transfer_checked::TransferChecked::<'_>::invoke_signed": dict(
        n=10, data={(0, 1): ("const", 12), (1, 9): ("le", "amount"), (9, 10): ("field", "decimals")},
        metas=[("writable", "from"), ("readonly", "mint"), ("writable", "to"), ("readonly_signer", "authority")]),
    CPI + "token_transfer_checked::TransferCheckedWithHook::<'_, '_>::invoke_signed": dict(
        n=10, data={(0, 1): ("const", 12), (1, 9): ("le", "amount"), (9, 10): ("field", "decimals")},
        metas=[("writable", "from"), ("readonly", "mint"), ("writable", "to"), ("readonly_signer", "authority")], hook="transfer_hook_accounts"),
    CPI + "system_transfer::SystemTransfer::<'_>::invoke_signed": dict(
        n=12, data={(0, 4): ("le-const", 2), (4, 12): ("le", "lamports")}, metas=[("writable_signer", "from"), ("writable", "to")]),
}


def _self_field(t):
    t = strip(t)
    while t[0] == "call" and len(t[2]) == 1 and t[1].rsplit("::", 1)[-1] in ("key", "into", "from"):
        t = strip(t[2][0])
    if t[0] == "field" and is_param(t[1], "self"):
        return t[2]
    return None


def _range(t, n):
    """(start, end) of a Range / RangeTo / RangeFrom aggregate over a buffer of n bytes."""
    t = strip(t)
    if t[0] != "agg":
        return None
    d = {k: const_val(v) for k, v in t[3]}
    if t[2] == "Range":
        return d.get("start"), d.get("end")
    if t[2] == "RangeTo":
        return 0, d.get("end")
    if t[2] == "RangeFrom":
        return d.get("start"), n
    if t[2] == "RangeInclusive":
        return d.get("start"), (d.get("end") + 1) if d.get("end") is not None else None
    return None


def _buffer_writes(fn, pv, n):
    """{(start, end): ("const", v) | ("le", field) | ("le-const", v) | ("field", name) | ("?", text)} for the [0u8; n] buffer."""
    out = {}
    bufs = set()
    for bi, bb in enumerate(fn.blocks):
        for si, st in enumerate(bb["s"]):
            if st["k"] == "=" and "rep" in st["rv"] and not st["p"].get("p") and str(st["rv"].get("n")) == str(n):
                bufs.add(st["p"]["l"])
    for bi, bb in enumerate(fn.blocks):
        if bb["c"]:
            continue
        for si, st in enumerate(bb["s"]):
            if st["k"] == "=" and st["p"]["l"] in bufs and st["p"].get("p"):
                idx = None
                for e in st["p"]["p"]:
                    if isinstance(e, dict) and "ix" in e:
                        idx = const_val(pv.local(e["ix"], bi, si))
                    elif isinstance(e, dict) and "ci" in e:
                        idx = e["ci"]
                v = pv._rvalue(st["rv"], bi, si, 0)
                f = _self_field(v)
                key = (idx, idx + 1) if idx is not None else ("?", si)
                out[key] = ("const", const_val(v)) if const_val(v) is not None else (("field", f) if f else ("?", sh(v, 40)))
        t = bb["t"]
        if t["k"] == "call" and (callee_path(t) or "").endswith("copy_from_slice") and len(t["a"]) == 2:
            dst = strip(pv.operand(t["a"][0], bi, len(bb["s"])))
            src = strip(pv.operand(t["a"][1], bi, len(bb["s"])))
            if dst[0] == "call" and dst[1].endswith("index_mut") and strip(dst[2][0])[0] == "repeat" and str(strip(dst[2][0])[2]) == str(n):
                r = _range(dst[2][1], n)
                if src[0] == "call" and src[1].endswith("to_le_bytes"):
                    f = _self_field(src[2][0])
                    val = ("le", f) if f else (("le-const", const_val(src[2][0])) if const_val(src[2][0]) is not None else ("?", sh(src, 40)))
                else:
                    val = ("?", sh(src, 40))
                out[r if r and None not in r else ("?", bi)] = val
    return out, bufs


def R_cpi_builders(run, rule="R7"):
    run.title(rule, "Pinocchio CPI builders emit the SPL wire format (discriminator, LE amount / decimals at their offsets, metas in order with their flags, "
                    "account list in meta order, program = the passed program account); the transfer helpers (Anchor and Pinocchio) give every account its role "
                    "and sign vault outflows - and only those - with the pool's seeds; both account types produce the same six signer seeds")
    facts = run.facts
    n_ok = 0
    for path, spec in BUILDERS.items():
        fn = facts.need_fn(path)
        run.touch(fn)
        short = path.split("::")[2 + 0] + ":" + path.split("::")[3].split("<")[0] if path.count("::") >= 4 else path
        short = path[len(CPI):].split("::<")[0]
        pv = prov_of(fn)
        inv = calls_to(fn, ends("invoke_signed_unchecked"))
        if len(inv) != 1:
            run.bad(rule, "cpi:" + short, "%s performs %d CPI invocations, expected one" % (path, len(inv)), loc=fn.loc())
            continue
        bi, t, args = inv[0]
        ins = strip(args[0])
        ok = ins[0] == "agg" and ins[1].endswith("Instruction")
        fields = dict(ins[3]) if ok else {}
        # program id
        okp = ok and _self_field(fields.get("program_id", ("unknown",))) == "program"
        run.check(rule, "program@" + short, okp, "%s does not address the instruction to self.program" % path, loc=fn.loc(), detail="program_id = self.program.key()")
        # data
        writes, bufs = _buffer_writes(fn, pv, spec["n"])
        okd = ok and strip(fields.get("data", ("unknown",)))[0] == "repeat" and str(strip(fields["data"])[2]) == str(spec["n"]) and writes == spec["data"]
        run.check(rule, "data@" + short, okd, "%s instruction data is %s, expected %s over %d bytes" % (path, {k: v for k, v in sorted(writes.items(), key=str)}, spec["data"], spec["n"]),
                  loc=fn.loc(), detail=", ".join("[%s..%s) = %s %s" % (a, b, k, v) for (a, b), (k, v) in sorted(spec["data"].items())))
        # metas and account list
        if "hook" not in spec:
            acc_t = strip(fields.get("accounts", ("unknown",)))
            metas = []
            if acc_t[0] == "array":
                for m in acc_t[1]:
                    m = strip(m)
                    metas.append((m[1].rsplit("::", 1)[-1], _self_field(m[2][0])) if m[0] == "call" and len(m[2]) == 1 else ("?", sh(m, 30)))
            infos_t = strip(args[1])
            infos = [_self_field(x) for x in infos_t[1]] if infos_t[0] == "array" else None
        else:
            metas, infos, loop_ok = _arrayvec_lists(fn, pv, spec["hook"])
            run.check(rule, "hook-accounts@" + short, loop_ok, "%s does not append every transfer-hook account to both the metas and the account list" % path, loc=fn.loc(),
                      detail="for acc in hook accounts: metas.push(acc), accounts.push(acc)")
        run.check(rule, "metas@" + short, metas == spec["metas"], "%s account metas are %s, expected %s" % (path, metas, spec["metas"]), loc=fn.loc(),
                  detail=", ".join("%s(%s)" % m for m in spec["metas"]))
        run.check(rule, "accounts@" + short, infos == [m[1] for m in spec["metas"]], "%s passes the accounts %s; they must follow the metas %s" % (path, infos, [m[1] for m in spec["metas"]]),
                  loc=fn.loc(), detail="account list in meta order")
        run.check(rule, "signers@" + short, is_param(args[2], "signers"), "%s does not sign with the seeds it was given" % path, loc=fn.loc(), detail="signers forwarded")
        n_ok += 1
    run.floor(rule, "CPI builders", n_ok, 4)
    _helper_roles(run, rule)
    _seeds(run, rule)


def _root_local(fn, pv, op):
    """The local a `&mut v` temporary refers to."""
    pl = op_place(op)
    l = pl["l"] if pl else None
    for _ in range(4):
        ds = [d for d in pv.defs.get(l, []) if d[2] is None]
        if len(ds) == 1 and ds[0][3].get("k") == "=" and "ref" in ds[0][3]["rv"]:
            l = ds[0][3]["rv"]["ref"]["l"]
            continue
        if len(ds) == 1 and ds[0][3].get("k") == "=" and "use" in ds[0][3]["rv"] and op_place(ds[0][3]["rv"]["use"]):
            l = op_place(ds[0][3]["rv"]["use"])["l"]
            continue
        break
    return l


def _nm(t):
    """Name carried by an argument; `x.key` / `x.key()` carry the name of x."""
    t = strip(t)
    if t[0] == "field" and t[2] == "key":
        return arg_name(t[1])
    return arg_name(t)


def _arrayvec_lists(fn, pv, hook_field):
    """(metas, infos, loop_ok) for a builder that pushes into two ArrayVecs: the pushes outside the loop in dominance order, and
    whether the loop over self.<hook_field> pushes its element to both."""
    pushes = []
    for bi, t in fn.calls():
        if (callee_path(t) or "").endswith("ArrayVec::<T, CAP>::push") and not fn.blocks[bi]["c"]:
            vec = _root_local(fn, pv, t["a"][0])
            val = strip(pv.operand(t["a"][1], bi, len(fn.blocks[bi]["s"])))
            pushes.append((bi, vec, val))
    vecs = []
    for _, v, _ in pushes:
        if v not in vecs:
            vecs.append(v)
    if len(vecs) != 2:
        return None, None, False
    # a block is inside the loop if it can reach itself
    def in_loop(b):
        return b in cfg.reach(fn, fn.succ()[b][0]) if fn.succ()[b] else False
    seq = {0: [], 1: []}
    loop = {0: [], 1: []}
    ordered = sorted(pushes, key=lambda p: sum(1 for q in pushes if cfg.dominates(fn, q[0], p[0])))
    for bi, v, val in ordered:
        i = vecs.index(v)
        (loop if in_loop(bi) else seq)[i].append(val)
    def meta_of(m):
        return (m[1].rsplit("::", 1)[-1], _self_field(m[2][0])) if m[0] == "call" and len(m[2]) == 1 and "AccountMeta" in m[1] else None
    a_is_meta = all(meta_of(m) for m in seq[0])
    mi, ii = (0, 1) if a_is_meta else (1, 0)
    metas = [meta_of(m) or ("?", sh(m, 30)) for m in seq[mi]]
    infos = [_self_field(x) for x in seq[ii]]
    from_hook = lambda x: mentions(x, lambda s_: s_[0] == "field" and s_[2] == hook_field and is_param(s_[1], "self"))
    loop_ok = len(loop[0]) == 1 and len(loop[1]) == 1 and from_hook(loop[0][0]) and from_hook(loop[1][0])
    return metas, infos, loop_ok


# helper -> (direction, version)
HELPERS = {
    "util::token::transfer_from_owner_to_vault": ("in", 1, "anchor"), "util::token::transfer_from_vault_to_owner": ("out", 1, "anchor"),
    "util::v2::token::transfer_from_owner_to_vault_v2": ("in", 2, "anchor"), "util::v2::token::transfer_from_vault_to_owner_v2": ("out", 2, "anchor"),
    "pinocchio::ported::util_token::pino_transfer_from_owner_to_vault": ("in", 1, "pino"), "pinocchio::ported::util_token::pino_transfer_from_vault_to_owner": ("out", 1, "pino"),
    "pinocchio::ported::util_token::pino_transfer_from_owner_to_vault_v2": ("in", 2, "pino"), "pinocchio::ported::util_token::pino_transfer_from_vault_to_owner_v2": ("out", 2, "pino"),
}


def _role(name):
    n = (name or "").replace("_info", "")
    if n in ("token_owner_account",):
        return "user"
    if n in ("token_vault",):
        return "vault"
    if n in ("position_authority", "authority"):
        return "signer"
    if n in ("whirlpool",):
        return "pool"
    if n in ("token_mint",):
        return "mint"
    if n in ("token_program",):
        return "program"
    return n


def _helper_roles(run, rule):
    facts = run.facts
    n = 0
    for path, (direction, ver, side) in HELPERS.items():
        fn = facts.need_fn(path)
        run.touch(fn)
        short = path.rsplit("::", 1)[-1]
        want_from, want_to, want_auth = ("user", "vault", "signer") if direction == "in" else ("vault", "user", "pool")
        got = []
        seeds_ok = []
        amount_ok = []
        if side == "pino":
            for (bi, t, args) in calls_to(fn, lambda p: p.startswith(CPI) and p.endswith("invoke_signed") and "Memo" not in p):
                b = strip(args[0])
                if b[0] != "agg":
                    got.append(("?",))
                    continue
                f = {k: strip(v) for k, v in b[3]}
                got.append((_role(arg_name(f.get("from", ("unknown",)))), _role(arg_name(f.get("to", ("unknown",)))), _role(arg_name(f.get("authority", ("unknown",)))),
                            _role(arg_name(f.get("program", ("unknown",)))), _role(arg_name(f["mint"])) if "mint" in f else None))
                sg = strip(args[1])
                has_seeds = mentions(sg, lambda s_: s_[0] == "call" and s_[1].endswith("MemoryMappedWhirlpool::seeds"))
                empty = sg[0] == "array" and len(sg[1]) == 0
                seeds_ok.append(has_seeds if direction == "out" else empty)
                amount_ok.append(is_param(f.get("amount", ("unknown",)), "amount") and ("decimals" not in f or is_call(f["decimals"], "decimals")))
            want = (want_from, want_to, want_auth, "program") + (("mint",) if ver == 2 else (None,))
            ok = bool(got) and all(g == want for g in got) and len(got) == (2 if ver == 2 else 1)
        else:
            if ver == 1:
                for (bi, t, args) in calls_to(fn, ends("anchor_spl::token::transfer")):
                    ctxc = strip(args[0])
                    if ctxc[0] == "call" and ctxc[1].rsplit("::", 1)[-1] in ("new", "new_with_signer"):
                        acc_ = strip(ctxc[2][1])
                        f = {k: strip(v) for k, v in acc_[3]} if acc_[0] == "agg" else {}
                        got.append((_role(arg_name(f.get("from", ("unknown",)))), _role(arg_name(f.get("to", ("unknown",)))), _role(arg_name(f.get("authority", ("unknown",)))),
                                    _role(arg_name(ctxc[2][0])), None))
                        signed = ctxc[1].endswith("new_with_signer") and mentions(ctxc, lambda s_: s_[0] == "call" and s_[1].endswith("Whirlpool::seeds"))
                        seeds_ok.append(signed if direction == "out" else ctxc[1].endswith("::new"))
                        amount_ok.append(is_param(args[1], "amount"))
                want = (want_from, want_to, want_auth, "program", None)
                ok = len(got) == 1 and got[0] == want
            else:
                tc = calls_to(fn, ends("instruction::transfer_checked"))
                inv = calls_to(fn, ends("program::invoke_signed"))
                ok = len(tc) == 1 and len(inv) == 1
                if ok:
                    a = [strip(x) for x in tc[0][2]]
                    got.append((_role(_nm(a[1])), _role(_nm(a[3])), _role(_nm(a[4])), _role(_nm(a[0])), _role(_nm(a[2]))))
                    infos = strip(inv[0][2][1])
                    info_roles = [_role(arg_name(x)) for x in infos[1]] if infos[0] == "array" else None
                    ok = got[0] == (want_from, want_to, want_auth, "program", "mint") and info_roles == [want_from, "mint", want_to, want_auth]
                    sg = strip(inv[0][2][2])
                    has_seeds = mentions(sg, lambda s_: s_[0] == "call" and s_[1].endswith("Whirlpool::seeds"))
                    seeds_ok.append(has_seeds if direction == "out" else (sg[0] == "array" and len(sg[1]) == 0))
                    amount_ok.append(is_param(a[6], "amount") and is_field(a[7], "decimals") and _role(arg_name(a[7][1] if a[7][0] == "field" else a[7])) in ("mint",))
        run.check(rule, "roles@" + short, ok, "%s moves tokens %s; expected from=%s to=%s authority=%s through the passed token program%s" % (
            path, got, want_from, want_to, want_auth, " with the passed mint" if ver == 2 else ""), loc=fn.loc(), detail="%s -> %s, authority %s" % (want_from, want_to, want_auth))
        run.check(rule, "seeds@" + short, bool(seeds_ok) and all(seeds_ok), "%s: %s" % (path, "a vault outflow is not signed with the pool's seeds" if direction == "out" else
                                                                                         "a user deposit must not be signed by the pool"), loc=fn.loc(),
                  detail="signed by the pool's seeds" if direction == "out" else "no program signature")
        run.check(rule, "amount@" + short, bool(amount_ok) and all(amount_ok), "%s does not move exactly its `amount` parameter%s" % (path, " with the mint's decimals" if ver == 2 else ""),
                  loc=fn.loc(), detail="amount = amount" + (", decimals = mint.decimals" if ver == 2 else ""))
        if ver == 2 and side == "pino":
            # the hook variant is used iff the mint has a transfer hook, with the caller's hook accounts
            hook = [at for at in A.atoms(fn) if is_call(at.term, "pino_is_transfer_hook_enabled")]
            okh = len(hook) == 1
            if okh:
                at = hook[0]
                wh = [bi for bi, t in fn.calls() if (callee_path(t) or "").endswith("TransferCheckedWithHook::<'_, '_>::invoke_signed")]
                pl = [bi for bi, t in fn.calls() if (callee_path(t) or "").endswith("TransferChecked::<'_>::invoke_signed")]
                rt = cfg.reach(fn, at.true_targets[0], cut_blocks=[at.block])
                rf = cfg.reach(fn, at.false_targets[0], cut_blocks=[at.block])
                okh = len(wh) == 1 and len(pl) == 1 and wh[0] in rt and wh[0] not in rf and pl[0] in rf and pl[0] not in rt
            run.check(rule, "hook-branch@" + short, okh, "%s does not use the hook-carrying transfer exactly when the mint's transfer hook is enabled" % path, loc=fn.loc(),
                      detail="hook enabled => TransferCheckedWithHook, else TransferChecked")
        n += 1
    run.floor(rule, "transfer helpers", n, 8)


def _seeds(run, rule):
    facts = run.facts
    want = ["whirlpool", "whirlpools_config", "token_mint_a", "token_mint_b", "fee_tier_index_seed", "whirlpool_bump"]
    for path in ("state::whirlpool::Whirlpool::seeds", "pinocchio::state::whirlpool::whirlpool::MemoryMappedWhirlpool::seeds"):
        fn = facts.need_fn(path)
        run.touch(fn)
        pv = prov_of(fn)
        got = None
        for bi, bb in enumerate(fn.blocks):
            if bb["t"]["k"] == "ret":
                r = strip(pv.local(0, bi, len(bb["s"])))
                if r[0] == "array":
                    got = []
                    for x in r[1]:
                        x = strip(x)
                        while x[0] == "call" and len(x[2]) >= 1 and x[1].rsplit("::", 1)[-1] in ("from", "index", "as_ref", "into"):
                            x = strip(x[2][0])
                        if x[0] == "field" and is_param(x[1], "self"):
                            got.append(x[2])
                        elif x[0] == "const":
                            v = x[1]
                            got.append(v if isinstance(v, str) and not v.startswith("0x") else (bytes.fromhex(v[2:]).decode("ascii", "replace") if isinstance(v, str) else str(v)))
                        else:
                            got.append(sh(x, 30))
        run.check(rule, "pool-seeds@" + ("pinocchio" if path.startswith("pino") else "anchor"), got == want, "%s returns the seeds %s, expected %s" % (path, got, want), loc=fn.loc(),
                  detail="[b\"whirlpool\", config, mint_a, mint_b, fee_tier_index_seed, bump]")
