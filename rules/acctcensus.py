"""Census of Anchor account constraints. For every field of every `#[derive(Accounts)]` struct the pinned tree's constraint kinds were
recorded (specs/accounts_census.json, tools/gen_guards.py): how many PDA derivations (`seeds`), owner tests, signer requirements, token /
mint bindings it carries, and how many value bindings (`address`, `has_one`, `constraint` - interchangeable spellings, so counted as
one kind). Rule: the counts are unchanged. A derivation or binding that disappears admits accounts the instruction used to refuse; one
that appears (an `owner =` on an account that may legitimately be uninitialised) refuses accounts it used to take. Splitting, merging
and reordering attributes, and rewriting one binding spelling into another, leave the counts alone."""
import json
import os
from analysis import accounts as ACC

V = os.path.dirname(os.path.dirname(os.path.abspath(__file__)))
GROUP = {"address": "bind", "has_one": "bind", "constraint": "bind"}
SKIP = {"mut", "bump", "payer", "space", "init", "init_if_needed", "zero", "close", "realloc", "realloc::payer", "realloc::zero", "rent_exempt"}


def kinds_of(field):
    out = {}
    for c in field.cons:
        k = c["key"]
        if k in SKIP:
            continue
        k = GROUP.get(k, k)
        out[k] = out.get(k, 0) + 1
    if field.kind == "Signer":
        out["signer"] = out.get("signer", 0) + 1
    return out


def census(facts):
    return {st.name: {f.name: kinds_of(f) for f in st.fields} for st in ACC.load(facts).values()}


_T = None


def table():
    global _T
    if _T is None:
        p = os.path.join(V, "specs", "accounts_census.json")
        _T = json.load(open(p)) if os.path.exists(p) else {}
    return _T


def R_accounts(run, rule="RA", structs=None):
    run.title(rule, "every account field keeps the constraint kinds it had on the pinned tree: PDA derivations, owner / signer requirements, token and mint bindings, and the "
                    "number of value bindings (address / has_one / constraint counted alike)")
    now = census(run.facts)
    n = 0
    for sname, fields in sorted(table().items()):
        if structs is not None and sname not in structs:
            continue
        cur = now.get(sname)
        if cur is None:
            continue        # a struct that is gone: the dispatch rules (C12.R4, C04.R1) speak for it
        for fname, kinds in sorted(fields.items()):
            if fname not in cur:
                continue
            n += 1
            have = cur[fname]
            diff = {k: (kinds.get(k, 0), have.get(k, 0)) for k in set(kinds) | set(have) if kinds.get(k, 0) != have.get(k, 0)}
            run.check(rule, "constraints:%s.%s" % (sname, fname), not diff,
                      "%s.%s: constraint kinds changed (pinned -> now): %s" % (sname, fname, ", ".join("%s %d -> %d" % (k, a, b) for k, (a, b) in sorted(diff.items()))),
                      detail=", ".join("%s x%d" % kv for kv in sorted(kinds.items())) or "no constraints")
    if table() and structs is None:
        run.floor(rule, "account fields with recorded constraints", n, 100)
