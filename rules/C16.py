"""C16 With transfer-fee tokens the pool still receives and pays the curve amounts.

Decided: the wiring of swap_with_transfer_fee_extension per (exact_in, a_to_b): which mint's
fee is removed / added around the curve swap and which amount the user is charged (the
caller's amount exactly when the swap used the whole fee-excluded input); the
reposition transfer-info helper (fee-included when the user pays, raw when the pool pays,
fee contribution added to the max check); the structure of the two fee helpers (zero
short-cut, 100% case uses maximum_fee, inverse fee, checked add, re-verification) and
their agreement between the Anchor and Pinocchio copies; the hand-written TLV reader
against SPL (extension numbers, byte layouts, length checks, epoch selection).
Thresholds / events / liquidity limits on user-visible amounts are decided by the
instances of C03.R1, C06.R6 and C08.R3.
Also decided: with the extension present nothing but the epoch decides which fee schedule applies.
Also decided: the Pinocchio TLV view of a mint starts at byte 166 (slice start and length guard), where SPL puts the first extension.
Not decided: SPL's fee arithmetic itself; amounts actually received."""
import re
from analysis import cfg, atoms as A, preach, pino, layout as L
from analysis.ir import callee_path, AnchorMissing
from analysis.prov import prov_of, prov_assuming, strip, leaves, subterms, show, field_chain
from analysis.match import is_param, is_field, is_call, const_val, sh, mentions, fail_conditions
from rules.common import calls_to, ends, arg_name, acc
from rules import C12

FN = "instructions::v2::swap::swap_with_transfer_fee_extension"
SWAPFN = "manager::swap_manager::swap"
EXC = "util::v2::token::calculate_transfer_fee_excluded_amount"
INC = "util::v2::token::calculate_transfer_fee_included_amount"


def _fee_call(t, kind):
    """(mint param name, inner amount term) if t is <calculate_transfer_fee_{kind}_amount(mint, X)?>.amount"""
    s = strip(t)
    if s[0] == "field" and s[2] == "amount":
        c = strip(s[1])
        if c[0] == "call" and c[1] == (EXC if kind == "excluded" else INC):
            return (arg_name(c[2][0]), c[2][1])
    return None


def R1_swap_wiring(run):
    run.title("R1", "swap_with_transfer_fee_extension: exact-in swaps excluded(input mint, amount) and charges `amount` when fully used else included(input mint, swap input), "
                    "output is the swap's; exact-out swaps included(output mint, amount) and charges included(input mint, swap input); input mint = A iff a_to_b")
    facts = run.facts
    fn = facts.need_fn(FN)
    run.touch(fn)
    for ctx in preach.contexts(["amount_specified_is_input", "a_to_b"]):
        ei, ab = ctx["amount_specified_is_input"], ctx["a_to_b"]
        tag = "[exact_in=%d,a_to_b=%d]" % (ei, ab)
        in_mint, out_mint = ("token_mint_a", "token_mint_b") if ab else ("token_mint_b", "token_mint_a")
        in_f, out_f = ("amount_a", "amount_b") if ab else ("amount_b", "amount_a")
        cs = calls_to(fn, lambda p: p == SWAPFN, ctx=ctx)
        ok = len(cs) == 1
        run.check("R1", "one-swap" + tag, ok, "expected exactly one curve swap in context %s, found %d" % (ctx, len(cs)), loc=fn.loc(), detail="one swap call")
        if not ok:
            continue
        a = cs[0][2]
        fc = _fee_call(a[2], "excluded" if ei else "included")
        want_mint = in_mint if ei else out_mint
        ok = fc is not None and fc[0] == want_mint and is_param(fc[1], "amount") and is_param(a[0], "whirlpool") and is_param(a[3], "sqrt_price_limit") and \
            is_param(a[4], "amount_specified_is_input") and is_param(a[5], "a_to_b")
        run.check("R1", "swap-amount" + tag, ok, "context %s: the curve swap is given %s, expected %s(%s, amount).amount" % (ctx, sh(a[2], 80), "excluded" if ei else "included", want_mint),
                  loc=fn.loc(), detail="swap(%s(%s, amount).amount)" % ("excluded" if ei else "included", want_mint))
        # returned amounts
        pv = prov_of(fn, ctx)
        res = None
        for bi, bb in enumerate(fn.blocks):
            if bb["t"]["k"] == "ret" and pv.flow.state_in[bi] is not None:
                for l in leaves(pv.local(0, bi, len(bb["s"]))):
                    for s in subterms(l):
                        if s[0] == "agg" and s[1].endswith("PostSwapUpdate"):
                            res = dict(s[3])
        if res is None:
            run.missing("R1", "result" + tag, "PostSwapUpdate not returned in context %s" % ctx, loc=fn.loc())
            continue

        def swap_field(t, name):
            s = strip(t)
            return s[0] == "field" and s[2] == name and is_call(s[1], "swap_manager::swap")
        out_ok = swap_field(res[out_f], out_f)
        run.check("R1", "output" + tag, out_ok, "context %s: reported output %s is %s, expected the curve swap's %s" % (ctx, out_f, sh(res[out_f], 60), out_f), loc=fn.loc(),
                  detail="%s := swap.%s" % (out_f, out_f))
        ins = leaves(res[in_f])
        kinds = set()
        for x in ins:
            if is_param(x, "amount"):
                kinds.add("amount")
                continue
            fc = _fee_call(x, "included")
            if fc and fc[0] == in_mint and swap_field(fc[1], in_f):
                kinds.add("included")
                continue
            kinds.add("?" + sh(x, 40))
        want = {"amount", "included"} if ei else {"included"}
        run.check("R1", "input" + tag, kinds == want, "context %s: charged input %s is %s, expected %s on mint %s" % (ctx, in_f, sorted(kinds), sorted(want), in_mint), loc=fn.loc(),
                  detail="%s := %s" % (in_f, " | ".join(sorted(want))))
        # pass-through of the other result fields
        others = ["lp_fee", "next_liquidity", "next_tick_index", "next_sqrt_price", "next_fee_growth_global", "next_reward_infos", "next_protocol_fee", "next_adaptive_fee_info"]
        ok = all(swap_field(res[o], o) for o in others)
        run.check("R1", "passthrough" + tag, ok, "context %s: a non-amount field of the result is not copied from the same-named field of the curve swap" % ctx, loc=fn.loc(),
                  detail="%d fields copied by name" % len(others))
    # exact-in: `amount` is charged only when the swap consumed the whole fee-excluded input
    ctx = {"amount_specified_is_input": True}
    ok = False
    for at in A.atoms(fn, ctx):
        c = at.cond()
        if c and c[0] in ("Eq", "Ne"):
            sa, sb = strip(c[1]), strip(c[2])
            def is_swap_in(t):
                return all(x[0] == "field" and x[2] in ("amount_a", "amount_b") and is_call(x[1], "swap_manager::swap") for x in [strip(y) for y in leaves(t)])
            def is_excl(t):
                f = _fee_call(t, "excluded")
                return f is not None and is_param(f[1], "amount")
            if (is_swap_in(sa) and is_excl(sb)) or (is_swap_in(sb) and is_excl(sa)):
                ok = True
    # `fullfilled` is computed as a value and then switched on; find the Eq statement
    if not ok:
        pv = prov_of(fn, ctx)
        for bi, bb in enumerate(fn.blocks):
            for si, st in enumerate(bb["s"]):
                if st["k"] == "=" and st["rv"].get("bin") == "Eq" and pv.flow.state_in[bi] is not None:
                    x = pv.operand(st["rv"]["a"], bi, si)
                    y = pv.operand(st["rv"]["b"], bi, si)
                    fx, fy = _fee_call(x, "excluded"), _fee_call(y, "excluded")
                    if (fx and is_param(fx[1], "amount")) or (fy and is_param(fy[1], "amount")):
                        ok = True
    run.check("R1", "fulfilled-test", ok, "exact-in: charging the caller's `amount` is not conditioned on swap input == fee-excluded amount", loc=fn.loc(),
              detail="swap input == excluded(amount) ? amount : included(swap input)")
    # ... and on the right side of it: amount when equal, included(swap input) when the swap stopped short
    for ab in (True, False):
        cx = {"amount_specified_is_input": True, "a_to_b": ab}
        in_f = "amount_a" if ab else "amount_b"
        eqs = []
        for at in A.atoms(fn, cx):
            c = at.cond()
            if c and c[0] in ("Eq", "Ne"):
                fx, fy = _fee_call(c[1], "excluded"), _fee_call(c[2], "excluded")
                if (fx and is_param(fx[1], "amount")) or (fy and is_param(fy[1], "amount")):
                    eqs.append(at)
        res = {}
        for equal in (True, False):
            pva = prov_assuming(fn, [(at, (at.cond()[0] == "Eq") == equal) for at in eqs], cx)
            kinds = set()
            for bi, bb in enumerate(fn.blocks):
                if bb["t"]["k"] == "ret" and pva.flow.state_in[bi] is not None:
                    for l in leaves(pva.local(0, bi, len(bb["s"]))):
                        for s_ in subterms(l):
                            if s_[0] == "agg" and s_[1].endswith("PostSwapUpdate"):
                                for x in leaves(dict(s_[3])[in_f]):
                                    kinds.add("amount" if is_param(x, "amount") else ("included" if _fee_call(x, "included") else "?"))
            res[equal] = kinds
        run.check("R1", "fulfilled-sides[a_to_b=%d]" % ab, bool(eqs) and res == {True: {"amount"}, False: {"included"}},
                  "exact-in a_to_b=%s: swap input == excluded(amount) charges %s, otherwise %s; expected `amount` / included(swap input)" % (ab, sorted(res.get(True, [])), sorted(res.get(False, []))),
                  loc=fn.loc(), detail="fully used => amount; partial => included(input mint, swap input)")


def R3_reposition_info(run):
    run.title("R3", "reposition calculate_token_transfer_info: user pays => (included(mint, delta).amount, its fee, fee counted toward the max); pool pays => (raw delta, "
                    "excluded(mint, delta).fee, 0); the max check is new_range_increase + fee contribution > token_max => TokenMaxExceeded")
    facts = run.facts
    fn = facts.need_fn("pinocchio::instructions::reposition_liquidity_v2::calculate_token_transfer_info")
    run.touch(fn)
    # find the atom on is_transfer_from_owner (a local bool from calculate_token_delta(..).1)
    at0 = None
    for at in A.atoms(fn):
        s = strip(at.term)
        if s[0] == "field" and s[2] == "1" and is_call(s[1], "calculate_token_delta"):
            at0 = at
    if at0 is None:
        run.missing("R3", "direction-atom", "branch on calculate_token_delta(..).1 not found", loc=fn.loc())
        return
    for val in (True, False):
        truth = val
        pv = prov_assuming(fn, [(at0, truth)])
        ret = None
        asr = None
        for bi, bb in enumerate(fn.blocks):
            if bb["t"]["k"] == "ret" and pv.flow.state_in[bi] is not None:
                for l in leaves(pv.local(0, bi, len(bb["s"]))):
                    if l[0] == "agg" and l[2] == "Ok":
                        ret = dict(l[3])["0"]
        # the maximum check, read with assert_new_range_token_increase_under_max spliced in: the one test failing with
        # TokenMaxExceeded, (new_range_increase_amount checked_add contribution)? > token_max, passed by every successful return
        infeasible = [b_ for b_ in range(len(fn.blocks)) if pv.flow.state_in[b_] is None]
        for at in A.atoms(fn):
            if pv.flow.state_in[at.block] is None or "TokenMaxExceeded" not in (at.true_codes | at.false_codes):
                continue
            for (op, x, y) in fail_conditions(at):
                for (o, p_, q_) in ((op, x, y), (A.SWAP[op], y, x)):
                    if o == "Gt" and is_param(q_, "token_max"):
                        s_ = strip(p_)
                        if s_[0] == "call" and s_[1].endswith("ok_or") and is_call(s_[2][0], "checked_add") and not cfg.success_reach(fn, 0, cut_blocks=infeasible + [at.block]):
                            cs_ = strip(s_[2][0])
                            ca = cs_[2]
                            sites = [bi_ for bi_, t_ in fn.calls() if (callee_path(t_) or "") == cs_[1] and pv.flow.state_in[bi_] is not None and not fn.blocks[bi_]["c"]]
                            if len(sites) == 1:
                                # the operands as they are under this direction
                                cb = sites[0]
                                ca = [pv.operand(o_, cb, len(fn.blocks[cb]["s"])) for o_ in fn.blocks[cb]["t"]["a"]]
                            asr = [ca[0], ca[1], q_]
        ok = ret is not None and ret[0] == "tuple" and asr is not None
        if ok:
            amt, fee, flag = [strip(x) for x in ret[1]]
            contrib = strip(asr[1])

            def fee_of(t, kind, field):
                return t[0] == "field" and t[2] == field and is_call(t[1], "pino_calculate_transfer_fee_%s_amount" % kind) and is_param(strip(t[1])[2][0], "token_mint_info") and \
                    is_field(strip(t[1])[2][1], "0") and is_call(strip(strip(t[1])[2][1])[1], "calculate_token_delta")
            if val:
                ok = fee_of(amt, "included", "amount") and fee_of(fee, "included", "transfer_fee") and fee_of(contrib, "included", "transfer_fee")
            else:
                ok = amt[0] == "field" and amt[2] == "0" and is_call(amt[1], "calculate_token_delta") and fee_of(fee, "excluded", "transfer_fee") and const_val(contrib) == 0
            ok = ok and is_param(asr[0], "new_range_increase_amount") and is_param(asr[2], "token_max")
        run.check("R3", "info[from_owner=%d]" % val, ok, "calculate_token_transfer_info(from_owner=%s) returns %s and checks the max with %s" % (
            val, sh(ret, 200) if ret else None, [sh(x, 60) for x in asr] if asr else None), loc=fn.loc(),
            detail="user pays: included amount/fee, fee counted; pool pays: raw delta, excluded fee, 0" )


def R4_helpers(run):
    run.title("R4", "fee helpers (Anchor and Pinocchio): excluded = amount - calculate_fee(amount); included: 0 => (0, 0); 100% => fee = maximum_fee; else calculate_inverse_fee; "
                    "amount + fee via checked_add; calculate_fee(included) != fee => error; no fee config => unchanged; the two copies agree")
    facts = run.facts
    epoch_sub = [(r"get_epoch_transfer_fee\(parse_token_extensions\(extensions_tlv_data\(load_token_program_account_unchecked\(\w+\)\?\)\)\?\)", "get_epoch_transfer_fee(token_mint)")]
    ex = {r"^(extensions_tlv_data|load_token_program_account_unchecked|parse_token_extensions)\(": "Pinocchio reads the fee config through its own TLV parser (checked against SPL's layout by R5)"}
    for a, b in (("util::v2::token::calculate_transfer_fee_excluded_amount", "pinocchio::ported::util_token::pino_calculate_transfer_fee_excluded_amount"),
                 ("util::v2::token::calculate_transfer_fee_included_amount", "pinocchio::ported::util_token::pino_calculate_transfer_fee_included_amount")):
        C12.compare_pair(run, "R4", a, b, subs_b=epoch_sub, exempt=ex)
    for path in ("util::v2::token::calculate_transfer_fee_excluded_amount", "pinocchio::ported::util_token::pino_calculate_transfer_fee_excluded_amount"):
        fn = facts.need_fn(path)
        run.touch(fn)
        pv = prov_of(fn)
        rets = []
        for bi, bb in enumerate(fn.blocks):
            if bb["t"]["k"] == "ret":
                rets = [dict(dict(l[3])["0"][3]) for l in leaves(pv.local(0, bi, len(bb["s"]))) if l[0] == "agg" and l[2] == "Ok" and dict(l[3])["0"][0] == "agg"]
        with_fee = [r for r in rets if const_val(r["transfer_fee"]) != 0]
        no_fee = [r for r in rets if const_val(r["transfer_fee"]) == 0]
        ok = len(with_fee) == 1 and len(no_fee) == 1
        if ok:
            r = with_fee[0]
            amt = strip(r["amount"])
            fee = strip(r["transfer_fee"])
            ok = amt[0] == "call" and amt[1].endswith("checked_sub") and is_param(amt[2][0], "transfer_fee_included_amount") and strip(amt[2][1]) == fee and \
                fee[0] == "call" and fee[1].endswith("calculate_fee") and is_param(fee[2][1], "transfer_fee_included_amount")
            ok = ok and is_param(no_fee[0]["amount"], "transfer_fee_included_amount")
        run.check("R4", "excluded-formula@" + path.rsplit("::", 1)[-1], ok, "%s is not {amount - calculate_fee(amount), calculate_fee(amount)} / unchanged without a fee config" % path, loc=fn.loc(),
                  detail="excluded = amount - fee(amount); fee + excluded == amount by construction")
    for path in ("util::v2::token::calculate_transfer_fee_included_amount", "pinocchio::ported::util_token::pino_calculate_transfer_fee_included_amount"):
        fn = facts.need_fn(path)
        run.touch(fn)
        short = path.rsplit("::", 1)[-1]
        zero = False
        verify = False
        hundred = False
        for at in A.atoms(fn):
            c = at.cond()
            if c and c[0] in ("Eq", "Ne"):
                for (x, y) in ((c[1], c[2]), (c[2], c[1])):
                    if is_param(x, "transfer_fee_excluded_amount") and const_val(y) == 0:
                        zero = True
                    if arg_name(x) == "transfer_fee_basis_points" and const_val(y) == 10000:
                        hundred = at
            for (op, a, b) in fail_conditions(at):
                if op == "Ne" and "TransferFeeCalculationError" in (at.true_codes | at.false_codes):
                    if any(is_call(z, "calculate_fee") for z in (a, b)):
                        verify = True
        run.check("R4", "zero-shortcut@" + short, zero, "%s lost the amount == 0 short-cut" % path, loc=fn.loc(), detail="0 => (0, 0)")
        run.check("R4", "verification@" + short, verify, "%s no longer re-verifies calculate_fee(included) == fee" % path, loc=fn.loc(), detail="calculate_fee(included) != fee => TransferFeeCalculationError")
        ok = False
        if hundred:
            c = hundred.cond()
            for truth, want in ((c[0] == "Eq", "max"), (c[0] != "Eq", "inverse")):
                pv = prov_assuming(fn, [(hundred, truth)])
                for bi, t in fn.calls():
                    if (callee_path(t) or "").endswith("checked_add") and pv.flow.state_in[bi] is not None:
                        a = [pv.operand(x, bi, len(fn.blocks[bi]["s"])) for x in t["a"]]
                        fee = strip(a[1])
                        if want == "max":
                            ok_m = arg_name(fee) == "maximum_fee" and is_param(a[0], "transfer_fee_excluded_amount")
                        else:
                            ok_i = fee[0] == "call" and fee[1].endswith("ok_or") and is_call(fee[2][0], "calculate_inverse_fee") and is_param(strip(fee[2][0])[2][1], "transfer_fee_excluded_amount")
            try:
                ok = ok_m and ok_i
            except NameError:
                ok = False
        run.check("R4", "fee-selection@" + short, ok, "%s: fee is not maximum_fee at 100%% and calculate_inverse_fee(excluded) otherwise, added with checked_add" % path, loc=fn.loc(),
                  detail="bps == 10000 ? maximum_fee : calculate_inverse_fee(excluded)?; included = excluded checked_add fee")


def R5_tlv_reader(run):
    run.title("R5", "Pinocchio TLV reader vs SPL: extension numbers equal ExtensionType discriminants; byte views equal SPL's Pod layouts field by field; "
                    "length checks use size_of of the mapped type; epoch >= newer.epoch selects the newer fee triple else the older, never mixed")
    facts = run.facts
    ext = [a for p, a in facts.adts.items() if p.endswith("spl_token_2022::extension::ExtensionType") and a["kind"] == "enum"]
    if len(ext) != 1:
        raise AnchorMissing("spl ExtensionType enum not in facts")
    discr = {n: int(v) for n, v in ext[0]["discrs"]}
    base = "pinocchio::state::token::extensions::"
    for cname, vname in (("TOKEN_EXTENSION_TYPE_TRANSFER_FEE_CONFIG", "TransferFeeConfig"), ("TOKEN_EXTENSION_TYPE_TRANSFER_HOOK", "TransferHook"),
                         ("TOKEN_EXTENSION_TYPE_MEMO_TRANSFER", "MemoTransfer"), ("TOKEN_EXTENSION_TYPE_UNINITIALIZED", "Uninitialized")):
        v = facts.const_value(base + cname)
        run.check("R5", "ext-number:" + vname, v == discr.get(vname), "%s = %s but spl ExtensionType::%s = %s" % (cname, v, vname, discr.get(vname)), detail="%s == %s" % (cname, discr.get(vname)))
    # local TokenExtensionType agrees too
    loc = [a for p, a in facts.adts.items() if p.endswith("util::v2::token::TokenExtensionType") or (p.endswith("TokenExtensionType") and not p.startswith("anchor"))]
    if loc:
        ld = {n: int(v) for n, v in loc[0]["discrs"]}
        bad = {n: (v, discr.get(n)) for n, v in ld.items() if n in discr and discr[n] != v}
        run.check("R5", "local-extension-enum", not bad, "local TokenExtensionType disagrees with SPL on %s" % bad, detail="%d shared variants agree" % len([n for n in ld if n in discr]))
    # layouts
    def spl(name):
        c = [a for p, a in facts.adts.items() if p.endswith(name)]
        if len(c) != 1:
            raise AnchorMissing("spl type %s not found (found %d)" % (name, len(c)))
        return c[0]
    tfc = spl("extension::transfer_fee::TransferFeeConfig")
    tf = spl("extension::transfer_fee::TransferFee")
    want = []
    for f, o, s in zip(tfc["variants"][0]["fields"], tfc["offsets"], tfc["fsizes"]):
        if f["ty"].endswith("transfer_fee::TransferFee"):
            for g, oo, ss in zip(tf["variants"][0]["fields"], tf["offsets"], tf["fsizes"]):
                want.append((f["name"] + "_" + g["name"], o + oo, ss))
        else:
            want.append((f["name"], o, s))
    mm = facts.need_adt(base + "MemoryMappedTransferFeeConfigExtension")
    got = [(f["name"], o, s) for f, o, s in zip(mm["variants"][0]["fields"], mm["offsets"], mm["fsizes"])]
    for w in want:
        run.check("R5", "layout:TransferFeeConfig." + w[0], w in got, "byte view has %s for `%s`; SPL TransferFeeConfig has offset %d size %d" % ([g for g in got if g[0] == w[0]], w[0], w[1], w[2]),
                  detail="offset %d size %d" % (w[1], w[2]))
    run.check("R5", "size:TransferFeeConfig", mm["size"] == tfc["size"] and len(got) == len(want), "view is %d bytes / %d fields, SPL TransferFeeConfig %d bytes / %d fields" % (mm["size"], len(got), tfc["size"], len(want)),
              detail="%d bytes" % mm["size"])
    for view, name in (("MemoryMappedTransferHookExtension", "extension::transfer_hook::TransferHook"), ("MemoryMappedMemoTransfer", "extension::memo_transfer::MemoTransfer")):
        s = spl(name)
        m = facts.need_adt(base + view)
        w = [(f["name"], o, sz) for f, o, sz in zip(s["variants"][0]["fields"], s["offsets"], s["fsizes"])]
        g = [(f["name"], o, sz) for f, o, sz in zip(m["variants"][0]["fields"], m["offsets"], m["fsizes"])]
        run.check("R5", "layout:" + view, w == g and m["size"] == s["size"], "%s layout %s != SPL %s" % (view, g, w), detail=str(g))
    # accessors of the fee view read their own field
    for fn in facts.fn_list:
        if fn.kind == "fn" and fn.self_ty == base + "MemoryMappedTransferFeeConfigExtension" and fn.argc == 1:
            pv = prov_of(fn)
            for bi, bb in enumerate(fn.blocks):
                if bb["t"]["k"] == "ret":
                    reads = {s[2] for s in subterms(pv.local(0, bi, len(bb["s"]))) if s[0] == "field"}
                    run.check("R5", "accessor:" + fn.name, reads == {fn.name}, "accessor %s() reads %s" % (fn.name, sorted(reads)), loc=fn.loc(), detail="reads its own field")
    # where the TLV area starts: byte 166 for mints and token accounts alike (a mint's 82 bytes are padded to the account length
    # before the account-type byte, so `base length + 1` is right for accounts only and lands in a mint's zero padding)
    xs = [f_ for f_ in facts.fn_list if f_.kind == "fn" and f_.path.endswith("::extensions_tlv_data")]
    okx = len(xs) == 1
    if okx:
        xf = xs[0]
        run.touch(xf)
        pvx = prov_of(xf)
        starts, bounds = [], []
        for bi, bb in enumerate(xf.blocks):
            if bb["t"]["k"] == "ret":
                for l in leaves(pvx.local(0, bi, len(bb["s"]))):
                    for s_ in subterms(l):
                        if s_[0] == "agg" and s_[1].endswith("ops::RangeFrom"):
                            starts.append(const_val(dict(s_[3])["start"]))
        for at in A.atoms(xf):
            c = at.cond()
            if c and c[0] in ("Le", "Lt", "Gt", "Ge"):
                bounds += [const_val(x) for x in (c[1], c[2]) if const_val(x) is not None]
        okx = starts == [166] and bounds == [166]
    run.check("R5", "tlv-offset", okx, "extensions_tlv_data does not start the TLV area at byte 166 for every account kind (starts %s, length test against %s)" % (starts if xs else "?", bounds if xs else "?"),
              loc=xs[0].loc() if xs else None, detail="bytes[166..] when len > 166, for mints and token accounts alike")
    # length checks
    pe = facts.need_fn(base + "parse_token_extensions")
    run.touch(pe)
    sizes = set()
    for at in A.atoms(pe):
        for (op, a, b) in fail_conditions(at):
            for (o, x, y) in ((op, a, b), (A.SWAP[op], b, a)):
                if o == "Ne" and const_val(y) is not None and ("length" in show(x) or "from_le_bytes" in show(x)):
                    # a literal / named constant: the view whose size it is
                    by_size = {(facts.adts.get(base + v) or {}).get("size"): v for v in ("MemoryMappedTransferFeeConfigExtension", "MemoryMappedTransferHookExtension", "MemoryMappedMemoTransfer")}
                    sizes.add(by_size.get(const_val(y), const_val(y)))
                for s in subterms(y):
                    if s[0] == "call" and "size_of<" in s[1] and o == "Ne" and "from_le_bytes" in show(x):
                        sizes.add(s[1][s[1].index("<") + 1:-1].rsplit("::", 1)[-1])
    views = {"MemoryMappedTransferFeeConfigExtension", "MemoryMappedTransferHookExtension", "MemoryMappedMemoTransfer"}
    run.check("R5", "length-checks", sizes == views, "TLV length checks compare against %s, expected the view sizes %s" % (sorted(map(str, sizes)), sorted(views)), loc=pe.loc(),
              detail="length != size_of(view) => InvalidAccountData for each of the 3 views")
    oob = any(o == "Gt" and "len" in show(y) for at in A.atoms(pe) for (op, a, b) in fail_conditions(at) for (o, x, y) in ((op, a, b), (A.SWAP[op], b, a)))
    run.check("R5", "value-bounds", oob, "TLV reader no longer rejects a value that runs past the data", loc=pe.loc(), detail="value_end > len => InvalidAccountData")
    # the walk visits every entry: Token-2022 stores extensions in initialisation order, so the reader may stop only at the end of
    # the data or at the Uninitialized (0) terminator - never because of which extension it has just seen
    hdr = [at for at in A.atoms(pe) if at.cond() and at.cond()[0] in ("Lt", "Gt", "Le", "Ge") and any(x[0] == "len" or (x[0] == "call" and x[1].endswith("::len")) for x in subterms(at.term))]
    succ_ = pe.succ()
    loops = set()
    for at in hdr:
        # blocks on a cycle through this test
        fwd = cfg.reach(pe, at.block)
        back = {b for b in fwd if at.block in cfg.reach(pe, b) and b != at.block or b == at.block}
        if len(back) > 1:
            loops |= {b for b in back if at.block in cfg.reach(pe, b)}
    exits = []
    for b in sorted(loops):
        for x in succ_[b]:
            if x not in loops and cfg.success_reach(pe, x):
                exits.append(b)
    allowed = True
    why = []
    by_block = {at.block: at for at in A.atoms(pe)}
    for b in exits:
        at = by_block.get(b)
        if at is None:
            allowed = False
            why.append("block at line %s" % pe.blocks[b]["t"].get("l"))
            continue
        c = at.cond()
        is_len = any(x[0] == "len" or (x[0] == "call" and x[1].endswith("::len")) for x in subterms(at.term))
        is_zero_type = bool(c) and c[0] in ("Eq", "Ne") and (const_val(c[1]) == 0 or const_val(c[2]) == 0) and any(x[0] == "call" and x[1].endswith("from_le_bytes") for x in subterms(at.term))
        if not (is_len or is_zero_type):
            allowed = False
            why.append("%s (line %s)" % (sh(at.term, 80), at.line))
    run.check("R5", "walk-complete", bool(loops) and bool(exits) and allowed, "the TLV walk can stop early on %s; it may end only at the end of the data or at the Uninitialized terminator" % (why or "nothing found"),
              loc=pe.loc(), detail="%d loop exit(s): end of data / type 0 only" % len(exits))
    # epoch selection
    g = facts.need_fn("pinocchio::ported::util_token::pino_get_epoch_transfer_fee")
    run.touch(g)
    at0 = None
    for at in A.atoms(g):
        c = at.cond()
        if c:
            for (o, x, y) in ((c[0], c[1], c[2]), (A.SWAP[c[0]], c[2], c[1])):
                if o in ("Ge", "Lt") and arg_name(x) == "epoch" and arg_name(y) == "newer_transfer_fee_epoch":
                    at0 = (at, o)
    ok = at0 is not None
    if ok:
        for newer in (True, False):
            truth = newer if at0[1] == "Ge" else (not newer)
            pv = prov_assuming(g, [(at0[0], truth)])
            pre = "newer_transfer_fee_" if newer else "older_transfer_fee_"
            for bi, bb in enumerate(g.blocks):
                if bb["t"]["k"] == "ret" and pv.flow.state_in[bi] is not None:
                    for l in leaves(pv.local(0, bi, len(bb["s"]))):
                        for s in subterms(l):
                            if s[0] == "agg" and s[1].endswith("TransferFee"):
                                d = dict(s[3])
                                names = {k: arg_name(v) for k, v in d.items()}
                                if names != {"epoch": pre + "epoch", "transfer_fee_basis_points": pre + "transfer_fee_basis_points", "maximum_fee": pre + "maximum_fee"}:
                                    ok = False
    run.check("R5", "epoch-selection", ok, "pino_get_epoch_transfer_fee does not return the newer triple iff epoch >= newer epoch (all three fields from one prefix)", loc=g.loc(),
              detail="epoch >= newer.epoch ? newer{epoch,bps,max} : older{epoch,bps,max}")
    # a mint that has the extension always has a fee schedule: nothing but the epoch decides which, and `None` is returned only for
    # a mint without the extension (a newer rate of 0 bp does not mean the older, still running, rate is 0)
    extra = [at for at in A.atoms(g) if at0 is None or at is not at0[0]]
    run.check("R5", "epoch-only", not extra, "pino_get_epoch_transfer_fee also branches on %s; with the extension present only the epoch may decide" % [at.describe()[:80] for at in extra[:3]],
              loc=g.loc(), detail="no test besides epoch >= newer epoch")
    # the Anchor path's selection: Token-2022's own selector on the current epoch, or the same comparison written out
    h = facts.need_fn("util::v2::token::get_epoch_transfer_fee")
    run.touch(h)
    pvh = prov_of(h)
    sel = calls_to(h, lambda p: p.endswith("TransferFeeConfig::get_epoch_fee"))
    from_clock = lambda t: mentions(t, lambda x: x[0] == "call" and x[1].endswith("::get") and "Clock" in x[1]) and is_field(strip(t), "epoch")
    rets = []
    for bi, bb in enumerate(h.blocks):
        if bb["t"]["k"] == "ret":
            for l in leaves(pvh.local(0, bi, len(bb["s"]))):
                for x in subterms(l):
                    if x[0] == "agg" and x[2] == "Some":
                        rets.append(strip(dict(x[3])["0"]))
    if sel:
        ok = all(from_clock(a[1]) for _, _, a in sel) and rets and all(any(y[0] == "call" and y[1].endswith("get_epoch_fee") for y in subterms(r)) for r in rets)
        what = "get_epoch_fee(Clock::get()?.epoch)"
    else:
        ok = False
        what = "explicit"
        for at in A.atoms(h):
            c = at.cond()
            if not c:
                continue
            for (o, x, y) in ((c[0], c[1], c[2]), (A.SWAP[c[0]], c[2], c[1])):
                fy = field_chain(strip(y)) or []
                if o in ("Ge", "Lt") and from_clock(x) and fy[-2:] == ["newer_transfer_fee", "epoch"]:
                    good = True
                    for newer in (True, False):
                        pv = prov_assuming(h, [(at, newer if o == "Ge" else (not newer))])
                        want = "newer_transfer_fee" if newer else "older_transfer_fee"
                        for bi, bb in enumerate(h.blocks):
                            if bb["t"]["k"] == "ret" and pv.flow.state_in[bi] is not None:
                                for l in leaves(pv.local(0, bi, len(bb["s"]))):
                                    for z in subterms(l):
                                        if z[0] == "agg" and z[2] == "Some":
                                            fc = field_chain(strip(dict(z[3])["0"])) or []
                                            if fc[-1:] != [want]:
                                                good = False
                    ok = ok or good
    run.check("R5", "epoch-selection@anchor", bool(ok), "get_epoch_transfer_fee does not select the fee schedule Token-2022 applies in the current epoch "
              "(newer iff Clock epoch >= newer_transfer_fee.epoch)", loc=h.loc(), detail=what)


RULES = [R1_swap_wiring, R3_reposition_info, R4_helpers, R5_tlv_reader]
